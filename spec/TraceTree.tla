----------------------------- MODULE TraceTree -----------------------------
(***************************************************************************)
(* V binding for the tree builder: symbol sequences recorded from the real *)
(* scanner on real inputs (fixtures, mutations), together with what the    *)
(* real scan stage did with them, are validated against the meaning layer. *)
(* One TLC run validates many traces: l walks over the records.            *)
(*                                                                         *)
(* A record: [id, doc, scanned, par, erridx, begins, nextpos]              *)
(*   doc      the symbol sequence (as in JSightTree)                       *)
(*   scanned  the real scan stage finished                                 *)
(*   par      if scanned: parent item of every item (-1 for non-keywords)  *)
(*   erridx   if not scanned: byte index of the real diagnostic            *)
(*   begins   byte offset of every item                                    *)
(*   nextpos  for every item, the byte offset of the symbol whose arrival  *)
(*            flushes it (next keyword or ")", or the length of the input) *)
(* Consistency is one-directional where the model abstracts: an unrelated  *)
(* scan-stage diagnostic (bad parameter, unknown keyword) may pre-empt a   *)
(* context rejection, but only if it is raised before the flushing symbol. *)
(***************************************************************************)
EXTENDS JSightTree

Trace == ndJsonDeserialize("tree_traces.ndjson")

VARIABLE l
tvars == <<l, chain, pend, st, doc, inc>>

\* r.multi: the symbols come from several files (INCLUDE): only verdict and parents are judged
Consistent(r) ==
  LET m == Meaning(r.doc) IN
  IF r.multi THEN (IF m.v = "ok" THEN (r.scanned => r.par = m.par) ELSE ~r.scanned) ELSE
  CASE m.v = "ok"        -> IF r.scanned THEN r.par = m.par ELSE TRUE   \* pre-empted by a non-context diagnostic
    [] m.v = "rej_ctx"   -> ~r.scanned /\ (r.erridx = r.begins[m.at] \/ r.erridx < r.nextpos[m.at])
    [] m.v = "err_close" -> ~r.scanned /\ r.erridx <= r.begins[m.at]
    [] m.v = "err_eof"   -> ~r.scanned
    [] m.v = "err_open"  -> ~r.scanned /\ r.erridx <= r.begins[m.at]
    [] OTHER             -> TRUE

TInit == l = 1 /\ Init
TNext == l <= Len(Trace) /\ l' = l + 1 /\ UNCHANGED vars
TSpec == TInit /\ [][TNext]_tvars

\* mismatches are reported, not used to stop the run, so that one run judges all traces
Report ==
  (l <= Len(Trace) /\ ~Consistent(Trace[l])) =>
     PrintT("MBT " \o ToJson([id |-> Trace[l].id, want |-> Meaning(Trace[l].doc)]))
=============================================================================
