SPECIFICATION Spec
CHECK_DEADLOCK FALSE
INVARIANTS Judge Complete
