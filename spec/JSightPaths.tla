---------------------------- MODULE JSightPaths ----------------------------
(***************************************************************************)
(* Paths, at small scope and exhaustively (properties C11, C13, C19, C10). *)
(* A project is a sequence of HTTP methods, each written at top level with  *)
(* its path; a method may describe ALL the parameters of its path with a    *)
(* Path directive.  Paths are sequences of one to MaxLen segments over      *)
(* {a, b, {x}, {y}}.  TLC enumerates every sequence of N entries.           *)
(*                                                                         *)
(* Meaning (demanded from the code):                                       *)
(*  - a {name} repeated in one path                          => rejected   *)
(*  - the same verb on the same path twice                   => rejected   *)
(*  - two paths that differ only in parameter names          => rejected   *)
(*  - a parameter described twice for one prefix             => rejected   *)
(*    (a method without parameters writes no Path directive)               *)
(*  - otherwise, if no two paths are "similar" in the wider sense of the    *)
(*    code (below), the project is accepted and has, in source order, one   *)
(*    interaction per entry whose pathVariables are the parameters of its   *)
(*    path for which SOME entry describes a parameter at that very prefix,  *)
(*    in path order, and whose tag is the automatic tag of its first        *)
(*    segment.                                                              *)
(* Implementation layer: the code also rejects two paths whose FIRST        *)
(* difference is a parameter against a parameter (for instance /a/{x}/b and *)
(* /a/{y}): not demanded, not forbidden; the verdict must only be the same  *)
(* in both orders (every sequence is enumerated in every order).            *)
(***************************************************************************)
EXTENDS Naturals, Sequences, FiniteSets, TLC, Json

CONSTANTS N, MaxLen, SampleMod, SamplePick

Segs  == <<"a", "b", "{x}", "{y}">>
Verbs == <<"GET", "POST">>
IsParam(s) == s \in {"{x}", "{y}"}
Paths == UNION {[1..n -> 1..Len(Segs)] : n \in 1..MaxLen}     \* as index functions
Entry == [verb : 1..Len(Verbs), path : Paths, decl : BOOLEAN]

VARIABLE proj
Init == proj \in [1..N -> Entry]
Next == UNCHANGED proj
Spec == Init /\ [][Next]_proj

P(e) == [i \in 1..Len(e.path) |-> Segs[e.path[i]]]            \* the path as segments
HasParam(e) == \E i \in 1..Len(P(e)) : IsParam(P(e)[i])
Repeated(e) == \E i, j \in 1..Len(P(e)) : i < j /\ IsParam(P(e)[i]) /\ P(e)[i] = P(e)[j]
SamePlace(e, f) == e.verb = f.verb /\ P(e) = P(f)
OnlyNames(p, q) == /\ Len(p) = Len(q) /\ p # q
                   /\ \A i \in 1..Len(p) : p[i] = q[i] \/ (IsParam(p[i]) /\ IsParam(q[i]))
Prefix(p, i) == SubSeq(p, 1, i)
\* the parameters an entry describes: every parameter of its path, keyed by the prefix that ends with it
Described(e) == IF e.decl /\ HasParam(e) THEN {Prefix(P(e), i) : i \in {j \in 1..Len(P(e)) : IsParam(P(e)[j])}} ELSE {}
DescribedTwice == \E i, j \in 1..N : i < j /\ Described(proj[i]) \cap Described(proj[j]) # {}
\* the code's wider notion: the first difference of two paths is a parameter against a parameter
FirstDiff(p, q) == LET m == IF Len(p) < Len(q) THEN Len(p) ELSE Len(q)
                       D == {i \in 1..m : p[i] # q[i]}
                   IN IF D = {} THEN 0 ELSE CHOOSE i \in D : \A j \in D : i <= j
ImplSimilar(p, q) == LET i == FirstDiff(p, q) IN i > 0 /\ IsParam(p[i]) /\ IsParam(q[i])

Why ==
  (IF \E i \in 1..N : Repeated(proj[i]) THEN {"repeated_name"} ELSE {})
  \cup (IF \E i, j \in 1..N : i < j /\ SamePlace(proj[i], proj[j]) THEN {"same_method_and_path"} ELSE {})
  \cup (IF \E i, j \in 1..N : i < j /\ OnlyNames(P(proj[i]), P(proj[j])) THEN {"only_parameter_names_differ"} ELSE {})
  \cup (IF DescribedTwice THEN {"described_twice"} ELSE {})
MustReject == Why # {}
WiderSimilar == \E i, j \in 1..N : i < j /\ ImplSimilar(P(proj[i]), P(proj[j]))
Verdict == IF MustReject THEN "rejected" ELSE IF WiderSimilar THEN "unjudged" ELSE "accepted"

AllDescribed == UNION {Described(proj[i]) : i \in 1..N}
PathVars(e) == LET idx == {i \in 1..Len(P(e)) : IsParam(P(e)[i]) /\ Prefix(P(e), i) \in AllDescribed}
               IN [k \in 1..Cardinality(idx) |->
                     P(e)[CHOOSE i \in idx : Cardinality({j \in idx : j < i}) = k - 1]]
View(e) == [verb |-> Verbs[e.verb], path |-> P(e), decl |-> (e.decl /\ HasParam(e)), vars |-> PathVars(e), first |-> P(e)[1]]

RECURSIVE Hash(_, _)
Hash(i, acc) == IF i > N THEN acc
                ELSE LET e == proj[i]
                         RECURSIVE H(_, _)
                         H(k, a) == IF k > Len(e.path) THEN a ELSE H(k + 1, (a * 5 + e.path[k]) % 1000003)
                     IN Hash(i + 1, (H(1, acc * 7 + e.verb + (IF e.decl THEN 3 ELSE 0)) * 11 + i) % 1000003)
Emit == (Hash(1, 17) % SampleMod = SamplePick) =>
          PrintT("MBT " \o ToJson([entries |-> [i \in 1..N |-> View(proj[i])], verdict |-> Verdict, why |-> Why]))
=============================================================================
