------------------------------ MODULE TraceMap ------------------------------
(***************************************************************************)
(* V binding for C16: histories recorded from the REAL collections under   *)
(* concurrent goroutines (invoke/return events stamped by one atomic       *)
(* counter) are accepted iff every call can take effect atomically at some *)
(* point between its invoke and its return (linearisability against the    *)
(* atomic insertion-ordered map), with the logged results.                 *)
(* A "barrier" event marks a quiescent point; a "reset" event starts the   *)
(* next history with an empty map (many histories per TLC run).            *)
(* Acceptance: some behaviour consumes the whole trace; TLC reports that   *)
(* as a violation of the invariant NotDone.  The high-water mark of l is   *)
(* kept in TLC register 1 and printed, so a rejected history can be        *)
(* localised.                                                              *)
(***************************************************************************)
EXTENDS Naturals, Sequences, FiniteSets, TLC, Json

Trace == ndJsonDeserialize("map_trace.ndjson")
Threads == 1..16

VARIABLES l, order, data, pend
vars == <<l, order, data, pend>>

NoOp == [op |-> "none", k |-> "", v |-> 0, lin |-> FALSE, res |-> ""]
Keys == {Trace[i].k : i \in {j \in 1..Len(Trace) : Trace[j].e = "inv"}}

Init == l = 1 /\ order = << >> /\ data = [k \in Keys |-> 0] /\ pend = [t \in Threads |-> NoOp] /\ TLCSet(1, 1)

Has(k) == data[k] # 0
RECURSIVE Join(_, _)
Join(s, i) == IF i > Len(s) THEN ""
              ELSE (IF i > 1 THEN "," ELSE "") \o s[i] \o "=" \o ToString(data[s[i]]) \o Join(s, i + 1)
RECURSIVE JoinRev(_, _)
JoinRev(s, i) == IF i < 1 THEN ""
                 ELSE s[i] \o "=" \o ToString(data[s[i]]) \o (IF i > 1 THEN "," ELSE "") \o JoinRev(s, i - 1)
FirstGE(s, min) == LET idx == {i \in 1..Len(s) : data[s[i]] >= min} IN
                   IF idx = {} THEN "none" ELSE s[CHOOSE i \in idx : \A j \in idx : i <= j]
RECURSIVE JoinKeys(_, _)
JoinKeys(s, i) == IF i > Len(s) THEN "" ELSE (IF i > 1 THEN "," ELSE "") \o s[i] \o JoinKeys(s, i + 1)

\* the atomic effect of one call (OrderedMapAtomic): new order, new data, result
Effect(p) ==
  CASE p.op = "Set" ->      [o |-> IF Has(p.k) THEN order ELSE Append(order, p.k), d |-> [data EXCEPT ![p.k] = p.v], r |-> "ok"]
    [] p.op = "SetToTop" -> [o |-> IF Has(p.k) THEN order ELSE <<p.k>> \o order, d |-> [data EXCEPT ![p.k] = p.v], r |-> "ok"]
    [] p.op = "Update" ->   [o |-> order, d |-> IF Has(p.k) THEN [data EXCEPT ![p.k] = @ + 1] ELSE data, r |-> "ok"]
    [] p.op = "Get" ->      [o |-> order, d |-> data, r |-> IF Has(p.k) THEN ToString(data[p.k]) ELSE "none"]
    [] p.op = "Has" ->      [o |-> order, d |-> data, r |-> IF Has(p.k) THEN "true" ELSE "false"]
    [] p.op = "Len" ->      [o |-> order, d |-> data, r |-> ToString(Cardinality({k \in Keys : Has(k)}))]
    [] p.op = "Each" ->     [o |-> order, d |-> data, r |-> Join(order, 1)]
    [] p.op = "JSON" ->     [o |-> order, d |-> data, r |-> JoinKeys(order, 1)]
    [] p.op = "EachReverse" -> [o |-> order, d |-> data, r |-> JoinRev(order, Len(order))]
    [] p.op = "Map" ->      [o |-> order, d |-> [k \in Keys |-> IF Has(k) THEN data[k] + 1 ELSE 0], r |-> "ok"]
    [] p.op = "Find" ->     [o |-> order, d |-> data, r |-> FirstGE(order, p.v)]

Inv == /\ l <= Len(Trace) /\ Trace[l].e = "inv" /\ pend[Trace[l].t] = NoOp
       /\ pend' = [pend EXCEPT ![Trace[l].t] = [op |-> Trace[l].op, k |-> Trace[l].k, v |-> Trace[l].v, lin |-> FALSE, res |-> ""]]
       /\ l' = l + 1 /\ UNCHANGED <<order, data>>

\* the silent linearisation step: at most one per call, only for calls that are pending,
\* and only if the effect produces the result that the call is going to return
Lin(t) == /\ pend[t] # NoOp /\ ~pend[t].lin
          /\ LET e == Effect(pend[t]) IN
               /\ order' = e.o /\ data' = e.d
               /\ pend' = [pend EXCEPT ![t] = [@ EXCEPT !.lin = TRUE, !.res = e.r]]
          /\ UNCHANGED l

Ret == /\ l <= Len(Trace) /\ Trace[l].e = "ret"
       /\ pend[Trace[l].t].lin /\ pend[Trace[l].t].res = Trace[l].r
       /\ pend' = [pend EXCEPT ![Trace[l].t] = NoOp]
       /\ l' = l + 1 /\ UNCHANGED <<order, data>>

Barrier == /\ l <= Len(Trace) /\ Trace[l].e = "barrier" /\ \A t \in Threads : pend[t] = NoOp
           /\ l' = l + 1 /\ UNCHANGED <<order, data, pend>>

\* end of one history: the final iteration order and size the real collection reported
Final == /\ l <= Len(Trace) /\ Trace[l].e = "final" /\ \A t \in Threads : pend[t] = NoOp
         /\ Trace[l].r = Join(order, 1)
         /\ Trace[l].v = Cardinality({k \in Keys : Has(k)})
         /\ l' = l + 1 /\ order' = << >> /\ data' = [k \in Keys |-> 0] /\ UNCHANGED pend

\* a Lin step is only useful if the pending call's return is still ahead; prune linearisations
\* whose result already contradicts the logged return of that thread
NextRet(t) == LET idx == {i \in l..Len(Trace) : Trace[i].e = "ret" /\ Trace[i].t = t} IN
              IF idx = {} THEN 0 ELSE CHOOSE i \in idx : \A j \in idx : i <= j
LinOK(t) == Lin(t) /\ (NextRet(t) # 0 => Effect(pend[t]).r = Trace[NextRet(t)].r)

Next == Inv \/ Ret \/ Barrier \/ Final \/ \E t \in Threads : LinOK(t)
Spec == Init /\ [][Next]_vars

WF == Len(order) = Cardinality({k \in Keys : Has(k)}) /\ \A i, j \in 1..Len(order) : order[i] = order[j] => i = j
Mark == TLCGet(1) < l => TLCSet(1, l)
NotDone == l <= Len(Trace)
Post == PrintT("MBT " \o ToJson([highwater |-> TLCGet(1), len |-> Len(Trace)]))
=============================================================================
