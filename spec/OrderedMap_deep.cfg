SPECIFICATION Spec
CONSTANTS
  Threads = {t1, t2}
  Keys = {k1, k2}
  Locked = TRUE
  OpSet = {"Set", "SetToTop", "Update", "Get", "Has", "Len", "Each", "Map"}
  OpsPerThread = 3
INVARIANTS MutualExclusion OrderIsDomain NoLostUpdate EachConsistent
CHECK_DEADLOCK TRUE
