SPECIFICATION Spec
CONSTANTS
  Threads = {t1, t2, t3}
  Keys = {k1, k2}
  Locked = TRUE
  OpSet = {"SetToTop", "Update", "Each"}
  OpsPerThread = 2
INVARIANTS MutualExclusion OrderIsDomain NoLostUpdate EachConsistent
CHECK_DEADLOCK TRUE
