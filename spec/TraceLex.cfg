SPECIFICATION TSpec
CHECK_DEADLOCK FALSE
INVARIANTS Report StackBounded CurMonotone
