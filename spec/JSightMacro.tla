---------------------------- MODULE JSightMacro ----------------------------
(***************************************************************************)
(* MACRO / PASTE graphs (property C07, second sentence; C01 totality).     *)
(* A project is a set of macro definitions - each a payload declaration    *)
(* plus PASTEs of other macros - and PASTEs at top level.  TLC enumerates  *)
(* every such graph over the name alphabets (names chosen so that the      *)
(* lexicographic order of the macro names varies independently of the      *)
(* graph shape) and evaluates the meaning:                                 *)
(*   - a PASTE of an undefined macro          => rejected                  *)
(*   - any cycle among the defined macros     => rejected, used or not     *)
(*   - otherwise expansion is the unfolding: a macro reached along k paths *)
(*     from the top level contributes its payload k times; a payload       *)
(*     declared twice is a duplicate name     => rejected; else accepted   *)
(*     with exactly the payloads of the macros reached.                    *)
(***************************************************************************)
EXTENDS Naturals, Sequences, FiniteSets, TLC, Json

CONSTANTS Defined,      \* names of the macros that are defined
          Targets,      \* names that may be pasted (Defined plus undefined ones)
          SampleMod, SamplePick

VARIABLES g, top        \* g[m] = sequence of names pasted in the body of m (in order); top = pasted at top level
vars == <<g, top>>

Seqs(S) == {<< >>} \cup {<<x>> : x \in S} \cup {<<x, y>> : x \in S, y \in S}

Init == g \in [Defined -> Seqs(Targets)] /\ top \in Seqs(Targets)
Next == UNCHANGED vars
Spec == Init /\ [][Next]_vars

Range(s) == {s[i] : i \in 1..Len(s)}
Succ(m) == IF m \in Defined THEN Range(g[m]) \cap Defined ELSE {}

RECURSIVE Reach(_, _)
Reach(frontier, seen) ==
  IF frontier = {} THEN seen
  ELSE LET m == CHOOSE x \in frontier : TRUE
       IN Reach((frontier \cup Succ(m)) \ (seen \cup {m}), seen \cup {m})
OnCycle(m) == m \in Reach(Succ(m), {})
HasCycle == \E m \in Defined : OnCycle(m)
\* macros whose body is expanded: reached from the top-level pastes
Expanded == Reach(Range(top) \cap Defined, {})
\* an undefined PASTE counts when it is expanded.  (Inside a macro that is never pasted the code does
\* not look at it - "a macro that is never pasted contributes nothing"; the sentence "a PASTE of an
\* undefined macro is rejected" can be read either way there, so the oracle does not demand it.)
Undefined == \E m \in Expanded : Range(g[m]) \ Defined # {}
UndefinedTop == Range(top) \ Defined # {}

\* number of times macro m is expanded when the sequence s of pastes is expanded (acyclic graphs only)
RECURSIVE Count(_, _)
Count(s, m) ==
  IF s = << >> THEN 0
  ELSE (IF s[1] = m THEN 1 ELSE 0) + (IF s[1] \in Defined THEN Count(g[s[1]], m) ELSE 0) + Count(Tail(s), m)

Verdict ==
  IF HasCycle THEN "rejected:cycle"
  ELSE IF Undefined \/ UndefinedTop THEN "rejected:undefined"
  ELSE IF \E m \in Defined : Count(top, m) >= 2 THEN "rejected:duplicate"
  ELSE "accepted"
Payloads == {m \in Defined : ~HasCycle /\ Count(top, m) = 1}

\* sampling: every graph is emitted with probability 1/SampleMod (SamplePick only perturbs the stream)
\* (the argument only keeps TLC from caching the definition as a constant)
Pick(x) == SampleMod = 1 \/ RandomElement(1..SampleMod) = 1 + (SamplePick % SampleMod)
Emit == Pick(top) =>
          PrintT("MBT " \o ToJson([g |-> [m \in Defined |-> g[m]], top |-> top, verdict |-> Verdict, payloads |-> Payloads]))
=============================================================================
