--------------------------- MODULE JSightInclude ---------------------------
(* INCLUDE handling of the scan stage (core/include.go, core/scan_project.go,             *)
(* scanner/stack.go) as a state machine over whole projects.                              *)
(*                                                                                        *)
(* A project is a small file tree (root directory with main.jst, a.jst and a directory    *)
(* sub with a.jst, b.jst).  A file is a sequence of items: a declaration ("d"), a JSIGHT  *)
(* line ("j") or an INCLUDE with a written name.  The content of a file is chosen when    *)
(* the machine first reads it, so TLC enumerates exactly the projects that differ in what *)
(* the scan stage can see.                                                                *)
(*                                                                                        *)
(* Implementation layer (one action per critical section of the code):                    *)
(*   name check -> os.Stat -> os.ReadFile -> Stack.Push(current scanner) -> switch scanner*)
(*   end of file -> Stack.Pop;  JSIGHT with a non-empty stack -> error                     *)
(*   Push refuses when the name of the INCLUDING file is already suspended: a cycle is    *)
(*   noticed one level late (the file is read and scanned a second time first).           *)
(* A written name is the value of the parameter, i.e. what is left after the quotes and   *)
(* escapes of a quoted spelling are removed (JSightText!Unescape; finding F-49): the       *)
(* replay spells every second INCLUDE in double quotes.                                    *)
(* Meaning layer: Flat = textual inlining, with a cycle refused on entry.                 *)
(* Checked in every reachable state: the machine accepts exactly the projects whose       *)
(* inlining exists and has no duplicate declaration, and then emits the declarations in   *)
(* the order of the inlining; suspended files are pairwise distinct; every read follows   *)
(* the stat of the same path; paths stay inside the tree; the run is finite.              *)
EXTENDS Naturals, Sequences, FiniteSets, TLC, Json

CONSTANTS MaxItems,      \* items per included file
          MaxMain,       \* items of main.jst (after the optional JSIGHT line)
          SampleMod, SamplePick

Files == {"main.jst", "a.jst", "sub/a.jst", "sub/b.jst"}
Dirs == {"sub"}
Written == {"a.jst", "sub/a.jst", "b.jst", "sub/b.jst", "sub//b.jst", "main.jst", "sub", "../main.jst"}
DirOf(f) == IF f \in {"sub/a.jst", "sub/b.jst"} THEN "sub" ELSE ""
Clean(w) == IF w = "sub//b.jst" THEN "sub/b.jst" ELSE w        \* filepath.Join cleans the result
Join(d, w) == IF d = "" THEN Clean(w) ELSE d \o "/" \o Clean(w)
BadName(w) == w = "../main.jst"

D == [t |-> "d", w |-> ""]
J == [t |-> "j", w |-> ""]
Inc(w) == [t |-> "inc", w |-> w]
ItemsNoJ == {D} \cup {Inc(w) : w \in Written}
Items == ItemsNoJ \cup {J}
Unread == << [t |-> "unread", w |-> ""] >>

SeqsUpTo(S, n) == UNION {[1..k -> S] : k \in 0..n}
Contents(f) == IF f = "main.jst"
               THEN {pre \o s : pre \in {<< >>, <<J>>}, s \in SeqsUpTo(ItemsNoJ, MaxMain)}
               ELSE SeqsUpTo(Items, MaxItems)

VARIABLES content, cur, stack, ops, emitted, status, n
vars == <<content, cur, stack, ops, emitted, status, n>>

Init == /\ \E c \in Contents("main.jst") : content = [f \in Files |-> IF f = "main.jst" THEN c ELSE Unread]
        /\ cur = [f |-> "main.jst", i |-> 1]
        /\ stack = << >>
        /\ ops = << >>
        /\ emitted = << >>
        /\ status = [k |-> "run", f |-> "", i |-> 0, trace |-> << >>]
        /\ n = 0

StackFiles == {stack[k].f : k \in 1..Len(stack)}

Fail(kind) == /\ status' = [k |-> kind, f |-> cur.f, i |-> cur.i, trace |-> stack]
              /\ UNCHANGED <<content, cur, stack, emitted>>

Advance == cur' = [cur EXCEPT !.i = @ + 1]

\* the second emission of a declaration that was emitted before (buildCatalog: duplicate name)
FirstDup(s) == LET idx == {k \in 1..Len(s) : \E j \in 1..(k - 1) : s[j].f = s[k].f /\ s[j].i = s[k].i} IN
               IF idx = {} THEN 0 ELSE CHOOSE k \in idx : \A j \in idx : k <= j

\* buildCatalog: the first directive of a non-empty project must be JSIGHT (checked before anything else)
MainHasJ == content["main.jst"] # << >> /\ content["main.jst"][1].t = "j"
Finish == LET k == FirstDup(emitted) IN
          /\ status' = IF emitted # << >> /\ ~MainHasJ
                       THEN [k |-> "nojsight", f |-> emitted[1].f, i |-> emitted[1].i, trace |-> emitted[1].via]
                       ELSE IF k = 0 THEN [status EXCEPT !.k = "ok"]
                       ELSE [k |-> "dup", f |-> emitted[k].f, i |-> emitted[k].i, trace |-> emitted[k].via]
          /\ UNCHANGED <<content, cur, stack, emitted, ops>>

EndOfFile == IF stack = << >> THEN Finish
             ELSE LET top == stack[Len(stack)] IN
                  /\ cur' = [f |-> top.f, i |-> top.i + 1]              \* Stack.Pop, scanning resumes after the INCLUDE
                  /\ stack' = SubSeq(stack, 1, Len(stack) - 1)
                  /\ UNCHANGED <<content, ops, emitted, status>>

Include(w) ==
  IF BadName(w) THEN Fail("badname") /\ UNCHANGED ops                      \* validateIncludeFileName: before any file access
  ELSE LET p == Join(DirOf(cur.f), w)
           o1 == Append(ops, <<"stat", p>>)
           o2 == Append(o1, <<"read", p>>) IN
       IF p \in Dirs THEN Fail("dir") /\ ops' = o1
       ELSE IF p \notin Files THEN Fail("missing") /\ ops' = o1
       ELSE IF cur.f \in StackFiles THEN Fail("cycle") /\ ops' = o2       \* Push refuses the including file, after the read
       ELSE /\ ops' = o2
            /\ stack' = Append(stack, [f |-> cur.f, i |-> cur.i])
            /\ cur' = [f |-> p, i |-> 1]
            /\ IF content[p] = Unread
               THEN \E c \in Contents(p) : content' = [content EXCEPT ![p] = c]
               ELSE UNCHANGED content
            /\ UNCHANGED <<emitted, status>>

Step == /\ status.k = "run"
        /\ n' = n + 1
        /\ LET its == content[cur.f] IN
           IF cur.i > Len(its) THEN EndOfFile
           ELSE LET it == its[cur.i] IN
                CASE it.t = "d" -> /\ emitted' = Append(emitted, [f |-> cur.f, i |-> cur.i, via |-> stack])
                                   /\ Advance /\ UNCHANGED <<content, stack, ops, status>>
                  [] it.t = "j" -> IF stack = << >> THEN Advance /\ UNCHANGED <<content, stack, ops, emitted, status>>
                                   ELSE Fail("jsight") /\ UNCHANGED ops
                  [] it.t = "inc" -> Include(it.w)

Next == Step
Spec == Init /\ [][Next]_vars

-----------------------------------------------------------------------------
(* Meaning layer: textual inlining.  r.err = TRUE when the inlining does not exist. *)
RECURSIVE Flat(_, _, _)
RECURSIVE FlatItems(_, _, _, _)
Flat(f, path, root) == FlatItems(f, path, root, 1)
FlatItems(f, path, root, i) ==
  LET its == IF content[f] = Unread THEN << >> ELSE content[f] IN
  IF i > Len(its) THEN [err |-> FALSE, seq |-> << >>]
  ELSE LET it == its[i]
           rest == FlatItems(f, path, root, i + 1) IN
       CASE it.t = "d" -> IF rest.err THEN rest ELSE [err |-> FALSE, seq |-> << <<f, i>> >> \o rest.seq]
         [] it.t = "j" -> IF root THEN rest ELSE [err |-> TRUE, seq |-> << >>]
         [] it.t = "inc" ->
              LET p == Join(DirOf(f), it.w) IN
              IF BadName(it.w) \/ p \in Dirs \/ p \notin Files \/ p \in path \cup {f}
              THEN [err |-> TRUE, seq |-> << >>]
              ELSE LET sub == Flat(p, path \cup {f}, FALSE) IN
                   IF sub.err \/ rest.err THEN [err |-> TRUE, seq |-> << >>]
                   ELSE [err |-> FALSE, seq |-> sub.seq \o rest.seq]

NoDupSeq(s) == \A a, b \in 1..Len(s) : a # b => s[a] # s[b]
Meaning == LET r == Flat("main.jst", {}, TRUE) IN
           IF r.err \/ ~NoDupSeq(r.seq) \/ (r.seq # << >> /\ ~MainHasJ) THEN [ok |-> FALSE, seq |-> << >>] ELSE [ok |-> TRUE, seq |-> r.seq]

Terminal == status.k # "run"

\* --- invariants ---------------------------------------------------------------
ImplMatchesMeaning ==
  Terminal => LET m == Meaning IN
              /\ (status.k = "ok") = m.ok
              /\ status.k = "ok" => [k \in 1..Len(emitted) |-> <<emitted[k].f, emitted[k].i>>] = m.seq
SuspendedDistinct == \A a, b \in 1..Len(stack) : a # b => stack[a].f # stack[b].f
DepthBound == Len(stack) <= Cardinality(Files)
StatBeforeRead == \A k \in 1..Len(ops) : ops[k][1] = "read" => k > 1 /\ ops[k - 1] = <<"stat", ops[k][2]>>
Confined == \A k \in 1..Len(ops) : ops[k][2] \in Files \cup Dirs \cup {Join(d, w) : d \in {"", "sub"}, w \in Written \ {"../main.jst"}}
\* a file is read at most once more than the number of INCLUDE items that name it legitimately would explain:
\* the late cycle check costs one extra read per file of the cycle, never an unbounded number
Finite == n <= 400

\* --- emission --------------------------------------------------------------------
RECURSIVE Hash(_)
Hash(s) == IF s = << >> THEN 7 ELSE ((IF s[1][1] = "stat" THEN 3 ELSE 5) * 31 + 17 * Hash(Tail(s)) + Len(s[1][2])) % 1000003
WCode(w) == CASE w = "" -> 0 [] w = "a.jst" -> 1 [] w = "sub/a.jst" -> 2 [] w = "b.jst" -> 3 [] w = "sub/b.jst" -> 4
                 [] w = "main.jst" -> 5 [] w = "sub" -> 6 [] w = "sub//b.jst" -> 8 [] OTHER -> 7
ICode(it) == (CASE it.t = "d" -> 1 [] it.t = "j" -> 2 [] it.t = "inc" -> 3 [] OTHER -> 0) * 16 + WCode(it.w)
RECURSIVE SHash(_)
SHash(q) == IF q = << >> THEN 11 ELSE (ICode(q[1]) * 131 + 31 * SHash(Tail(q))) % 1000003
ContentHash == (SHash(content["main.jst"]) + 3 * SHash(content["a.jst"]) + 7 * SHash(content["sub/a.jst"])
                + 13 * SHash(content["sub/b.jst"])) % 1000003
\* the frequent outcomes are thinned out more than the rare ones
ModOf(k) == IF k \in {"missing", "cycle", "jsight", "badname", "nojsight"} THEN SampleMod ELSE (SampleMod \div 25) + 1
Emit == (Terminal /\ (Hash(ops) + ContentHash + Len(emitted) * 13 + n) % ModOf(status.k) = SamplePick % ModOf(status.k)) =>
        PrintT("MBT " \o ToJson([content |-> [f \in {g \in Files : content[g] # Unread} |-> content[f]],
                                 status |-> status, emitted |-> emitted, ops |-> ops, steps |-> n,
                                 meaning |-> Meaning]))
=============================================================================
