------------------------------ MODULE TraceLex ------------------------------
(***************************************************************************)
(* V binding for the scanner: inputs on which the REAL scanner was run     *)
(* (fixtures, their mutations, TLC-generated token sequences), with the    *)
(* real lexeme stream, the real error index and the schema library's own   *)
(* answer for every body.  For each trace TLC                              *)
(*   (gate)  evaluates the meaning-layer predicates of C14 on the real     *)
(*           stream: LexemesWF, KeywordsKnown, OnlyTriviaSkipped,          *)
(*           BodyIsOneValue;                                               *)
(*   (conf)  runs the implementation-layer machine JSightLex!Run over the  *)
(*           same bytes and compares lexeme by lexeme and the error index  *)
(*           (reported as conformance, it does not gate).                  *)
(***************************************************************************)
EXTENDS JSightLex

Traces == ndJsonDeserialize("lex_traces.ndjson")

\* l: index of the trace; sc: state of the implementation-layer machine on that trace.  One TLC state
\* per byte step, so the machine's invariants are evaluated after every byte of every trace.
VARIABLES l, sc
TInit == l = 1 /\ sc = Init0
Finished(r) == Bad(sc) \/ sc.cur > Len(r.inp)
TNext == /\ l <= Len(Traces)
         /\ IF Finished(Traces[l]) THEN l' = l + 1 /\ sc' = Init0
            ELSE l' = l /\ sc' = Step(Traces[l].inp, Traces[l].orc, sc)
TSpec == TInit /\ [][TNext]_<<l, sc>>

\* invariants of the machine, checked after every byte
StackBounded == Len(sc.evs) <= 2
CurMonotone == sc.cur >= 0

LibLen(r, pos) == IF \E i \in 1..Len(r.orc) : r.orc[i][1] = pos
                  THEN r.orc[CHOOSE i \in 1..Len(r.orc) : r.orc[i][1] = pos][2] ELSE -2

RxLen(r, pos) == IF \E i \in 1..Len(r.rx) : r.rx[i][1] = pos
                 THEN r.rx[CHOOSE i \in 1..Len(r.rx) : r.rx[i][1] = pos][2] ELSE -1

\* a bare description (the text lexeme right after a Description keyword, neither parenthesised nor a regex body - a regex body
\* that the regex library does not recognise is a text lexeme too and may span lines) ends where a line begins with a
\* directive: inside it no line begins - after blanks - with a keyword (or a response code) that is followed by a blank,
\* a line end, a "/" or the end of the lexeme.  (The directive would have been dropped into the text.)
KwAt(inp, f, e) ==
  \/ \E k \in 1..Len(KwTable) :
        LET n == Len(KwTable[k]) IN
        /\ f + n - 1 <= e /\ Text(inp, f, f + n - 1) = KwTable[k]
        /\ (f + n > e \/ ByteAt(inp, f + n) \in {32, 9, 10, 13, 47, 35})
  \/ /\ f + 2 <= e /\ ByteAt(inp, f) >= 49 /\ ByteAt(inp, f) <= 53 /\ Digit(ByteAt(inp, f + 1)) /\ Digit(ByteAt(inp, f + 2))
     /\ (f + 3 > e \/ ByteAt(inp, f + 3) \in {32, 9, 10, 13})
BareTextsEndAtDirectives(r) ==
  \A i \in 1..Len(r.real) :
     (r.real[i][1] = 5 /\ r.real[i][2] <= r.real[i][3] /\ RxLen(r, r.real[i][2]) < 0
        /\ i > 1 /\ r.real[i - 1][1] = 0          \* the text of a Description: the lexeme before it is that keyword
        /\ Text(r.inp, r.real[i - 1][2], r.real[i - 1][3]) = << 68, 101, 115, 99, 114, 105, 112, 116, 105, 111, 110 >>) =>
        LET b == r.real[i][2]  e == r.real[i][3]
            nb == {k \in b..e : ~Ws(ByteAt(r.inp, k)) /\ ~Nl(ByteAt(r.inp, k))}
        IN (nb # {} /\ ByteAt(r.inp, CHOOSE k \in nb : \A m \in nb : k <= m) # 40) =>
             ~\E j \in b..(e - 1) :
                 /\ Nl(ByteAt(r.inp, j))
                 /\ LET S == {m \in (j + 1)..e : ~Ws(ByteAt(r.inp, m))}
                    IN S # {} /\ (LET f == CHOOSE m \in S : \A q \in S : m <= q
                                  IN ~Nl(ByteAt(r.inp, f)) /\ KwAt(r.inp, f, e))

GateProblems(r) ==
  IF r.rpanic THEN {"scanner panicked"}
  ELSE IF r.rerr >= 0 THEN {}          \* C14 speaks about inputs the scanner reads without error
  ELSE (IF LexemesWFLoose(r.inp, r.real) THEN {} ELSE {"lexemes not inside the input / overlapping / not increasing"})
       \cup (IF KeywordsKnown(r.inp, r.real) THEN {} ELSE {"keyword lexeme does not spell a known directive"})
       \cup (IF LexemesWFLoose(r.inp, r.real) /\ ~AnnotationsDelimited(r.inp, r.real)
             THEN {"annotation lexeme is not what its delimiters enclose"} ELSE {})
       \cup (IF LexemesWFLoose(r.inp, r.real) /\ ~BareTextsEndAtDirectives(r)
             THEN {"a directive line lies inside a bare description lexeme"} ELSE {})
       \cup (IF LexemesWFLoose(r.inp, r.real) /\ ~DescriptionsDelimited(r.inp, r.real)
             THEN {"description lexeme is not what its parentheses enclose"} ELSE {})
       \cup (IF LexemesWFLoose(r.inp, r.real) /\ ~OnlyTriviaSkipped(r.inp, r.real, Len(r.inp))
             THEN {"a byte outside all lexemes is not trivia"} ELSE {})
       \cup (IF \E i \in 1..Len(r.real) : r.real[i][1] \in {3, 8} /\ LibLen(r, r.real[i][2]) # r.real[i][3] - r.real[i][2] + 1
             THEN {"body lexeme is not exactly one value of the schema library"} ELSE {})
       \cup (IF \E i \in 1..Len(r.real) : r.real[i][1] = 5 /\ RxLen(r, r.real[i][2]) >= 0
                                            /\ RxLen(r, r.real[i][2]) # r.real[i][3] - r.real[i][2] + 1
             THEN {"regex body lexeme is not the expression the regex library delimits"} ELSE {})

Conf(r) ==
  LET m == sc IN
  IF r.rpanic THEN [agree |-> FALSE, why |-> "real scanner panicked", perr |-> m.err, pcrash |-> m.crash]
  ELSE IF m.crash # "" THEN [agree |-> FALSE, why |-> "model predicts a crash: " \o m.crash, perr |-> m.err, pcrash |-> m.crash]
  ELSE IF (m.err >= 0) # (r.rerr >= 0) THEN [agree |-> FALSE, why |-> "error / no error", perr |-> m.err, pcrash |-> ""]
  ELSE IF m.err >= 0 /\ ~m.fuzzy /\ m.err # r.rerr THEN [agree |-> FALSE, why |-> "error index", perr |-> m.err, pcrash |-> ""]
  ELSE IF m.err >= 0 /\ m.fuzzy /\ r.rerr < m.err THEN [agree |-> FALSE, why |-> "error index (library)", perr |-> m.err, pcrash |-> ""]
  ELSE IF m.out # r.real THEN [agree |-> FALSE, why |-> "lexeme stream", perr |-> m.err, pcrash |-> ""]
  ELSE [agree |-> TRUE, why |-> "", perr |-> m.err, pcrash |-> ""]

Report ==
  (l <= Len(Traces) /\ Finished(Traces[l])) =>
     LET r == Traces[l] g == GateProblems(r) c == Conf(r) IN
     (g # {} \/ ~c.agree) => PrintT("MBT " \o ToJson([id |-> r.id, gate |-> g, conf |-> c]))
=============================================================================
