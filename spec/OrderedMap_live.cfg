SPECIFICATION Spec
CONSTANTS
  Threads = {t1, t2}
  Keys = {k1}
  Locked = TRUE
  OpsPerThread = 1
INVARIANTS MutualExclusion
PROPERTY Termination
CHECK_DEADLOCK TRUE
