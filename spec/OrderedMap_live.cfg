SPECIFICATION Spec
CONSTANTS
  Threads = {t1, t2}
  Keys = {k1}
  Locked = TRUE
  OpSet = {"Set", "SetToTop", "Update", "Get", "Has", "Len", "Each", "Map"}
  OpsPerThread = 1
INVARIANTS MutualExclusion
PROPERTY Termination
CHECK_DEADLOCK TRUE
