---------------------------- MODULE JSightVocab ----------------------------
(***************************************************************************)
(* Shared vocabulary of the JSight API language as the library implements  *)
(* it: directive kinds, keyword spellings, the admissibility table         *)
(* (which kind may be a child of which), the kinds admissible at top       *)
(* level.  The tables are written once here; `bin/check tables` exports    *)
(* them from TLC as JSON and compares them cell by cell with what the real *)
(* public functions answer (directive.NewDirectiveType,                    *)
(* Enumeration.IsAllowedForDirectiveContext, IsAllowedForRootContext,      *)
(* IsHTTPRequestMethod), so the specification and the code cannot drift    *)
(* apart silently in their data.                                           *)
(***************************************************************************)
EXTENDS Naturals, Sequences, FiniteSets, TLC, Json

Resp == "HTTP-response-code"

Http == {"GET", "POST", "PUT", "PATCH", "DELETE"}

\* all 30 kinds, in the order of the code's enumeration
KindSeq == << "JSIGHT", "INFO", "Title", "Version", "Description", "SERVER", "BaseUrl", "URL",
              "GET", "POST", "PUT", "PATCH", "DELETE", "Body", "Request", Resp, "Path",
              "Headers", "Query", "TYPE", "ENUM", "MACRO", "PASTE", "INCLUDE", "Protocol",
              "Method", "Params", "Result", "TAG", "Tags" >>

Kinds == {KindSeq[i] : i \in 1..Len(KindSeq)}

\* INCLUDE is consumed before the tree is built; it never becomes a node
TreeKinds == Kinds \ {"INCLUDE"}

RootKinds == {"JSIGHT", "INFO", "SERVER", "URL", "TYPE", "ENUM", "MACRO", "PASTE", "TAG"} \cup Http

HttpChildren == {"Description", "Request", Resp, "Path", "Query", "PASTE", "Tags"}

AdmitsOf(p) ==
  CASE p = "URL"     -> Http \cup {"Path", "PASTE", "Protocol", "Method", "Tags"}
    [] p \in Http    -> HttpChildren
    [] p = Resp      -> {"Body", "Headers", "PASTE"}
    [] p = "Request" -> {"Body", "Headers", "PASTE"}
    [] p = "INFO"    -> {"Title", "Version", "Description", "PASTE"}
    [] p = "SERVER"  -> {"BaseUrl", "PASTE"}
    [] p = "Method"  -> {"Description", "Params", "Result", "Tags"}
    [] p = "TAG"     -> {"Description"}
    [] p = "MACRO"   -> {"INFO", "Title", "Version", "Description", "SERVER", "BaseUrl", "URL",
                         "Body", "Request", Resp, "Path", "Headers", "Query", "TYPE", "ENUM",
                         "PASTE"} \cup Http
    [] OTHER         -> {}

Admits(p, c) == c \in AdmitsOf(p)

\* kinds that can never carry an explicit parenthesis: after "Description" the scanner reads
\* "(" as the beginning of bracketed text, never as a context-open lexeme
NoParenKinds == {"Description"}

\* the data exported to the harness for the cell-by-cell comparison
VocabExport ==
  [ kinds  |-> KindSeq,
    root   |-> {k \in Kinds : k \in RootKinds},
    http   |-> Http,
    admits |-> [k \in Kinds |-> AdmitsOf(k)] ]

ASSUME RootKinds \subseteq Kinds
ASSUME \A k \in Kinds : AdmitsOf(k) \subseteq Kinds
ASSUME Cardinality(Kinds) = 30
=============================================================================
