SPECIFICATION Spec
CHECK_DEADLOCK FALSE
INVARIANTS WF Mark NotDone
POSTCONDITION Post
