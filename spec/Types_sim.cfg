SPECIFICATION Spec
CHECK_DEADLOCK FALSE
INVARIANT Emit
CONSTANTS
  Steps = 1
