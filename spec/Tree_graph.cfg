SPECIFICATION Spec
CHECK_DEADLOCK FALSE
INVARIANTS TypeOK Agree KeepsParens ChainWF RootWF DepthBound CanonReaches Emit
