----------------------------- MODULE OrderedMap -----------------------------
(***************************************************************************)
(* The generated insertion-ordered maps of catalog/*_gen.go and            *)
(* directive/directives_gen.go: a Go map `data`, a key slice `order`, one  *)
(* sync.RWMutex.  Every method body is modelled as the code's micro-steps  *)
(* (has -> append order -> store; Update: has -> fn -> store; Each: one    *)
(* step per key) executed under the lock the code takes.  With the         *)
(* constant Locked = FALSE the lock is not taken: the negative config that *)
(* TLC must reject (non-vacuity of the invariants).                        *)
(***************************************************************************)
EXTENDS Naturals, Sequences, FiniteSets, TLC

CONSTANTS Threads, Keys, Locked, OpsPerThread,
          OpSet        \* the operations the threads may call (a subset of Ops)

None == "none"
NoVal == 0          \* values are positive integers

VARIABLES order, data,          \* the map: order \in Seq(Keys), data \in [Keys -> Nat] (NoVal = absent)
          writer, readers,      \* the RWMutex
          pc, op, tmp, done,    \* per thread: program counter, current operation, scratch, operations finished
          incs,                 \* history: per key, number of completed Update increments since the last Set
          seen                  \* per thread: what a running Each has collected so far
vars == <<order, data, writer, readers, pc, op, tmp, done, incs, seen>>

Ops == {"Set", "SetToTop", "Update", "Get", "Has", "Len", "Each", "Map"}
IsWrite(o) == o \in {"Set", "SetToTop", "Update", "Map"}
HasKey(k) == data[k] # NoVal
DomainSize == Cardinality({k \in Keys : HasKey(k)})

Init ==
  /\ order = << >> /\ data = [k \in Keys |-> NoVal]
  /\ writer = None /\ readers = {}
  /\ pc = [t \in Threads |-> "idle"] /\ op = [t \in Threads |-> [o |-> "none", k |-> None, v |-> 0]]
  /\ tmp = [t \in Threads |-> 0] /\ done = [t \in Threads |-> 0]
  /\ incs = [k \in Keys |-> 0] /\ seen = [t \in Threads |-> << >>]

Start(t) ==
  /\ pc[t] = "idle" /\ done[t] < OpsPerThread
  /\ \E o \in OpSet, k \in Keys, v \in {1, 5} :
        op' = [op EXCEPT ![t] = [o |-> o, k |-> k, v |-> v]]
  /\ pc' = [pc EXCEPT ![t] = "lock"]
  /\ UNCHANGED <<order, data, writer, readers, tmp, done, incs, seen>>

\* m.mx.Lock() / m.mx.RLock()
Acquire(t) ==
  /\ pc[t] = "lock"
  /\ IF ~Locked THEN UNCHANGED <<writer, readers>>
     ELSE IF IsWrite(op[t].o)
          THEN writer = None /\ readers = {} /\ writer' = t /\ UNCHANGED readers
          ELSE writer = None /\ readers' = readers \cup {t} /\ UNCHANGED writer
  /\ pc' = [pc EXCEPT ![t] = "s1"]
  /\ seen' = [seen EXCEPT ![t] = << >>]
  /\ tmp' = [tmp EXCEPT ![t] = 0]
  /\ UNCHANGED <<order, data, op, done, incs>>

Release(t) ==
  /\ IF ~Locked THEN UNCHANGED <<writer, readers>>
     ELSE IF IsWrite(op[t].o) THEN writer' = None /\ UNCHANGED readers
          ELSE readers' = readers \ {t} /\ UNCHANGED writer
  /\ pc' = [pc EXCEPT ![t] = "idle"]
  /\ done' = [done EXCEPT ![t] = @ + 1]

\* step 1 of Set/SetToTop: `if !m.has(k)` ; remember the answer
S1(t) ==
  /\ pc[t] = "s1"
  /\ CASE op[t].o \in {"Set", "SetToTop"} ->
            /\ tmp' = [tmp EXCEPT ![t] = IF HasKey(op[t].k) THEN 1 ELSE 0]
            /\ pc' = [pc EXCEPT ![t] = "s2"]
            /\ UNCHANGED <<order, data, writer, readers, op, done, incs, seen>>
       [] op[t].o = "Update" ->
            IF ~HasKey(op[t].k)
            THEN Release(t) /\ UNCHANGED <<order, data, op, tmp, incs, seen>>
            ELSE /\ tmp' = [tmp EXCEPT ![t] = data[op[t].k] + 1]     \* fn(m.data[k]) evaluated
                 /\ pc' = [pc EXCEPT ![t] = "s3"]
                 /\ UNCHANGED <<order, data, writer, readers, op, done, incs, seen>>
       [] op[t].o = "Map" ->          \* one step per key, in order, under the write lock: m.data[k] = fn(k, m.data[k])
            IF tmp[t] < Len(order)
            THEN /\ data' = [data EXCEPT ![order[tmp[t] + 1]] = @ + 1]
                 /\ incs' = [incs EXCEPT ![order[tmp[t] + 1]] = @ + 1]
                 /\ tmp' = [tmp EXCEPT ![t] = @ + 1]
                 /\ UNCHANGED <<order, writer, readers, pc, op, done, seen>>
            ELSE Release(t) /\ UNCHANGED <<order, data, op, tmp, incs, seen>>
       [] op[t].o \in {"Get", "Has", "Len"} ->
            Release(t) /\ UNCHANGED <<order, data, op, tmp, incs, seen>>
       [] op[t].o = "Each" ->
            IF Len(seen[t]) < Len(order)
            THEN /\ seen' = [seen EXCEPT ![t] = Append(@, <<order[Len(@) + 1], data[order[Len(@) + 1]]>>)]
                 /\ UNCHANGED <<order, data, writer, readers, pc, op, tmp, done, incs>>
            ELSE Release(t) /\ UNCHANGED <<order, data, op, tmp, incs, seen>>

\* step 2 of Set/SetToTop: append / prepend the key if it was absent
S2(t) ==
  /\ pc[t] = "s2"
  /\ order' = IF tmp[t] = 1 THEN order
              ELSE IF op[t].o = "Set" THEN Append(order, op[t].k) ELSE <<op[t].k>> \o order
  /\ pc' = [pc EXCEPT ![t] = "s3"]
  /\ UNCHANGED <<data, writer, readers, op, tmp, done, incs, seen>>

\* last step of the writers: m.data[k] = v
S3(t) ==
  /\ pc[t] = "s3"
  /\ data' = [data EXCEPT ![op[t].k] = IF op[t].o = "Update" THEN tmp[t] ELSE op[t].v]
  /\ incs' = [incs EXCEPT ![op[t].k] = IF op[t].o = "Update" THEN @ + 1 ELSE 0]
  /\ Release(t)
  /\ UNCHANGED <<order, op, tmp, seen>>

Finished == \A t \in Threads : pc[t] = "idle" /\ done[t] = OpsPerThread
Next == (\E t \in Threads : Start(t) \/ Acquire(t) \/ S1(t) \/ S2(t) \/ S3(t)) \/ (Finished /\ UNCHANGED vars)
Spec == Init /\ [][Next]_vars /\ WF_vars(Next)

-----------------------------------------------------------------------------
Range(s) == {s[i] : i \in 1..Len(s)}
NoDup(s) == \A i, j \in 1..Len(s) : s[i] = s[j] => i = j

MutualExclusion == writer # None => readers = {}
\* whenever no writer is inside, every key appears exactly once in the order
OrderIsDomain == (\A t \in Threads : ~(IsWrite(op[t].o) /\ pc[t] \in {"s1", "s2", "s3"})) =>
                    (NoDup(order) /\ Range(order) = {k \in Keys : HasKey(k)})
\* no update is lost: since the last Set of a key its value grew by exactly the completed increments
NoLostUpdate == \A k \in Keys : (HasKey(k) /\ \A t \in Threads : ~(IsWrite(op[t].o) /\ (op[t].k = k \/ op[t].o = "Map") /\ pc[t] \in {"s1", "s2", "s3"}))
                                   => data[k] \in {1 + incs[k], 5 + incs[k]}
\* a running Each never sees an absent value and never sees a key twice
EachConsistent == \A t \in Threads : NoDup([i \in 1..Len(seen[t]) |-> seen[t][i][1]])
                                      /\ \A i \in 1..Len(seen[t]) : seen[t][i][2] # NoVal
Termination == <>Finished
=============================================================================
