------------------------------ MODULE JSightApi ------------------------------
(***************************************************************************)
(* Meaning layer for whole API descriptions: what a JSight document        *)
(* declares, when it is well formed, and what catalog it denotes.          *)
(* Deliberately declarative and order-free where the properties demand it: *)
(* names are resolved against the whole document, inheritance is a         *)
(* recursive function of the type table, tags follow the precedence rule.  *)
(*                                                                         *)
(* The module is also the generator: the actions build an abstract         *)
(* document block by block; the choice sets are either enumerated          *)
(* (exhaustive configs, small alphabets) or sampled with RandomElement     *)
(* (simulation).  Terminal states emit the document together with          *)
(* Valid(doc) and Catalog(doc) as one JSON line; the Go harness renders    *)
(* the document, runs the real library and projects its JSON output into   *)
(* the same vocabulary for comparison.  No expected value is computed      *)
(* outside TLC.                                                            *)
(***************************************************************************)
EXTENDS Naturals, Sequences, FiniteSets, TLC, Json, SequencesExt

CONSTANTS
  Exhaustive,     \* TRUE: enumerate choice sets; FALSE: RandomElement (simulation)
  MaxBlocks,      \* number of top-level blocks per document
  Rich,           \* TRUE: full alphabets; FALSE: reduced alphabets for exhaustive runs
  Features        \* subset of {"info","server","type","enum","tag","url","method","rpc","allof","pathdecl","tags"}

VARIABLES doc, phase
vars == <<doc, phase>>

\* `s` (the document built so far) is passed to every generator operator only so that TLC does
\* not treat them as constants and cache one random choice for the whole run
Pick(s, S) == IF Exhaustive THEN S ELSE {RandomElement(S)}

-----------------------------------------------------------------------------
(* Alphabets                                                               *)

\* "dense": three type names and only the special property kinds, so that chains of allOf over types
\* with nested objects / shortcut keys are frequent
TypeNames   == IF "dense" \in Features THEN {"@a", "@b", "@c"} ELSE IF Rich THEN {"@a", "@b", "@c", "@d"} ELSE {"@a", "@b"}
EnumNames   == {"@e", "@f"}
TagNames    == {"@g", "@h"}
ServerNames == {"@s", "@t"}
Verbs       == IF Rich THEN {"GET", "POST", "PUT", "PATCH", "DELETE"} ELSE {"GET", "POST"}
Annots      == {"", "note one", "collapsed text", "wide spaces", "note *"}
               \* "collapsed text" is written with runs of blanks and a tab; "wide spaces" stands for a text with no-break,
               \* ideographic and em spaces and a vertical tab (run/apidoc.py WIDE_TEXT): characters, not blanks; "note *" is
               \* written as the block annotation "/* note **/" (the closing delimiter directly after an asterisk of the text)
Descs       == {"", "some text"}
Codes       == IF Rich THEN {"200", "201", "404", "409", "500", "599"} ELSE {"200", "404"}

IsParam(seg) == seg \in {"{x}", "{y}", "{z}"}
ParamName(seg) == CASE seg = "{x}" -> "x" [] seg = "{y}" -> "y" [] seg = "{z}" -> "z" [] OTHER -> ""

\* paths are sequences of segments; rendered as "/" joined
UrlPaths == IF Rich
            THEN {<<"p">>, <<"p", "q">>, <<"r">>, <<"p", "{x}">>, <<"p", "{x}", "q">>, <<"r", "{y}">>, <<"r", "{y}", "{z}">>, <<"w">>,
                  <<"{z}">>, <<"{z}", "q">>}        \* a parameter as the very first segment
            ELSE {<<"p">>, <<"p", "{x}">>, <<"r">>}

RECURSIVE PathStr(_)
PathStr(p) == IF p = << >> THEN "" ELSE "/" \o p[1] \o PathStr(Tail(p))

-----------------------------------------------------------------------------
(* Abstract schema bodies                                                  *)
(* [k, n, props, allOf]: k in obj|ref|arr|int|str|regex|any|empty          *)
(* props: sequence of [key, vk, vn] with vk in int|str|ref|arr|enum        *)

Body(k, n, props, allOf) == [k |-> k, n |-> n, props |-> props, allOf |-> allOf]
NoBody == Body("none", "", << >>, << >>)
P(key, vk, vn) == [key |-> key, vk |-> vk, vn |-> vn]

\* "nobj": a nested object that carries its own allOf rule:  "no": { // {allOf: "@b"}  "nk": 1 }
PropPool == {P("id", "int", ""), P("name", "str", ""), P("ra", "ref", "@a"), P("rb", "ref", "@b"),
             P("la", "arr", "@a"), P("en", "enum", "@e"), P("k1", "int", ""), P("k2", "str", "")}
            \cup (IF "nested" \in Features THEN {P("no", "nobj", "@b"), P("nc", "nobj", "@c")} ELSE {})
            \* "opt": "op": 1 // {optional: true}      "note": "nt": "v" // a note
            \cup (IF "rules" \in Features THEN {P("op", "opt", ""), P("nt", "note", "")} ELSE {})
            \* "or": "ab": @a | @b      "mm": 3 // {min: 1, max: 9}      "nu": null      "li": [1, 2]
            \cup (IF "rules" \in Features THEN {P("ab", "or", ""), P("mm", "minmax", ""), P("nu", "null", ""), P("li", "ints", "")} ELSE {})
            \* "skey": a property whose key is a user type (shortcut key):   @kt: 1
            \cup (IF "skey" \in Features THEN {P("@kt", "skey", "@kt")} ELSE {})
SmallPropPool == {P("id", "int", ""), P("rb", "ref", "@b"), P("en", "enum", "@e")}

DensePool == {P("id", "int", ""), P("@kt", "skey", "@kt"), P("no", "nobj", "@b"), P("nc", "nobj", "@c"), P("rb", "ref", "@b")}
PropSeqs == IF "dense" \in Features
            THEN {<<x>> : x \in DensePool} \cup {<<P("k1", "int", ""), y>> : y \in DensePool}
            ELSE IF Rich
            THEN {<<x>> : x \in PropPool} \cup {<<x, y>> : x \in {P("id", "int", ""), P("k1", "int", "")}, y \in PropPool \ {P("id", "int", ""), P("k1", "int", "")}}
            ELSE {<<x>> : x \in SmallPropPool}

ObjBodies == {Body("obj", "", ps, << >>) : ps \in PropSeqs}
RefBodies == {Body("ref", n, << >>, << >>) : n \in TypeNames} \cup {Body("arr", n, << >>, << >>) : n \in TypeNames}
ScalarBodies == {Body("int", "", << >>, << >>), Body("str", "", << >>, << >>)}
OtherBodies == {Body("regex", "", << >>, << >>), Body("any", "", << >>, << >>), Body("empty", "", << >>, << >>)}

TypeBodies == ObjBodies \cup ScalarBodies \cup OtherBodies \cup (IF Rich THEN RefBodies ELSE {})
AllOfSeqs == IF "allof" \in Features THEN {<<n>> : n \in TypeNames} \cup {<<"@b", "@c">>, <<"@c", "@b">>} ELSE {}

\* how a request / response body is written
\*   form: "param" (type or notation as a parameter of the directive itself), "inline" (body under the
\*         directive), "child" (a child Body directive), with the body value b
BodySpec(form, b) == [form |-> form, b |-> b]
AllOfBodies == {Body("obj", "", ps, ao) : ps \in PropSeqs, ao \in AllOfSeqs}
MsgBodies == ObjBodies \cup RefBodies \cup ScalarBodies \cup OtherBodies \cup (IF "allofmsg" \in Features THEN AllOfBodies ELSE {})
FormsFor(b) == IF b.k \in {"ref", "arr", "any", "empty"} THEN {"param", "child"} ELSE {"inline", "child"}

-----------------------------------------------------------------------------
(* Blocks                                                                  *)

Resp(code, annot, spec, headers) == [code |-> code, annot |-> annot, spec |-> spec, headers |-> headers]
Meth(verb, path, annot, desc, tags, query, req, reqHeaders, resps, pathdecl) ==
  [verb |-> verb, path |-> path, annot |-> annot, desc |-> desc, tags |-> tags, query |-> query,
   req |-> req, reqHeaders |-> reqHeaders, resps |-> resps, pathdecl |-> pathdecl]

NoSpec == BodySpec("none", NoBody)
HeaderBody == Body("obj", "", <<P("h1", "str", "")>>, << >>)
QueryBody  == Body("obj", "", <<P("q1", "int", "")>>, << >>)
\* query = "allof": the Query schema inherits from the user type @a
QueryBodyOf(q) == IF q = "allof" THEN Body("obj", "", <<P("q1", "int", "")>>, <<"@a">>) ELSE QueryBody

GenSpec(s) == UNION {{BodySpec(f, b) : f \in Pick(s, FormsFor(b))} : b \in Pick(s, MsgBodies)}

GenResp(s) == {Resp(c, a, sp, h) : c \in Pick(s, Codes), a \in Pick(s, Annots), sp \in GenSpec(s), h \in Pick(s, BOOLEAN)}

GenResps(s) == {<< >>} \cup {<<r>> : r \in GenResp(s)}
            \cup (IF Exhaustive THEN {} ELSE {<<r1, r2>> : r1 \in GenResp(s), r2 \in GenResp(s)})

TagSeqs == IF "tags" \in Features THEN {<< >>, <<"@g">>, <<"@h">>, <<"@g", "@h">>} ELSE {<< >>}

ParamsOf(p) == SelectSeq(p, IsParam)
\* a Path declaration lists a subsequence of the parameters of its path (all, or the last one)
DeclChoices(p) ==
  IF "pathdecl" \notin Features \/ ParamsOf(p) = << >> THEN {<< >>}
  ELSE {<< >>, [i \in 1..Len(ParamsOf(p)) |-> ParamName(ParamsOf(p)[i])],
        <<ParamName(ParamsOf(p)[Len(ParamsOf(p))])>>,
        <<ParamName(ParamsOf(p)[1])>>}      \* only the first: the rest may be declared by another Path of the same block

MethodDeclChoices(p) == IF "methoddecl" \in Features THEN DeclChoices(p) ELSE {<< >>}
GenMethod(s, paths) ==
  {Meth(v, p, a, d, t, q, rq, rh, rs, pd) :
     v \in Pick(s, Verbs), p \in Pick(s, paths), a \in Pick(s, Annots), d \in Pick(s, Descs), t \in Pick(s, TagSeqs),
     q \in Pick(s, {"", "plain", "example", "noformat"} \cup (IF "allofmsg" \in Features THEN {"allof"} ELSE {})),
     rq \in (IF Exhaustive THEN {NoSpec} ELSE {NoSpec} \cup GenSpec(s)), rh \in Pick(s, BOOLEAN),
     rs \in GenResps(s), pd \in {<< >>}}   \* the Path declaration is chosen where the full path is known

GenInfo(s)   == {[t |-> "info", title |-> ti, version |-> ve, desc |-> de] :
                ti \in Pick(s, {"", "My API"}), ve \in Pick(s, {"", "1.2"}), de \in Pick(s, Descs)}
GenServer(s) == {[t |-> "server", name |-> n, annot |-> a, base |-> b] :
                n \in Pick(s, ServerNames), a \in Pick(s, Annots), b \in Pick(s, {"http://x.y/z", "https://h"})}
\* "graph": all inheritance graphs over three types (exhaustive configs): every type is an object with one
\* of four property kinds and inherits from none, one or two of the other types, in either order
GraphProps(n) == {<<P("i" \o n, "int", "")>>, <<P("@kt", "skey", "@kt")>>, <<P("o" \o n, "nobj", "@c")>>,
                  <<P("r" \o n, "ref", "@b"), P("k" \o n, "int", "")>>, <<P("s" \o n, "str", ""), P("@kt", "skey", "@kt")>>}
GraphAllOf(n) == LET o == {"@a", "@b", "@c"} \ {n} IN
                 {<< >>} \cup {<<x>> : x \in o} \cup UNION {{<<x, y>> : y \in o \ {x}} : x \in o}
GenType(s)   == IF "graph" \in Features
                THEN UNION {{[t |-> "type", name |-> n, annot |-> "", body |-> Body("obj", "", ps, ao)] :
                              ps \in GraphProps(n), ao \in GraphAllOf(n)} : n \in {"@a", "@b", "@c"}}
                ELSE {[t |-> "type", name |-> n, annot |-> a, body |-> b] :
                        n \in Pick(s, TypeNames), a \in Pick(s, Annots),
                        b \in Pick(s, TypeBodies \cup AllOfBodies)}
GenEnum(s)   == {[t |-> "enum", name |-> n, annot |-> a] : n \in Pick(s, EnumNames), a \in Pick(s, Annots)}
GenTag(s)    == {[t |-> "tag", name |-> n, annot |-> a, desc |-> d] :
                n \in Pick(s, TagNames), a \in Pick(s, Annots), d \in Pick(s, Descs)}
GenUrl(s)    == UNION {{[t |-> "url", path |-> p, tags |-> tg, pathdecl |-> pd, methods |-> ms] :
                 tg \in Pick(s, TagSeqs), pd \in Pick(s, DeclChoices(p)),
                 ms \in {<<[m EXCEPT !.pathdecl = mpd]>> : m \in GenMethod(s, {<< >>}), mpd \in Pick(s, MethodDeclChoices(p))}
                        \cup (IF Exhaustive THEN {}
                              ELSE {<<[m1 EXCEPT !.pathdecl = mpd1], [m2 EXCEPT !.pathdecl = mpd2]>> :
                                      m1 \in GenMethod(s, {<< >>}), m2 \in GenMethod(s, {<< >>}),
                                      mpd1 \in Pick(s, MethodDeclChoices(p)), mpd2 \in Pick(s, MethodDeclChoices(p))})}
               : p \in Pick(s, UrlPaths)}
GenTopMethod(s) == UNION {{[t |-> "method", m |-> [m EXCEPT !.pathdecl = pd]] : pd \in Pick(s, MethodDeclChoices(m.path))}
                          : m \in GenMethod(s, UrlPaths)}
RpcMeth(name, annot, desc, tags, params, result) ==
  [name |-> name, annot |-> annot, desc |-> desc, tags |-> tags, params |-> params, result |-> result]
RpcBodies == ObjBodies \cup RefBodies \cup {NoBody}
GenRpcMeth(s) == {RpcMeth(n, a, d, t, pa, re) : n \in Pick(s, {"foo", "bar"}), a \in Pick(s, Annots), d \in Pick(s, Descs),
                 t \in Pick(s, TagSeqs), pa \in Pick(s, RpcBodies), re \in Pick(s, RpcBodies)}
\* a URL-level Tags (or Path) directive is HTTP-side: the code rejects it next to Protocol/Method
\* ("directives ... cannot be within the same URL directive"), so JSON-RPC blocks carry tags on
\* their methods only
GenRpc(s)    == {[t |-> "rpc", path |-> p, tags |-> tg, methods |-> ms] :
                p \in Pick(s, UrlPaths), tg \in {<< >>},
                ms \in {<<m>> : m \in GenRpcMeth(s)} \cup (IF Exhaustive THEN {} ELSE {<<m1, m2>> : m1 \in GenRpcMeth(s), m2 \in GenRpcMeth(s)})}

GenBlock(s) ==
  (IF "info" \in Features THEN GenInfo(s) ELSE {}) \cup
  (IF "server" \in Features THEN GenServer(s) ELSE {}) \cup
  (IF "type" \in Features THEN GenType(s) ELSE {}) \cup
  (IF "enum" \in Features THEN GenEnum(s) ELSE {}) \cup
  (IF "tag" \in Features THEN GenTag(s) ELSE {}) \cup
  (IF "url" \in Features THEN GenUrl(s) ELSE {}) \cup
  (IF "method" \in Features THEN GenTopMethod(s) ELSE {}) \cup
  (IF "rpc" \in Features THEN GenRpc(s) ELSE {})

-----------------------------------------------------------------------------
(* Projections of a document                                               *)

Blocks(d, t) == SelectSeq(d, LAMBDA b : b.t = t)
Names(d, t) == [i \in 1..Len(Blocks(d, t)) |-> Blocks(d, t)[i].name]
NoDup(s) == \A i, j \in 1..Len(s) : s[i] = s[j] => i = j

TypeTable(d) == [n \in Range(Names(d, "type")) |->
                   (CHOOSE b \in Range(Blocks(d, "type")) : b.name = n).body]
DefinedTypes(d) == Range(Names(d, "type"))
DefinedEnums(d) == Range(Names(d, "enum"))
DefinedTags(d)  == Range(Names(d, "tag"))

\* the flat list of interactions in source order
\* [proto, verb, path, m (method record), urltags, block index]
RECURSIVE MethodsOf(_, _)
HttpEntry(m, p, ut, bi) == [proto |-> "http", name |-> m.verb, path |-> p, m |-> m, urltags |-> ut, bi |-> bi]
RpcEntry(m, p, ut, bi)  == [proto |-> "json-rpc-2.0", name |-> m.name, path |-> p, m |-> m, urltags |-> ut, bi |-> bi]
MethodsOf(d, i) ==
  IF i > Len(d) THEN << >>
  ELSE (CASE d[i].t = "url"    -> [j \in 1..Len(d[i].methods) |-> HttpEntry(d[i].methods[j], d[i].path, d[i].tags, i)]
          [] d[i].t = "method" -> << HttpEntry(d[i].m, d[i].m.path, << >>, i) >>
          [] d[i].t = "rpc"    -> [j \in 1..Len(d[i].methods) |-> RpcEntry(d[i].methods[j], d[i].path, d[i].tags, i)]
          [] OTHER             -> << >>) \o MethodsOf(d, i + 1)
Inters(d) == MethodsOf(d, 1)

IdOf(e) == e.proto \o " " \o e.name \o " " \o PathStr(e.path)

-----------------------------------------------------------------------------
(* Well-formedness (what the language requires of a document)              *)

BodyRefs(b) == (IF b.k \in {"ref", "arr"} THEN {b.n} ELSE {})
               \cup (IF \E j \in 1..Len(b.props) : b.props[j].vk = "or" THEN {"@a", "@b"} ELSE {})
               \cup {b.props[i].vn : i \in {j \in 1..Len(b.props) : b.props[j].vk \in {"ref", "arr", "nobj", "skey"}}}
               \cup Range(b.allOf)
BodyEnums(b) == {b.props[i].vn : i \in {j \in 1..Len(b.props) : b.props[j].vk = "enum"}}

SpecsOfHttp(m) == (IF m.req.form = "none" THEN {} ELSE {m.req.b}) \cup {m.resps[i].spec.b : i \in 1..Len(m.resps)}
                  \cup (IF m.query = "allof" THEN {QueryBodyOf(m.query)} ELSE {})
BodiesOf(e) == IF e.proto = "http" THEN SpecsOfHttp(e.m)
               ELSE {x \in {e.m.params, e.m.result} : x.k # "none"}

AllBodies(d) == {b.body : b \in Range(Blocks(d, "type"))} \cup UNION {BodiesOf(Inters(d)[i]) : i \in 1..Len(Inters(d))}

\* type reference graph must be acyclic: every type's transitive references exclude itself
RECURSIVE Reach(_, _, _)
Reach(tt, frontier, seen) ==
  IF frontier = {} THEN seen
  ELSE LET n == CHOOSE x \in frontier : TRUE
           nx == IF n \in DOMAIN tt THEN BodyRefs(tt[n]) ELSE {}
       IN Reach(tt, (frontier \cup nx) \ (seen \cup {n}), seen \cup {n})
Acyclic(d) == \A n \in DefinedTypes(d) : n \notin Reach(TypeTable(d), BodyRefs(TypeTable(d)[n]), {})

\* allOf: every base is an object type; no key of the type equals an inherited key; no key is
\* inherited twice (that is the diamond case, left to C12)
RECURSIVE AllKeys(_, _)
AllKeys(tt, b) ==   \* own and inherited keys, in catalog order
  LET RECURSIVE Bases(_)
      Bases(i) == IF i > Len(b.allOf) THEN << >>
                  ELSE (IF b.allOf[i] \in DOMAIN tt THEN AllKeys(tt, tt[b.allOf[i]]) ELSE << >>) \o Bases(i + 1)
  IN Bases(1) \o [i \in 1..Len(b.props) |-> b.props[i].key]
AllOfOK(d, b) ==
  /\ \A i \in 1..Len(b.allOf) : b.allOf[i] \in DefinedTypes(d) /\ TypeTable(d)[b.allOf[i]].k = "obj"
  /\ \A i \in 1..Len(b.props) : b.props[i].vk = "nobj" =>
        (b.props[i].vn \in DefinedTypes(d) /\ TypeTable(d)[b.props[i].vn].k = "obj")
  /\ NoDup(AllKeys(TypeTable(d), b))

\* similar paths: the same prefix may not continue with two different parameter names
AllPaths(d) == {Inters(d)[i].path : i \in 1..Len(Inters(d))} \cup {b.path : b \in Range(Blocks(d, "url"))}
SimilarOK(d) ==
  \A p1, p2 \in AllPaths(d) : \A i \in 1..Len(p1) :
     (i <= Len(p2) /\ SubSeq(p1, 1, i - 1) = SubSeq(p2, 1, i - 1) /\ IsParam(p1[i]) /\ IsParam(p2[i])) => p1[i] = p2[i]
ParamsDistinct(p) == NoDup(ParamsOf(p))

HeadersOK(d, m) == TRUE   \* the generator only writes object headers

HttpOK(d, e) ==
  LET m == e.m IN
  /\ \A i \in 1..Len(m.tags) : m.tags[i] \in DefinedTags(d)
  /\ \A i \in 1..Len(e.urltags) : e.urltags[i] \in DefinedTags(d)
  /\ ParamsDistinct(e.path)

\* declared path parameters: prefix string -> declared, from Path directives of URL blocks and methods
PrefixKey(p, i) == PathStr(SubSeq(p, 1, i))
KeysDeclaredBy(path, decl) ==
  {PrefixKey(path, i) : i \in {j \in 1..Len(path) : IsParam(path[j]) /\ ParamName(path[j]) \in Range(decl)}}
HttpInters(d) == SelectSeq(Inters(d), LAMBDA e : e.proto = "http")
DeclaredKeys(d) ==
  UNION {KeysDeclaredBy(b.path, b.pathdecl) : b \in Range(Blocks(d, "url"))}
  \cup UNION {KeysDeclaredBy(e.path, e.m.pathdecl) : e \in Range(HttpInters(d))}
DeclKeySeq(d) ==   \* every (declaration, parameter) pair as a prefix key; duplicates = declared twice
  LET RECURSIVE F(_)
      F(i) == IF i > Len(Blocks(d, "url")) THEN << >>
              ELSE LET b == Blocks(d, "url")[i]
                       idx == SelectSeq([j \in 1..Len(b.path) |-> j],
                                        LAMBDA j : IsParam(b.path[j]) /\ ParamName(b.path[j]) \in Range(b.pathdecl))
                   IN [k \in 1..Len(idx) |-> PrefixKey(b.path, idx[k])] \o F(i + 1)
      RECURSIVE G(_)
      G(i) == IF i > Len(HttpInters(d)) THEN << >>
              ELSE LET e == HttpInters(d)[i]
                       idx == SelectSeq([j \in 1..Len(e.path) |-> j],
                                        LAMBDA j : IsParam(e.path[j]) /\ ParamName(e.path[j]) \in Range(e.m.pathdecl))
                   IN [k \in 1..Len(idx) |-> PrefixKey(e.path, idx[k])] \o G(i + 1)
  IN F(1) \o G(1)

Valid(d) ==
  /\ Len(Blocks(d, "info")) <= 1
  /\ \A b \in Range(Blocks(d, "info")) : b.title # "" \/ b.version # "" \/ b.desc # ""
  /\ NoDup(Names(d, "server")) /\ NoDup(Names(d, "type")) /\ NoDup(Names(d, "enum")) /\ NoDup(Names(d, "tag"))
  \* the Tags of a URL block are checked with the block itself, whether or not a method falls back to them
  \* (finding F-20, repaired: before, a list that no method consulted was never looked at)
  /\ \A i \in 1..Len(Blocks(d, "url")) : \A j \in 1..Len(Blocks(d, "url")[i].tags) :
        Blocks(d, "url")[i].tags[j] \in DefinedTags(d)
  /\ \A b \in AllBodies(d) : BodyRefs(b) \subseteq DefinedTypes(d) /\ BodyEnums(b) \subseteq DefinedEnums(d)
  \* only types written in the jsight or regex notation can be referred to from a schema
  /\ \A b \in AllBodies(d) : \A n \in BodyRefs(b) : TypeTable(d)[n].k \notin {"any", "empty"}
  /\ Acyclic(d)
  /\ \A b \in AllBodies(d) : AllOfOK(d, b)
  /\ NoDup([i \in 1..Len(Inters(d)) |-> IdOf(Inters(d)[i])])
  /\ NoDup([i \in 1..Len(Blocks(d, "url") \o Blocks(d, "rpc")) |-> (Blocks(d, "url") \o Blocks(d, "rpc"))[i].path])
  /\ SimilarOK(d)
  /\ \A i \in 1..Len(Inters(d)) : HttpOK(d, Inters(d)[i])
  /\ NoDup(DeclKeySeq(d))          \* a path parameter is declared at most once per prefix

-----------------------------------------------------------------------------
(* The catalog a valid document denotes                                    *)

\* kids: for a nested object, its own children as <<key, inheritedFrom>> pairs
\* rules: the rules written for the property, as <<key, value>> pairs in source order
Child(key, tt, ty, sc, inh) == [key |-> key, tt |-> tt, type |-> ty, scalar |-> sc, inh |-> inh, kids |-> << >>,
                                optional |-> FALSE, note |-> "", rules |-> << >>]
PropView(p, inh) ==
  CASE p.vk = "int"  -> Child(p.key, "number", "integer", "1", inh)
    [] p.vk = "str"  -> Child(p.key, "string", "string", "v", inh)
    [] p.vk = "ref"  -> Child(p.key, "reference", p.vn, p.vn, inh)
    [] p.vk = "arr"  -> Child(p.key, "array", "array", p.vn, inh)      \* scalar = item type
    [] p.vk = "enum" -> [Child(p.key, "string", "enum", "x", inh) EXCEPT !.rules = << <<"enum", p.vn>> >>]
    [] p.vk = "or"   -> Child(p.key, "reference", "mixed", "@a | @b", inh)
    [] p.vk = "minmax" -> [Child(p.key, "number", "integer", "3", inh) EXCEPT !.rules = << <<"min", "1">>, <<"max", "9">> >>]
    [] p.vk = "null" -> Child(p.key, "null", "null", "null", inh)
    [] p.vk = "ints" -> Child(p.key, "array", "array", "integer", inh)
    [] p.vk = "skey" -> Child(p.key, "number", "integer", "1", inh)
    [] p.vk = "opt"  -> [Child(p.key, "number", "integer", "1", inh) EXCEPT !.optional = TRUE, !.rules = << <<"optional", "true">> >>]
    [] p.vk = "note" -> [Child(p.key, "string", "string", "v", inh) EXCEPT !.note = "a note"]

\* children of an object body: for every base, in the order named, all its children (own and
\* inherited) marked with that base; then the own properties
RECURSIVE ChildrenOf(_, _)
ChildrenOf(tt, b) ==
  LET RECURSIVE FromBases(_)
      FromBases(i) ==
        IF i > Len(b.allOf) THEN << >>
        ELSE LET base == ChildrenOf(tt, tt[b.allOf[i]])
             IN [j \in 1..Len(base) |-> [base[j] EXCEPT !.inh = b.allOf[i]]] \o FromBases(i + 1)
      Own(p) == IF p.vk # "nobj" THEN PropView(p, "")
                ELSE LET base == ChildrenOf(tt, tt[p.vn])
                     IN [Child(p.key, "object", "object", "", "") EXCEPT
                           !.kids = [j \in 1..Len(base) |-> <<base[j].key, p.vn>>] \o << <<"nk", "">> >>,
                           !.rules = << <<"allOf", p.vn>> >>]
  IN FromBases(1) \o [i \in 1..Len(b.props) |-> Own(b.props[i])]

SV(notation, tt, ty, sc, children) ==
  [notation |-> notation, tt |-> tt, type |-> ty, scalar |-> sc, children |-> children, rules |-> << >>]
RECURSIVE JoinComma(_)
JoinComma(q) == IF q = << >> THEN "" ELSE IF Len(q) = 1 THEN q[1] ELSE q[1] \o "," \o JoinComma(Tail(q))
SchemaView(tt, b) ==
  CASE b.k = "obj"   -> [SV("jsight", "object", "object", "", ChildrenOf(tt, b)) EXCEPT
                            !.rules = IF b.allOf = << >> THEN << >> ELSE << <<"allOf", JoinComma(b.allOf)>> >>]
    [] b.k = "ref"   -> SV("jsight", "reference", b.n, b.n, << >>)
    [] b.k = "arr"   -> SV("jsight", "array", "array", b.n, << >>)
    [] b.k = "int"   -> SV("jsight", "number", "integer", "1", << >>)
    [] b.k = "str"   -> SV("jsight", "string", "string", "v", << >>)
    [] b.k = "regex" -> SV("regex", "", "", "ab+", << >>)
    [] b.k = "any"   -> SV("any", "", "", "", << >>)
    [] b.k = "empty" -> SV("empty", "", "", "", << >>)

FormatOf(b) == CASE b.k \in {"regex"} -> "plainString" [] b.k \in {"any", "empty"} -> "binary" [] OTHER -> "json"

FirstSeg(p) == IF p = << >> THEN "" ELSE p[1]
\* tag name of a first segment: characters outside [A-Za-z0-9] are written _XX (catalog/tag.go; the full rule is
\* JSightText!TagNF, checked on the function table of C19) - here only the generator's segments are needed
TagSeg(seg) == CASE seg = "{x}" -> "_7Bx_7D" [] seg = "{y}" -> "_7By_7D" [] seg = "{z}" -> "_7Bz_7D" [] OTHER -> seg
AutoTag(e)  == "@" \o TagSeg(FirstSeg(e.path))
TagsOfEntry(e) == IF e.m.tags # << >> THEN e.m.tags
                  ELSE IF e.urltags # << >> THEN e.urltags
                  ELSE << AutoTag(e) >>

PathVars(d, e) ==
  LET idx == SelectSeq([i \in 1..Len(e.path) |-> i], LAMBDA i : IsParam(e.path[i]) /\ PrefixKey(e.path, i) \in DeclaredKeys(d))
  IN [j \in 1..Len(idx) |-> ParamName(e.path[idx[j]])]

RespView(tt, r) ==
  [code |-> r.code, annot |-> r.annot, format |-> FormatOf(r.spec.b), schema |-> SchemaView(tt, r.spec.b),
   headers |-> IF r.headers THEN << SchemaView(tt, HeaderBody) >> ELSE << >>]

InterView(d, e) ==
  LET tt == TypeTable(d) IN
  IF e.proto = "http" THEN
    [id |-> IdOf(e), proto |-> "http", method |-> e.m.verb, path |-> PathStr(e.path),
     annot |-> e.m.annot, desc |-> e.m.desc, tags |-> TagsOfEntry(e),
     query |-> IF e.m.query = "" THEN << >>
               ELSE << [format |-> IF e.m.query = "noformat" THEN "noFormat" ELSE "htmlFormEncoded",
                        example |-> IF e.m.query = "example" THEN "q1=1" ELSE "",
                        schema |-> SchemaView(tt, QueryBodyOf(e.m.query))] >>,
     request |-> IF e.m.req.form = "none" THEN << >>
                 ELSE << [format |-> FormatOf(e.m.req.b), schema |-> SchemaView(tt, e.m.req.b),
                          headers |-> IF e.m.reqHeaders THEN << SchemaView(tt, HeaderBody) >> ELSE << >>] >>,
     responses |-> [i \in 1..Len(e.m.resps) |-> RespView(tt, e.m.resps[i])],
     pathvars |-> PathVars(d, e), params |-> << >>, result |-> << >>]
  ELSE
    [id |-> IdOf(e), proto |-> "json-rpc-2.0", method |-> e.m.name, path |-> PathStr(e.path),
     annot |-> e.m.annot, desc |-> e.m.desc, tags |-> TagsOfEntry(e),
     query |-> << >>, request |-> << >>, responses |-> << >>, pathvars |-> << >>,
     params |-> IF e.m.params.k = "none" THEN << >> ELSE << SchemaView(tt, e.m.params) >>,
     result |-> IF e.m.result.k = "none" THEN << >> ELSE << SchemaView(tt, e.m.result) >>]

\* tags: the declared ones in source order, then the automatic ones in order of first use
RECURSIVE AutoSegs(_, _, _)
AutoSegs(es, i, acc) ==      \* first segments that give rise to an automatic tag, in order of first use
  IF i > Len(es) THEN acc
  ELSE LET new == IF es[i].m.tags = << >> /\ es[i].urltags = << >> /\ ~Contains(acc, FirstSeg(es[i].path))
                  THEN << FirstSeg(es[i].path) >> ELSE << >>
       IN AutoSegs(es, i + 1, acc \o new)

TagView(d, name, title, desc) ==
  LET es == Inters(d)
      mine(proto) == SelectSeq(es, LAMBDA e : e.proto = proto /\ Contains(TagsOfEntry(e), name))
  IN [name |-> name, title |-> title, desc |-> desc,
      http |-> [i \in 1..Len(mine("http")) |-> IdOf(mine("http")[i])],
      rpc  |-> [i \in 1..Len(mine("json-rpc-2.0")) |-> IdOf(mine("json-rpc-2.0")[i])]]

Catalog(d) ==
  LET tt    == TypeTable(d)
      tags  == Blocks(d, "tag")
      autos == AutoSegs(Inters(d), 1, << >>)
      es    == Inters(d)
  IN [ info    |-> [i \in 1..Len(Blocks(d, "info")) |->
                      [title |-> Blocks(d, "info")[i].title, version |-> Blocks(d, "info")[i].version,
                       desc |-> Blocks(d, "info")[i].desc]],
       servers |-> [i \in 1..Len(Blocks(d, "server")) |->
                      [name |-> Blocks(d, "server")[i].name, annot |-> Blocks(d, "server")[i].annot,
                       base |-> Blocks(d, "server")[i].base]],
       types   |-> [i \in 1..Len(Blocks(d, "type")) |->
                      [name |-> Blocks(d, "type")[i].name, annot |-> Blocks(d, "type")[i].annot,
                       schema |-> SchemaView(tt, Blocks(d, "type")[i].body)]],
       enums   |-> [i \in 1..Len(Blocks(d, "enum")) |->
                      [name |-> Blocks(d, "enum")[i].name, annot |-> Blocks(d, "enum")[i].annot, values |-> <<"x", "y">>]],
       tags    |-> [i \in 1..Len(tags) |->
                      TagView(d, tags[i].name, IF tags[i].annot = "" THEN tags[i].name ELSE tags[i].annot, tags[i].desc)]
                   \o [i \in 1..Len(autos) |-> TagView(d, "@" \o TagSeg(autos[i]), "/" \o autos[i], "")],
       interactions |-> [i \in 1..Len(es) |-> InterView(d, es[i])] ]

-----------------------------------------------------------------------------
(* Generator                                                               *)

Init == doc = << >> /\ phase = "gen"

\* cheap syntactic guard that keeps the random generator productive: no second block with a name
\* already taken, no second INFO
Compatible(d, b) ==
  CASE b.t = "info" -> Len(Blocks(d, "info")) = 0
    [] b.t \in {"server", "type", "enum", "tag"} -> b.name \notin Range(Names(d, b.t))
    [] OTHER -> TRUE

\* completion: append a declaration for every name that is used but not declared
MissingTypes(d) == (UNION {BodyRefs(b) : b \in AllBodies(d)}) \ DefinedTypes(d)
MissingEnums(d) == (UNION {BodyEnums(b) : b \in AllBodies(d)}) \ DefinedEnums(d)
UsedTags(d) == UNION {Range(Inters(d)[i].m.tags) \cup Range(Inters(d)[i].urltags) : i \in 1..Len(Inters(d))}
MissingTags(d)  == UsedTags(d) \ DefinedTags(d)
RECURSIVE Complete(_)
Complete(d) ==
  IF MissingTypes(d) # {} THEN
       LET n == CHOOSE x \in MissingTypes(d) : TRUE
       IN Complete(Append(d, [t |-> "type", name |-> n, annot |-> "",
                              body |-> IF n = "@kt" THEN Body("str", "", << >>, << >>)      \* a key type is a string type
                                       ELSE Body("obj", "", << P("f" \o n, "int", "") >>, << >>)]))
  ELSE IF MissingEnums(d) # {} THEN
       LET n == CHOOSE x \in MissingEnums(d) : TRUE
       IN Complete(Append(d, [t |-> "enum", name |-> n, annot |-> ""]))
  ELSE IF MissingTags(d) # {} THEN
       LET n == CHOOSE x \in MissingTags(d) : TRUE
       IN Complete(Append(d, [t |-> "tag", name |-> n, annot |-> "", desc |-> ""]))
  ELSE d

AddBlock == /\ phase = "gen" /\ Len(doc) < MaxBlocks
            /\ \E b \in GenBlock(doc) : Compatible(doc, b) /\ doc' = Append(doc, b)
            /\ phase' = "gen"
Finish   == /\ phase = "gen" /\ Len(doc) >= 1
            /\ (Exhaustive \/ Len(doc) = MaxBlocks \/ RandomElement(1..4) = 1)
            /\ phase' = "done" /\ doc' = Complete(doc)

Next == AddBlock \/ Finish
Spec == Init /\ [][Next]_vars

-----------------------------------------------------------------------------
(* Which directive kinds the canonical rendering of a document uses (C18)  *)

SpecKinds(kw, sp, hdr) ==
  {kw} \cup (IF sp.form = "child" THEN {"Body"} ELSE {}) \cup (IF hdr THEN {"Headers"} ELSE {})
MethodKinds(m) ==
  {m.verb} \cup (IF m.desc # "" THEN {"Description"} ELSE {}) \cup (IF m.tags # << >> THEN {"Tags"} ELSE {})
  \cup (IF m.query # "" THEN {"Query"} ELSE {}) \cup (IF m.pathdecl # << >> THEN {"Path"} ELSE {})
  \cup (IF m.req.form # "none" THEN SpecKinds("Request", m.req, m.reqHeaders) ELSE {})
  \cup UNION {SpecKinds("HTTP-response-code", m.resps[i].spec, m.resps[i].headers) : i \in 1..Len(m.resps)}
RpcKinds(m) ==
  {"Method"} \cup (IF m.desc # "" THEN {"Description"} ELSE {}) \cup (IF m.tags # << >> THEN {"Tags"} ELSE {})
  \cup (IF m.params.k # "none" THEN {"Params"} ELSE {}) \cup (IF m.result.k # "none" THEN {"Result"} ELSE {})
BlockKinds(b) ==
  CASE b.t = "info"   -> {"INFO"} \cup (IF b.title # "" THEN {"Title"} ELSE {}) \cup (IF b.version # "" THEN {"Version"} ELSE {})
                         \cup (IF b.desc # "" THEN {"Description"} ELSE {})
    [] b.t = "server" -> {"SERVER", "BaseUrl"}
    [] b.t = "type"   -> {"TYPE"}
    [] b.t = "enum"   -> {"ENUM"}
    [] b.t = "tag"    -> {"TAG"} \cup (IF b.desc # "" THEN {"Description"} ELSE {})
    [] b.t = "url"    -> {"URL"} \cup (IF b.tags # << >> THEN {"Tags"} ELSE {}) \cup (IF b.pathdecl # << >> THEN {"Path"} ELSE {})
                         \cup UNION {MethodKinds(b.methods[i]) : i \in 1..Len(b.methods)}
    [] b.t = "method" -> MethodKinds(b.m)
    [] b.t = "rpc"    -> {"URL", "Protocol"} \cup UNION {RpcKinds(b.methods[i]) : i \in 1..Len(b.methods)}
KindsOf(d) == {"JSIGHT"} \cup UNION {BlockKinds(d[i]) : i \in 1..Len(d)}
\* first block (0 = the JSIGHT line) that uses a kind of B
FirstBanned(d, B) ==
  IF "JSIGHT" \in B THEN 0
  ELSE LET hit == {i \in 1..Len(d) : BlockKinds(d[i]) \cap B # {}}
       IN IF hit = {} THEN -1 ELSE CHOOSE i \in hit : \A j \in hit : i <= j

AllKinds == {"JSIGHT", "INFO", "Title", "Version", "Description", "SERVER", "BaseUrl", "URL", "GET", "POST", "PUT",
             "PATCH", "DELETE", "Body", "Request", "HTTP-response-code", "Path", "Headers", "Query", "TYPE", "ENUM",
             "MACRO", "PASTE", "INCLUDE", "Protocol", "Method", "Params", "Result", "TAG", "Tags"}

-----------------------------------------------------------------------------
(* Independence of a block (C20): removing it leaves a valid document and  *)
(* nothing else refers to what it declares or shares its automatic tag     *)

RemoveAt2(d, i) == SubSeq(d, 1, i - 1) \o SubSeq(d, i + 1, Len(d))
BlockInters(d, i) == SelectSeq(Inters(d), LAMBDA e : e.bi = i)
OtherInters(d, i) == SelectSeq(Inters(d), LAMBDA e : e.bi # i)
Independent(d, i) ==
  /\ Valid(RemoveAt2(d, i))
  /\ d[i].t \in {"url", "method", "rpc"} =>
        \* its interactions do not share an automatic tag or a path prefix with the others
        /\ \A e \in Range(BlockInters(d, i)) : \A o \in Range(OtherInters(d, i)) : FirstSeg(e.path) # FirstSeg(o.path)
        /\ d[i].t = "url" => d[i].pathdecl = << >>
        \* and carry no explicit tags (a declared tag's entry lists its interactions)
        /\ \A e \in Range(BlockInters(d, i)) : e.m.tags = << >> /\ e.urltags = << >>

\* the catalog keys an entry list contributes
CatKeys(c) ==
  {<<"servers", c.servers[i].name>> : i \in 1..Len(c.servers)}
  \cup {<<"userTypes", c.types[i].name>> : i \in 1..Len(c.types)}
  \cup {<<"userEnums", c.enums[i].name>> : i \in 1..Len(c.enums)}
  \cup {<<"tags", c.tags[i].name>> : i \in 1..Len(c.tags)}
  \cup {<<"interactions", c.interactions[i].id>> : i \in 1..Len(c.interactions)}

\* every block of these kinds may be removed from a valid document if it is independent
Removable(d) == {i \in 1..Len(d) : d[i].t \in {"server", "type", "enum", "tag", "url", "method", "rpc"} /\ Independent(d, i)}

-----------------------------------------------------------------------------
(* Faults (C11): the applicable single-fault injections of a valid document *)

NamedKinds == {"server", "type", "enum", "tag"}
SingletonChildren(b) ==
  CASE b.t = "info" -> (IF b.title # "" THEN {"Title"} ELSE {}) \cup (IF b.version # "" THEN {"Version"} ELSE {})
                       \cup (IF b.desc # "" THEN {"Description"} ELSE {})
    [] b.t = "tag"  -> (IF b.desc # "" THEN {"Description"} ELSE {})
    [] b.t = "server" -> {"BaseUrl"}
    [] b.t = "url"  -> (IF b.pathdecl # << >> THEN {"Path"} ELSE {})
    [] b.t = "rpc"  -> {"Protocol"}
    [] b.t = "method" -> (IF b.m.desc # "" THEN {"Description"} ELSE {}) \cup (IF b.m.query # "" THEN {"Query"} ELSE {})
                         \cup (IF b.m.req.form = "child" THEN {"ReqBody"} ELSE {})
                         \cup (IF b.m.reqHeaders /\ b.m.req.form # "none" THEN {"ReqHeaders"} ELSE {})
                         \cup (IF \E k \in 1..Len(b.m.resps) : b.m.resps[k].spec.form = "child" THEN {"RespBody"} ELSE {})
                         \cup (IF \E k \in 1..Len(b.m.resps) : b.m.resps[k].headers THEN {"RespHeaders"} ELSE {})
    [] OTHER -> {}
ReferencedTypes(d) == UNION {BodyRefs(b) : b \in AllBodies(d)}
ReferencedEnums(d) == UNION {BodyEnums(b) : b \in AllBodies(d)}
Fault(f, i, x) == [f |-> f, i |-> i, x |-> x]
FaultChoices(d) ==
  {Fault("dup_name", i, "") : i \in {j \in 1..Len(d) : d[j].t \in NamedKinds}}
  \cup {Fault("dup_method", i, "") : i \in {j \in 1..Len(d) : d[j].t \in {"url", "method", "rpc"}}}
  \cup {Fault("dup_url", i, "") : i \in {j \in 1..Len(d) : d[j].t \in {"url", "rpc"}}}
  \cup {Fault("similar_path", i, "") : i \in {j \in 1..Len(d) : d[j].t \in {"url", "rpc"} /\ ParamsOf(d[j].path) # << >>}}
  \cup UNION {{Fault("dup_child", i, c) : c \in SingletonChildren(d[i])} : i \in 1..Len(d)}
  \cup {Fault("missing_param", i, "") : i \in {j \in 1..Len(d) : d[j].t \in NamedKinds \cup {"url", "rpc"}}}
  \cup {Fault("undefined", i, "") : i \in {j \in 1..Len(d) :
            \/ d[j].t = "type" /\ d[j].name \in ReferencedTypes(d)
            \/ d[j].t = "enum" /\ d[j].name \in ReferencedEnums(d)
            \/ d[j].t = "tag"  /\ d[j].name \in UsedTags(d)}}
  \cup {Fault("undefined_new", 0, x) : x \in {"type", "enum", "tag", "paste"}}
  \cup (IF Len(Blocks(d, "info")) = 1 THEN {Fault("second_info", 0, "")} ELSE {})

\* blocks at which a diagnostic for the fault may legitimately be located
RefersTo(d, j, b) ==
  LET bodies == IF d[j].t = "type" THEN {d[j].body}
                ELSE UNION {BodiesOf(e) : e \in Range(BlockInters(d, j))}
      tags   == UNION {Range(e.m.tags) \cup Range(e.urltags) : e \in Range(BlockInters(d, j))}
  IN CASE b.t = "type" -> \E x \in bodies : b.name \in BodyRefs(x)
       [] b.t = "enum" -> \E x \in bodies : b.name \in BodyEnums(x)
       [] b.t = "tag"  -> b.name \in tags
       [] OTHER -> FALSE
FaultSites(d, f) ==
  CASE f.f = "undefined" -> {j \in 1..Len(d) : j # f.i /\ RefersTo(d, j, d[f.i])}
    [] f.f = "undefined_new" -> {Len(d) + 1}
    [] f.f = "second_info" -> {Len(d) + 1} \cup {j \in 1..Len(d) : d[j].t = "info"}
    \* a declaration that lost its name leaves the references to that name dangling
    [] f.f = "missing_param" -> {f.i} \cup {j \in 1..Len(d) : j # f.i /\ RefersTo(d, j, d[f.i])}
    [] f.f \in {"dup_name", "dup_url", "similar_path"} -> {f.i, Len(d) + 1}
    [] OTHER -> {f.i}

\* fresh, independent declarations of every kind (names and paths outside the generator's alphabets)
FreshBlocks ==
  { [t |-> "server", name |-> "@zs", annot |-> "fresh", base |-> "http://fresh"],
    [t |-> "type", name |-> "@zt", annot |-> "", body |-> Body("obj", "", << P("zk", "str", "") >>, << >>)],
    [t |-> "type", name |-> "@zr", annot |-> "fresh", body |-> Body("regex", "", << >>, << >>)],
    [t |-> "enum", name |-> "@ze", annot |-> ""],
    [t |-> "tag", name |-> "@zg", annot |-> "Fresh tag", desc |-> ""],
    [t |-> "macro", name |-> "@zm", items |-> << [t |-> "type", name |-> "@zin", annot |-> "", body |-> Body("int", "", << >>, << >>)] >>],
    [t |-> "macro", name |-> "@zn", items |-> << [t |-> "enum", name |-> "@zen", annot |-> ""] >>],
    [t |-> "method", m |-> Meth("GET", <<"zz", "{zp}">>, "", "fresh", << >>, "", NoSpec, FALSE,
                                 << Resp("200", "", BodySpec("param", Body("any", "", << >>, << >>)), FALSE) >>, << >>)],
    [t |-> "url", path |-> <<"zu">>, tags |-> << >>, pathdecl |-> << >>,
     methods |-> << Meth("POST", << >>, "note", "", << >>, "", BodySpec("inline", Body("str", "", << >>, << >>)), FALSE,
                         << Resp("201", "", BodySpec("child", Body("int", "", << >>, << >>)), TRUE) >>, << >>) >>],
    [t |-> "rpc", path |-> <<"zrpc">>, tags |-> << >>,
     methods |-> << RpcMeth("zmeth", "", "", << >>, Body("obj", "", << P("zk", "int", "") >>, << >>), NoBody) >>] }
InsertAt2(d, pos, b) == SubSeq(d, 1, pos) \o << b >> \o SubSeq(d, pos + 1, Len(d))

\* random transformation parameters for the relational checks, chosen by TLC
Tx(d) ==
  LET n    == Len(d)
      from == RandomElement(1..n)
      to   == RandomElement(from..n)
      B    == RandomElement({{k} : k \in AllKinds} \cup {{RandomElement(AllKinds), RandomElement(AllKinds)}}
                            \cup {{RandomElement(AllKinds), RandomElement(AllKinds), RandomElement(AllKinds), RandomElement(AllKinds)}})
      fc   == FaultChoices(d)
      f    == RandomElement(fc)
      f2   == RandomElement(fc)        \* a second, independently chosen fault (pairs of faults, C11 / C02)
  IN [ range |-> [from |-> from, to |-> to, defat |-> RandomElement(0..n)],
       ban |-> B, banned_at |-> FirstBanned(d, B \ {"MACRO", "PASTE", "INCLUDE"}), kinds |-> KindsOf(d),
       adds |-> {LET pos == RandomElement(0..n) IN
                   [b |-> b, pos |-> pos, keys |-> CatKeys(Catalog(InsertAt2(d, pos, b))) \ CatKeys(Catalog(d))]
                 : b \in FreshBlocks},
       removable |-> {[i |-> i, keys |-> CatKeys(Catalog(d)) \ CatKeys(Catalog(RemoveAt2(d, i)))] : i \in Removable(d)},
       fault |-> f, fault_sites |-> FaultSites(d, f),
       fault2 |-> f2, fault2_sites |-> FaultSites(d, f2) ]

\* exhaustive configs: only complete graphs (MaxBlocks blocks) are emitted
Emit == (phase = "done" /\ ("graph" \in Features => (Len(doc) >= MaxBlocks /\ Valid(doc)))) =>
          PrintT("MBT " \o ToJson([doc |-> doc, valid |-> Valid(doc),
                                   cat |-> IF Valid(doc) THEN << Catalog(doc) >> ELSE << >>,
                                   tx  |-> IF Valid(doc) THEN << Tx(doc) >> ELSE << >>]))
=============================================================================
