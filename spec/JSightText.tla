----------------------------- MODULE JSightText -----------------------------
(***************************************************************************)
(* The pure text functions of the library, judged on their own tables.     *)
(*                                                                         *)
(* For each function the harness evaluates the REAL function (exported     *)
(* under the verif tag) on every string over a small alphabet up to a      *)
(* length bound and hands the table back as text_table.ndjson.  TLC first  *)
(* checks that the table is complete (every string of the stated set, once)*)
(* and then evaluates the relation the property states on the              *)
(* implementation's own table.  A row that breaks the relation is printed  *)
(* ("MBT ..."), it is a behaviour of the real code.                        *)
(*                                                                         *)
(* Strings are sequences of one-character strings; "\n" LF, "\r" CR,       *)
(* "\t" TAB, backslash, double quote: <LF> <CR> <TAB> <BS> <Q> in the     *)
(* table to keep JSON and cfg files plain.                                 *)
(***************************************************************************)
EXTENDS Naturals, Integers, Sequences, FiniteSets, TLC, Json, SequencesExt

CONSTANTS Fn,        \* which function the table is about
          Alphabet,  \* set of characters
          MaxLen     \* strings up to this length

Table == ndJsonDeserialize("text_table.ndjson")
\* row: [in |-> Seq(char), out |-> Seq(char), err |-> BOOLEAN, panic |-> BOOLEAN, out2, alt, idx, line, ...]

VARIABLE l
Init == l = 1
Next == l <= Len(Table) /\ l' = l + 1
Spec == Init /\ [][Next]_l

RECURSIVE Pow(_, _)
Pow(a, n) == IF n = 0 THEN 1 ELSE a * Pow(a, n - 1)
RECURSIVE SumPow(_, _)
SumPow(a, n) == IF n < 0 THEN 0 ELSE Pow(a, n) + SumPow(a, n - 1)

InputsOK(minlen) ==
  /\ \A i \in 1..Len(Table) : Len(Table[i].in) <= MaxLen /\ \A j \in 1..Len(Table[i].in) : Table[i].in[j] \in Alphabet
  /\ Cardinality({Table[i].in : i \in 1..Len(Table)}) = SumPow(Cardinality(Alphabet), MaxLen) - SumPow(Cardinality(Alphabet), minlen - 1)
  /\ Len(Table) = SumPow(Cardinality(Alphabet), MaxLen) - SumPow(Cardinality(Alphabet), minlen - 1)

Report(i, why) == PrintT("MBT " \o ToJson([row |-> i, why |-> why]))
Row == Table[l]
NoPanic == (l <= Len(Table) /\ Row.panic) => Report(l, "panic")

-----------------------------------------------------------------------------
(* Generic helpers                                                         *)

RECURSIVE SplitOn(_, _)
SplitOn(s, c) ==       \* components between occurrences of character c
  LET idx == {i \in 1..Len(s) : s[i] = c} IN
  IF idx = {} THEN << s >>
  ELSE LET i == CHOOSE x \in idx : \A y \in idx : x <= y
       IN << SubSeq(s, 1, i - 1) >> \o SplitOn(SubSeq(s, i + 1, Len(s)), c)

IsWs(c) == c \in {" ", "<TAB>"}
IsNl(c) == c \in {"<LF>", "<CR>"}
AllWs(s) == \A i \in 1..Len(s) : IsWs(s[i])

-----------------------------------------------------------------------------
(* C08: include file names.  Unsafe = what the property says must be       *)
(* rejected; the implementation may reject more, never less.               *)

Unsafe(s) ==
  \/ s # << >> /\ s[1] = "/"
  \/ \E i \in 1..Len(s) : s[i] = "<BS>"
  \/ /\ s \notin {<<".">>, <<".", ".">>}     \* a name that is only "." or ".." is a directory: rejected end to end
     /\ \E k \in 1..Len(SplitOn(s, "/")) : SplitOn(s, "/")[k] \in {<<".">>, <<".", ".">>}

IncNameJudge == (l <= Len(Table) /\ ~Row.panic /\ ~Row.err /\ Unsafe(Row.in)) => Report(l, "unsafe name accepted")

-----------------------------------------------------------------------------
(* C17: quoted parameters.  in = the value v; the harness writes it quoted *)
(* with '"' and '\' escaped by a backslash and evaluates the real unescape *)
(* on that spelling: out.  Relation: out = v.  For values that need no     *)
(* quotes, alt = unescape of the bare spelling, and alt = v too.           *)

NeedsNoQuotes(v) == v # << >> /\ \A i \in 1..Len(v) : v[i] \notin {" ", "<TAB>", "<Q>", "#"} /\ ~(Len(v) >= 2 /\ v[1] = "/" /\ v[2] \in {"/", "*"})
UnescapeJudge ==
  (l <= Len(Table) /\ ~Row.panic) =>
     /\ (Row.out # Row.in => Report(l, "quoted value is not read back exactly"))
     /\ (NeedsNoQuotes(Row.in) /\ Row.alt # Row.in => Report(l, "bare value differs from the written value"))

-----------------------------------------------------------------------------
(* C19: automatic tag names.  in = a first path segment; out = the tag     *)
(* name the real code derives for "/" \o seg.  Different first segments    *)
(* must get different names (modulo the documented skipping of empty and   *)
(* "." segments: those have no tag of their own and are left out).         *)

SegHasOwnTag(s) == s # << >> /\ s # <<".">> /\ \A i \in 1..Len(s) : s[i] # "/"
TagRows == {i \in 1..Len(Table) : ~Table[i].panic /\ SegHasOwnTag(Table[i].in)}
TagInjective == Cardinality({Table[i].out : i \in TagRows}) = Cardinality(TagRows)
TagJudge == (l = 1 /\ ~TagInjective) => Report(0, "two different first segments share one automatic tag name")

-----------------------------------------------------------------------------
(* C02: line and quote of a location.  in = content, idx = byte index;     *)
(* one newline convention per content (contents mixing conventions are     *)
(* left out by the driver).  line = 1 + number of line terminators before  *)
(* idx; quote = that line without leading blanks.                          *)

\* terminators: with "<CR>" and "<LF>" both present the content is CRLF (pairs); else the one present
TermPositions(s) ==      \* positions of the LAST character of each terminator
  LET hasN == \E i \in 1..Len(s) : s[i] = "<LF>"
  IN IF hasN THEN {i \in 1..Len(s) : s[i] = "<LF>"} ELSE {i \in 1..Len(s) : s[i] = "<CR>"}
LineOf(s, idx) == 1 + Cardinality({p \in TermPositions(s) : p <= idx})     \* idx is 0-based: p <= idx means before
LineStart(s, idx) == LET before == {p \in TermPositions(s) : p <= idx}
                     IN IF before = {} THEN 1 ELSE (CHOOSE p \in before : \A q \in before : q <= p) + 1
LineEndPos(s, idx) == LET after == {p \in TermPositions(s) : p > idx}
                      IN IF after = {} THEN Len(s) ELSE (CHOOSE p \in after : \A q \in after : p <= q) - 1
StripCR(t) == IF t # << >> /\ t[Len(t)] = "<CR>" THEN SubSeq(t, 1, Len(t) - 1) ELSE t
RECURSIVE LTrim(_)
LTrim(t) == IF t # << >> /\ t[1] \in {" ", "<TAB>", "<LF>", "<CR>"} THEN LTrim(Tail(t)) ELSE t
QuoteOf(s, idx) == LTrim(StripCR(SubSeq(s, LineStart(s, idx), LineEndPos(s, idx))))
\* a line of more than 200 bytes may be quoted in part (marked with "..." where it is cut): whichever part is shown, it is
\* a part of THAT line - it holds no line end and nothing of the lines around it
StripDots(q) ==
  LET a == IF Len(q) >= 3 /\ SubSeq(q, 1, 3) = <<".", ".", ".">> THEN SubSeq(q, 4, Len(q)) ELSE q
  IN IF Len(a) >= 3 /\ SubSeq(a, Len(a) - 2, Len(a)) = <<".", ".", ".">> THEN SubSeq(a, 1, Len(a) - 3) ELSE a
IsInfix(c, t) == \E i \in 1..(Len(t) - Len(c) + 1) : SubSeq(t, i, i + Len(c) - 1) = c
QuoteOK(s, idx, q) ==
  LET line == QuoteOf(s, idx) IN
  IF LineEndPos(s, idx) - LineStart(s, idx) + 1 <= 200 THEN LTrim(q) = line
  ELSE LTrim(q) = line \/ (LET c == StripDots(LTrim(q)) IN c # << >> /\ IsInfix(c, line))
LocationJudge ==
  (l <= Len(Table) /\ ~Row.panic) =>
     /\ (Row.line # LineOf(Row.in, Row.idx) => Report(l, "line number"))
     /\ (~QuoteOK(Row.in, Row.idx, Row.out) => Report(l, "quoted line"))

-----------------------------------------------------------------------------
(* C15: description normal form                                            *)

\* split into lines on CRLF, CR or LF
RECURSIVE Lines(_)
Lines(s) ==
  LET idx == {i \in 1..Len(s) : IsNl(s[i])} IN
  IF idx = {} THEN << s >>
  ELSE LET i == CHOOSE x \in idx : \A y \in idx : x <= y
           skip == IF s[i] = "<CR>" /\ i < Len(s) /\ s[i + 1] = "<LF>" THEN 2 ELSE 1
       IN << SubSeq(s, 1, i - 1) >> \o Lines(SubSeq(s, i + skip, Len(s)))
RECURSIVE DropBlankHead(_)
DropBlankHead(ls) == IF ls # << >> /\ AllWs(ls[1]) THEN DropBlankHead(Tail(ls)) ELSE ls
RECURSIVE DropBlankTail(_)
DropBlankTail(ls) == IF ls # << >> /\ AllWs(ls[Len(ls)]) THEN DropBlankTail(SubSeq(ls, 1, Len(ls) - 1)) ELSE ls
RECURSIVE RTrim(_)
RTrim(t) == IF t # << >> /\ IsWs(t[Len(t)]) THEN RTrim(SubSeq(t, 1, Len(t) - 1)) ELSE t
LeadWs(t) == LET nz == {i \in 1..Len(t) : ~IsWs(t[i])} IN
             IF nz = {} THEN Len(t) ELSE (CHOOSE i \in nz : \A j \in nz : i <= j) - 1
\* the indentation common to the non-blank lines: longest common prefix of their leading blanks
CommonIndent(ls) ==
  LET nb == {i \in 1..Len(ls) : ~AllWs(ls[i])} IN
  IF nb = {} THEN 0
  ELSE LET first == ls[CHOOSE i \in nb : TRUE]
           ok(n) == \A i \in nb : LeadWs(ls[i]) >= n /\ SubSeq(ls[i], 1, n) = SubSeq(first, 1, n)
           cand == {n \in 0..LeadWs(first) : ok(n)}
       IN CHOOSE n \in cand : \A m \in cand : m <= n
RECURSIVE JoinNl(_)
JoinNl(ls) == IF ls = << >> THEN << >> ELSE IF Len(ls) = 1 THEN ls[1] ELSE ls[1] \o <<"<LF>">> \o JoinNl(Tail(ls))
NF(s) ==
  LET ls  == DropBlankTail(DropBlankHead(Lines(s)))
      n   == CommonIndent(ls)
      cut == [i \in 1..Len(ls) |-> IF AllWs(ls[i]) THEN << >> ELSE SubSeq(ls[i], n + 1, Len(ls[i]))]
  IN IF ls = << >> THEN << >>
     ELSE LET j == JoinNl(cut) IN RTrim(j)

\* An inner line that consists of blanks only (and is not empty) makes the sentence ambiguous:
\* does it have indentation that counts towards "the indentation common to its lines"?  The
\* code says yes; NF says no.  Such texts are left out of the judged set.
Ambiguous(s) ==
  LET ls == DropBlankTail(DropBlankHead(Lines(s)))
  IN \E i \in 1..Len(ls) : AllWs(ls[i]) /\ ls[i] # << >>

HasParenSpelling(s) == ~(\E i \in 1..Len(s) : s[i] \in {"(", ")"})
DescriptionJudge ==
  (l <= Len(Table) /\ ~Row.panic /\ HasParenSpelling(Row.in)) =>
     \* idempotence is unambiguous for every text
     /\ ((~Row.err /\ Row.out2 # Row.out) => Report(l, "normalising twice changes the text"))
     /\ (~Ambiguous(Row.in) =>
           /\ ((~Row.err /\ Row.out # NF(Row.in)) => Report(l, "not the normal form"))
           /\ ((~Row.err /\ NF(Row.in) # << >> /\ (Row.alterr \/ Row.alt # Row.out)) => Report(l, "parenthesised spelling differs")))

-----------------------------------------------------------------------------
(* C15: annotations: whitespace runs collapsed, surrounding blanks removed *)

RECURSIVE Collapse(_, _)
Collapse(s, prevWs) ==
  IF s = << >> THEN << >>
  ELSE IF s[1] \in {" ", "<TAB>", "<LF>", "<CR>"}
       THEN (IF prevWs THEN << >> ELSE << " " >>) \o Collapse(Tail(s), TRUE)
       ELSE << s[1] >> \o Collapse(Tail(s), FALSE)
AnnotNF(s) == LET c == Collapse(s, TRUE) IN IF c # << >> /\ c[Len(c)] = " " THEN SubSeq(c, 1, Len(c) - 1) ELSE c
AnnotationJudge == (l <= Len(Table) /\ ~Row.panic /\ Row.out # AnnotNF(Row.in)) => Report(l, "annotation not collapsed")

\* end to end: in = the text written under a Description directive, out = the description in
\* the catalog when written bare ("-" rows: not applicable), alt = when written in parentheses
DescriptionE2E ==
  (l <= Len(Table) /\ ~Row.panic /\ ~Ambiguous(Row.in)) =>
     /\ ((Row.hasbare /\ ~Row.err /\ Row.out # NF(Row.in)) => Report(l, "bare spelling: not the normal form"))
     /\ ((Row.hasbare /\ Row.err /\ NF(Row.in) # << >>) => Report(l, "bare spelling rejected"))
     /\ ((~Row.alterr /\ Row.alt # NF(Row.in)) => Report(l, "parenthesised spelling: not the normal form"))
     /\ ((Row.alterr /\ NF(Row.in) # << >>) => Report(l, "parenthesised spelling rejected"))
     /\ ((NF(Row.in) = << >> /\ ((Row.hasbare /\ ~Row.err) \/ ~Row.alterr)) => Report(l, "blank description accepted"))
\* in = annotation text; out = annotation in the catalog written after "//" (hasbare: single
\* line), alt = written between "/*" and "*/"
AnnotationE2E ==
  (l <= Len(Table) /\ ~Row.panic) =>
     /\ ((Row.hasbare /\ Row.out # AnnotNF(Row.in)) => Report(l, "// spelling not collapsed"))
     /\ ((~Row.alterr /\ Row.alt # AnnotNF(Row.in)) => Report(l, "/* */ spelling not collapsed"))
     \* a text that has a non-empty normal form is an annotation in either spelling
     /\ ((Row.alterr /\ AnnotNF(Row.in) # << >> /\ (Row.hasbare => ~Row.err)) => Report(l, "/* */ spelling rejected"))

-----------------------------------------------------------------------------
Judge ==
  /\ NoPanic
  /\ CASE Fn = "incname"     -> IncNameJudge
       [] Fn = "unescape"    -> UnescapeJudge
       [] Fn = "tagname"     -> TagJudge
       [] Fn = "location"    -> LocationJudge
       [] Fn \in {"description", "description_lines"} -> DescriptionJudge
       [] Fn = "description_e2e" -> DescriptionE2E
       [] Fn = "annotation"  -> AnnotationJudge
       [] Fn = "annotation_e2e" -> AnnotationE2E
       [] OTHER -> TRUE

Complete == (l = 1 /\ Fn \notin {"location", "description_e2e", "annotation_e2e", "description_lines"}) => (InputsOK(IF Fn = "incname" THEN 1 ELSE 0) \/ Report(0, "table incomplete"))
=============================================================================
