---------------------------- MODULE TraceCatalog ----------------------------
(***************************************************************************)
(* V binding for C09: every catalog the REAL library produced in any       *)
(* driver (fixtures, generated documents, stress names) is projected by    *)
(* the harness into a flat record and validated here: the self-consistency *)
(* predicate of the property is evaluated by TLC on the implementation's   *)
(* own output.                                                             *)
(***************************************************************************)
EXTENDS Naturals, Sequences, FiniteSets, TLC, Json, SequencesExt

Cats == ndJsonDeserialize("catalogs.ndjson")

VARIABLE l
Init == l = 1
Next == l <= Len(Cats) /\ l' = l + 1
Spec == Init /\ [][Next]_l

NoDup(s) == \A i, j \in 1..Len(s) : s[i] = s[j] => i = j

FormatFor(n) == CASE n = "jsight" -> "json" [] n = "regex" -> "plainString" [] n \in {"any", "empty"} -> "binary" [] OTHER -> "?"

Problems(c) ==
  LET inters == c.inters
      tags   == c.tags
      ikeys  == {inters[i].key : i \in 1..Len(inters)}
      tkeys  == {tags[i].key : i \in 1..Len(tags)}
  IN
  (IF c.dupkeys # << >> THEN {"an object has a repeated key"} ELSE {})
  \cup (IF ~c.utf8 THEN {"output is not valid UTF-8"} ELSE {})
  \cup (IF ~c.indent_ok THEN {"indented and compact forms differ"} ELSE {})
  \cup (IF \E i \in 1..Len(inters) : inters[i].key # inters[i].id THEN {"interaction key differs from its id"} ELSE {})
  \cup (IF \E i \in 1..Len(inters) :
            inters[i].id # inters[i].proto \o " " \o inters[i].method \o " " \o inters[i].path
        THEN {"id does not encode protocol, method and path"} ELSE {})
  \cup (IF ~NoDup([i \in 1..Len(inters) |-> inters[i].key]) THEN {"two interactions share one key"} ELSE {})
  \cup (IF \E i \in 1..Len(tags) : tags[i].key # tags[i].name THEN {"tag key differs from its name"} ELSE {})
  \cup (IF \E i \in 1..Len(inters) : inters[i].tags = << >> THEN {"interaction without a tag"} ELSE {})
  \cup (IF \E i \in 1..Len(inters) : \E t \in Range(inters[i].tags) :
            t \notin tkeys
            \/ \A k \in 1..Len(tags) : tags[k].key = t =>
                  inters[i].id \notin Range(IF inters[i].proto = "http" THEN tags[k].http ELSE tags[k].rpc)
        THEN {"interaction names a tag that does not exist or does not list it"} ELSE {})
  \cup (IF \E k \in 1..Len(tags) : \E x \in Range(tags[k].http) \cup Range(tags[k].rpc) :
            x \notin ikeys \/ \A i \in 1..Len(inters) : inters[i].key = x => tags[k].key \notin Range(inters[i].tags)
        THEN {"tag lists an interaction that does not exist or does not carry it"} ELSE {})
  \cup (IF Range(c.usedtypes) \subseteq Range(c.typekeys) THEN {} ELSE {"a used user type does not exist"})
  \cup (IF Range(c.usedenums) \subseteq Range(c.enumkeys) THEN {} ELSE {"a used enum does not exist"})
  \cup (IF c.nobody > 0 THEN {"request or response without a body"} ELSE {})
  \cup (IF \E i \in 1..Len(c.bodies) : c.bodies[i].format # FormatFor(c.bodies[i].notation)
        THEN {"body format does not match its notation"} ELSE {})
  \cup (IF c.title # c.info_title THEN {"Title() differs from info.title"} ELSE {})

Report == (l <= Len(Cats) /\ Problems(Cats[l]) # {}) =>
             PrintT("MBT " \o ToJson([id |-> Cats[l].id, problems |-> Problems(Cats[l])]))
=============================================================================
