---------------------------- MODULE JSightTypes ----------------------------
(***************************************************************************)
(* Graphs of user types (properties C10, C12, C01).                        *)
(* A project is N object types.  Type t names at most two base types       *)
(* (allOf) and declares up to three properties, each referring to a type   *)
(* in one of four ways: plainly ("ref"), as the element of an array        *)
(* ("arr"), optionally ("opt"), as one of two alternatives ("or"), or as   *)
(* the base of an inline object that is the item of an array ("ainh": the  *)
(* children of that object are Inherited(to), marked with to, then its own *)
(* property nk).                                                           *)
(* Unlike the type blocks of JSightApi the graphs are NOT kept acyclic:    *)
(* recursion through arrays, optional properties and alternatives is part  *)
(* of the language, and so are recursive types that inherit.               *)
(*                                                                         *)
(* Meaning stated here (and only this is demanded from the code):          *)
(*  - an inheritance cycle is rejected, in every declaration order;        *)
(*  - a property inherited along two routes (names are chosen so that this  *)
(*    is the only way to meet a name twice) is not judged;                 *)
(*  - the verdict and every catalog entry are the same in every order of   *)
(*    the declarations (relational, checked on pairs of real runs);        *)
(*  - for an accepted project the properties of t are those of its bases   *)
(*    (transitively, in the order named) followed by its own: Props(t).    *)
(***************************************************************************)
EXTENDS Naturals, Sequences, FiniteSets, TLC, Json

CONSTANTS N,            \* number of types
          MaxProps,     \* properties per type
          Steps         \* dummy bound (one behaviour = one graph)

VARIABLES g, k          \* g[t] = [bases |-> seq of types, props |-> seq of [to, how, to2]], k = types chosen so far
vars == <<g, k>>

T == 1..N
Hows == {"ref", "arr", "opt", "or", "int", "ainh"}     \* "ainh": an array whose item is an inline object that inherits the type
Range(s) == {s[i] : i \in 1..Len(s)}

\* (function constructors are lazy in TLC: with RandomElement inside they would yield another value at every
\* access.  Tuples are evaluated at once.)
RandProp(d) == [to |-> RandomElement(T), how |-> RandomElement(Hows), to2 |-> RandomElement(T)]
\* bases mostly among the types with a smaller number (the declaration order is permuted by the renderer), so that
\* inheritance cycles stay a minority
Cand(t, d) == IF t = 1 \/ RandomElement(1..5) = 1 THEN T \ {t} ELSE 1..(t - 1)
NB(t, d) == IF t = 1 /\ RandomElement(1..5) # 1 THEN 0 ELSE RandomElement({0, 0, 0, 1, 1, 1, 2})
TwoBases(a, b, nb) == IF nb = 0 THEN << >> ELSE IF nb = 1 \/ a = b THEN << a >> ELSE << a, b >>
RandType(t, d) ==
  [bases |-> TwoBases(RandomElement(Cand(t, d)), RandomElement(Cand(t, d)), NB(t, d)),
   props |-> SubSeq(<< RandProp(d), RandProp(d), RandProp(d), RandProp(d), RandProp(d), RandProp(d), RandProp(d), RandProp(d), RandProp(d) >>, 1, RandomElement(0..MaxProps))]

Init == g = << >> /\ k = 0
Next == /\ k < N
        /\ k' = k + 1
        /\ g' = Append(g, RandType(k + 1, k))
Spec == Init /\ [][Next]_vars

-----------------------------------------------------------------------------
Done == k = N
Bases(t) == Range(g[t].bases)

RECURSIVE Reach(_, _)
Reach(frontier, seen) ==
  IF frontier = {} THEN seen
  ELSE LET m == CHOOSE x \in frontier : TRUE
       IN Reach((frontier \cup Bases(m)) \ (seen \cup {m}), seen \cup {m})
Ancestors(t) == Reach(Bases(t), {})
AllOfCycle == \E t \in T : t \in Ancestors(t)

\* own property names are p<t>_<i>: the only way to meet a name twice is to inherit a type along two routes.
\* Children of t (acyclic graphs only): for every base, in the order named, all ITS children - own and inherited -
\* marked with that base; then the own properties, unmarked (inh = 0).  Same rule as JSightApi!ChildrenOf.
RECURSIVE Inherited(_)
Inherited(t) ==
  LET RECURSIVE Cat(_, _)
      Cat(bs, i) == IF i > Len(bs) THEN << >>
                    ELSE LET c == Inherited(bs[i])
                         IN [j \in 1..Len(c) |-> [owner |-> c[j].owner, idx |-> c[j].idx, inh |-> bs[i]]] \o Cat(bs, i + 1)
  IN Cat(g[t].bases, 1) \o [i \in 1..Len(g[t].props) |-> [owner |-> t, idx |-> i, inh |-> 0]]
HasDup(s) == \E i, j \in 1..Len(s) : i < j /\ s[i].owner = s[j].owner /\ s[i].idx = s[j].idx
Diamond == ~AllOfCycle /\ \E t \in T : HasDup(Inherited(t))

\* longest inheritance chain (finding F-10b concerns depth >= 2)
RECURSIVE Depth(_)
Depth(t) == IF Bases(t) = {} THEN 0
            ELSE 1 + (LET S == {Depth(b) : b \in Bases(t)} IN CHOOSE x \in S : \A y \in S : y <= x)
MaxDepth == IF AllOfCycle THEN 0 ELSE LET S == {Depth(t) : t \in T} IN CHOOSE x \in S : \A y \in S : y <= x

\* references of a type: which types its own properties name
Refs(t) == UNION {IF p.how = "int" THEN {} ELSE IF p.how = "or" THEN {p.to, p.to2} ELSE {p.to} : p \in Range(g[t].props)}
RECURSIVE ReachR(_, _)
ReachR(frontier, seen) ==
  IF frontier = {} THEN seen
  ELSE LET m == CHOOSE x \in frontier : TRUE
       IN ReachR((frontier \cup Refs(m) \cup Bases(m)) \ (seen \cup {m}), seen \cup {m})
Recursive == \E t \in T : t \in ReachR(Refs(t) \cup Bases(t), {})

\* implementation layer (reported as conformance, never a verdict): a cycle through plain required references - own or
\* inherited - has no finite value ("Infinity recursion detected"); of a list of alternatives the code follows the first
ReqRefs(t) == {Inherited(t)[i].owner : i \in {} } \cup
              {g[c.owner].props[c.idx].to : c \in {Inherited(t)[i] : i \in 1..Len(Inherited(t))} \cap
                                                 {x \in {Inherited(t)[i] : i \in 1..Len(Inherited(t))} : g[x.owner].props[x.idx].how \in {"ref", "or"}}}
RECURSIVE ReachQ(_, _)
ReachQ(frontier, seen) ==
  IF frontier = {} THEN seen
  ELSE LET m == CHOOSE x \in frontier : TRUE
       IN ReachQ((frontier \cup ReqRefs(m)) \ (seen \cup {m}), seen \cup {m})
Infinite == ~AllOfCycle /\ \E t \in T : t \in ReachQ(ReqRefs(t), {})
ImplVerdict == IF AllOfCycle \/ Diamond \/ Infinite THEN "rejected" ELSE "accepted"

\* "each exactly once": a property that would arrive along two routes cannot be listed once per route; whether such a
\* project is rejected or the property listed once is left open (not judged)
Verdict == IF AllOfCycle THEN "rejected:allof-cycle"
           ELSE IF Diamond THEN "unjudged:inherited-twice"
           ELSE "unjudged"

Emit == Done => PrintT("MBT " \o ToJson([g |-> g, verdict |-> Verdict, impl |-> ImplVerdict, depth |-> MaxDepth, recursive |-> Recursive,
                                         props |-> IF AllOfCycle \/ Diamond THEN << >> ELSE [t \in T |-> Inherited(t)]]))
=============================================================================
