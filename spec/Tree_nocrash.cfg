SPECIFICATION Spec
CHECK_DEADLOCK FALSE
INVARIANTS NoCrash
