SPECIFICATION Spec
CHECK_DEADLOCK FALSE
INVARIANT Emit
