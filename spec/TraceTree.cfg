SPECIFICATION TSpec
CHECK_DEADLOCK FALSE
INVARIANT Report
CONSTANTS
  History = FALSE
  MaxLen = 0
  EmitMode = "none"
  SampleMod = 1
  SamplePick = 0
  ValidOnly = FALSE
  MaxInc = 2
  OneKw = FALSE
