----------------------------- MODULE JSightLex -----------------------------
(***************************************************************************)
(* The byte-level scanner of scanner/*.go as a transition function.        *)
(*                                                                         *)
(* One step function per step function of the code (the ~200 keyword       *)
(* states collapse to a walk over the keyword table - no keyword is a      *)
(* proper prefix of another, see the ASSUME), the step stack, the stack of *)
(* pending lexeme beginnings, the parameters of the directive being read   *)
(* (they decide whether a body or a keyword follows), the rewinds          *)
(* (cur -= 2 after a lone "/", cur-- before a keyword that ends a          *)
(* description) and the look-ahead of isDirective().  Where the code       *)
(* delegates to the schema library (schema / enum body length) the answer  *)
(* comes from an oracle: the real library's answer in trace mode, the      *)
(* length of the body token in generation mode.                            *)
(* Partial operations (pop of an empty stack) are explicit crash states.   *)
(*                                                                         *)
(* The meaning-layer predicates of property C14 (LexemesWF, KeywordsKnown, *)
(* OnlyTriviaSkipped, BodyIsOneValue) are defined on (input, lexeme        *)
(* stream) pairs, independently of the machine, and are what judges the    *)
(* REAL scanner's output in TraceLex.                                      *)
(***************************************************************************)
EXTENDS Integers, Sequences, FiniteSets, TLC, Json

KwTable == <<
  << 74, 83, 73, 71, 72, 84 >>,
  << 73, 78, 70, 79 >>,
  << 84, 105, 116, 108, 101 >>,
  << 86, 101, 114, 115, 105, 111, 110 >>,
  << 68, 101, 115, 99, 114, 105, 112, 116, 105, 111, 110 >>,
  << 83, 69, 82, 86, 69, 82 >>,
  << 66, 97, 115, 101, 85, 114, 108 >>,
  << 85, 82, 76 >>,
  << 71, 69, 84 >>,
  << 80, 79, 83, 84 >>,
  << 80, 85, 84 >>,
  << 80, 65, 84, 67, 72 >>,
  << 68, 69, 76, 69, 84, 69 >>,
  << 66, 111, 100, 121 >>,
  << 82, 101, 113, 117, 101, 115, 116 >>,
  << 80, 97, 116, 104 >>,
  << 72, 101, 97, 100, 101, 114, 115 >>,
  << 81, 117, 101, 114, 121 >>,
  << 84, 89, 80, 69 >>,
  << 69, 78, 85, 77 >>,
  << 77, 65, 67, 82, 79 >>,
  << 80, 65, 83, 84, 69 >>,
  << 73, 78, 67, 76, 85, 68, 69 >>,
  << 80, 114, 111, 116, 111, 99, 111, 108 >>,
  << 77, 101, 116, 104, 111, 100 >>,
  << 80, 97, 114, 97, 109, 115 >>,
  << 82, 101, 115, 117, 108, 116 >>,
  << 84, 65, 71 >>,
  << 84, 97, 103, 115 >>
>>
KwNames == << "JSIGHT", "INFO", "Title", "Version", "Description", "SERVER", "BaseUrl", "URL", "GET", "POST", "PUT", "PATCH", "DELETE", "Body", "Request", "Path", "Headers", "Query", "TYPE", "ENUM", "MACRO", "PASTE", "INCLUDE", "Protocol", "Method", "Params", "Result", "TAG", "Tags" >>

ASSUME \A i, j \in 1..Len(KwTable) :
         (i # j /\ Len(KwTable[i]) <= Len(KwTable[j])) => SubSeq(KwTable[j], 1, Len(KwTable[i])) # KwTable[i]

Ws(c) == c \in {32, 9}
Nl(c) == c \in {10, 13}
Digit(c) == c >= 48 /\ c <= 57
IsPrefix(p, k) == Len(p) <= Len(k) /\ SubSeq(k, 1, Len(p)) = p
KwIndex(p) == CHOOSE i \in 1..Len(KwTable) : KwTable[i] = p

\* the state pushed after each keyword (what reads the body, if any)
After(name) ==
  CASE name = "Description" -> "DescTextBeginStarter"
    [] name = "Body"    -> "BodyBodyOrKeyword"
    [] name = "Request" -> "RequestBodyOrKeyword"
    [] name = "TYPE"    -> "TypeBodyOrKeyword"
    [] name = "ENUM"    -> "EnumBody"
    [] name = "Headers" -> "HeaderBody"
    [] name = "Query"   -> "QueryBodyOrKeyword"
    [] name = "Path"    -> "PathBody"
    [] name = "Params"  -> "ParamsBody"
    [] name = "Result"  -> "ResultBody"
    [] OTHER            -> "ExpectKeyword"

-----------------------------------------------------------------------------
(* Scanner state.  cur is the 0-based byte index as in the code.           *)

Start == [step |-> "Root", stk |-> << >>, cur |-> 0, evs |-> << >>, out |-> << >>, par |-> << >>,
          err |-> -1, fuzzy |-> FALSE, crash |-> "", leak |-> 0, fnd |-> << >>]

ByteAt(inp, i) == IF i >= Len(inp) THEN 0 ELSE inp[i + 1]

\* classification of a parameter lexeme, as step-helpers.go does it (Unquote, TrimSquareBrackets)
Text(inp, b, e) == IF e < b THEN << >> ELSE SubSeq(inp, b + 1, e + 1)
Unq(v) == IF Len(v) >= 2 /\ v[1] = 34 /\ v[Len(v)] = 34
          THEN (IF \E i \in 2..(Len(v) - 1) : v[i] = 92 THEN << 0 >> ELSE SubSeq(v, 2, Len(v) - 1))
          ELSE v
TrimBr(v) == IF Len(v) > 1 /\ v[1] = 91 /\ v[Len(v)] = 93 THEN SubSeq(v, 2, Len(v) - 1) ELSE v
NameByte(c) == c = 45 \/ c = 95 \/ (c >= 97 /\ c <= 122) \/ (c >= 65 /\ c <= 90) \/ Digit(c)
IsTypeName(v) == Len(v) >= 2 /\ v[1] = 64 /\ \A i \in 2..Len(v) : NameByte(v[i])
AnyB == << 97, 110, 121 >>
EmptyB == << 101, 109, 112, 116, 121 >>
RegexB == << 114, 101, 103, 101, 120 >>
ParamClass(inp, b, e) ==
  LET v == Unq(Text(inp, b, e)) w == TrimBr(v) IN
  [tae |-> (w = AnyB \/ w = EmptyB \/ IsTypeName(w)), ae |-> (w = AnyB \/ w = EmptyB), rx |-> (v = RegexB)]
HasTAE(par) == \E i \in 1..Len(par) : par[i].tae
NoneAE(par) == \A i \in 1..Len(par) : ~par[i].ae
HasRx(par)  == \E i \in 1..Len(par) : par[i].rx

\* lexeme events: processLexemeEvent.  Lexeme = <<type, begin, end>>, types as in lexeme.go
IsBegin(t) == t \in {"kb", "pb", "ab", "sb", "tb", "eb"}
Matches(b, e) == <<b, e>> \in {<<"kb", "ke">>, <<"pb", "pe">>, <<"ab", "ae">>, <<"sb", "se">>, <<"tb", "te">>, <<"eb", "ee">>}
LexType(e) == CASE e = "ke" -> 0 [] e = "pe" -> 1 [] e = "ae" -> 2 [] e = "se" -> 3 [] e = "te" -> 5 [] e = "ee" -> 8
Bad(s) == s.err >= 0 \/ s.crash # ""
Fail(s, i) == IF Bad(s) THEN s ELSE [s EXCEPT !.err = i]
FailFuzzy(s, i) == IF Bad(s) THEN s ELSE [s EXCEPT !.err = i, !.fuzzy = TRUE]
Crash(s, why) == IF Bad(s) THEN s ELSE [s EXCEPT !.crash = why]

\* found()/foundAt(): the event is queued (s.finds) and processed after the step function returns
Found(inp, s, t, pos) == IF Bad(s) THEN s ELSE [s EXCEPT !.fnd = Append(@, <<t, pos>>)]

\* processLexemeEvent
Apply(inp, s, t, pos) ==
  IF Bad(s) THEN s
  ELSE IF IsBegin(t) THEN [s EXCEPT !.evs = Append(@, <<t, pos>>)]
  ELSE IF t = "open" THEN [s EXCEPT !.out = Append(@, <<6, pos, pos>>)]
  ELSE IF t = "close" THEN [s EXCEPT !.out = Append(@, <<7, pos, pos>>)]
  ELSE IF s.evs = << >> THEN Crash(s, "pop of the empty event stack")
  ELSE LET top == s.evs[Len(s.evs)] IN
       IF Matches(top[1], t)
       THEN LET s1 == [s EXCEPT !.evs = SubSeq(@, 1, Len(@) - 1), !.out = Append(@, <<LexType(t), top[2], pos>>)]
            IN IF t = "ke" THEN [s1 EXCEPT !.par = << >>]
               ELSE IF t = "pe" THEN [s1 EXCEPT !.par = Append(@, ParamClass(inp, top[2], pos))]
               ELSE s1
       ELSE Fail(s, s.cur)

Push(s, st) == [s EXCEPT !.stk = Append(@, st)]
\* Pop: sets step to the popped state
Pop(s) == IF Bad(s) THEN s
          ELSE IF s.stk = << >> THEN Crash(s, "pop of the empty step stack")
          ELSE [s EXCEPT !.step = s.stk[Len(s.stk)], !.stk = SubSeq(@, 1, Len(@) - 1)]
To(s, st) == IF Bad(s) THEN s ELSE [s EXCEPT !.step = st]
StartComment(s) == To(Push(s, s.step), "CommentStarted")

\* isDirective(): does the rest of the line (up to LF) start with a directive keyword or a response code?
LineFrom(inp, i) == LET idx == {j \in (i + 1)..Len(inp) : inp[j] = 10}
                    IN IF idx = {} THEN SubSeq(inp, i + 1, Len(inp))
                       ELSE SubSeq(inp, i + 1, (CHOOSE j \in idx : \A k \in idx : j <= k) - 1)
StartsWithDirective(b) ==
  /\ Len(b) >= 3
  /\ \/ (b[1] >= 49 /\ b[1] <= 53 /\ Digit(b[2]) /\ Digit(b[3]))
     \/ \E i \in 1..Len(KwTable) : IsPrefix(KwTable[i], b)

FirstLetters == {KwTable[i][1] : i \in 1..Len(KwTable)}

-----------------------------------------------------------------------------
(* The step functions.  Oracle: orc[pos] = length of the schema / enum     *)
(* value that starts at byte pos, -1 if the library reports an error there *)
(* (or was not asked).  The library can also answer 0 without an error.    *)

OrcLen(orc, pos) == IF \E i \in 1..Len(orc) : orc[i][1] = pos
                    THEN orc[CHOOSE i \in 1..Len(orc) : orc[i][1] = pos][2] ELSE -1

\* stateJSchema / scanEnumBody: found(begin); ask the library; jump to the last byte of the value
Delegate(inp, orc, s, bt, closedState) ==
  LET s1 == Found(inp, s, bt, s.cur)
      n  == OrcLen(orc, s.cur)
  IN IF s.cur >= Len(inp) \/ n = 0 THEN To(s1, closedState)   \* length 0 without error (always so at end of input): no jump
     ELSE IF n < 0 THEN FailFuzzy(s1, s.cur)
     ELSE To([s1 EXCEPT !.cur = s.cur + n - 1], closedState)

RECURSIVE Do(_, _, _, _)
Do(inp, orc, s, c) ==
  IF Bad(s) THEN s ELSE
  LET st == s.step
      here == s.cur
      Err == Fail(s, here)
  IN
  CASE st \in {"Root", "ExpectKeyword"} ->
         IF st = "Root" /\ c = 35 THEN StartComment(s)
         ELSE IF Nl(c) \/ Ws(c) \/ c = 0 THEN s
         ELSE IF c = 35 THEN StartComment(s)
         ELSE IF c = 40 THEN To(Found(inp, s, "open", here), "CtxOpenedOnNewline")
         ELSE IF c = 41 THEN To(Found(inp, s, "close", here), "CtxClosed")
         ELSE IF c \in FirstLetters THEN [Found(inp, s, "kb", here) EXCEPT !.step = "Kw", !.kw = << c >>]
         ELSE IF c >= 49 /\ c <= 53 THEN To(Found(inp, s, "kb", here), "RespStarted")
         ELSE Err
    [] st = "Kw" ->
         LET p == Append(s.kw, c) IN
         IF \E i \in 1..Len(KwTable) : KwTable[i] = p
         THEN To(Push(Found(inp, s, "ke", here), After(KwNames[KwIndex(p)])), "ParamOrAnnot")
         ELSE IF \E i \in 1..Len(KwTable) : IsPrefix(p, KwTable[i]) THEN [s EXCEPT !.kw = p]
         ELSE Err
    [] st = "RespStarted" -> IF Digit(c) THEN To(s, "RespSecond") ELSE Err
    [] st = "RespSecond" ->
         IF Digit(c) THEN To(Push(Found(inp, s, "ke", here), "ResponseBodyOrKeyword"), "ParamOrAnnot") ELSE Err
    \* ---- parameters and annotation
    [] st = "ParamOrAnnot" ->
         IF Ws(c) THEN To(s, "ParamOrAnnotAfterSpace")
         ELSE IF c = 35 THEN StartComment(s)
         ELSE IF Nl(c) \/ c = 0 THEN Pop(s)
         ELSE IF c = 47 THEN To(s, "AnnotSign2")
         ELSE Err
    [] st = "ParamOrAnnotAfterSpace" ->
         IF Ws(c) THEN s
         ELSE IF c = 35 THEN StartComment(s)
         ELSE IF Nl(c) \/ c = 0 THEN Pop(s)
         ELSE IF c = 47 THEN To(s, "AnnotSign2")
         ELSE Do(inp, orc, To(s, "ParamStart"), c)
    [] st = "ParamStart" ->
         LET s1 == Found(inp, s, "pb", here) IN
         IF c = 34 THEN To(s1, "InQuoted")
         ELSE IF Nl(c) THEN Fail(s1, here)
         ELSE To(s1, "WoQuoted")
    [] st = "InQuoted" ->
         IF Nl(c) \/ c = 0 THEN Err
         ELSE IF c = 92 THEN To(s, "InQuotedSlash")
         ELSE IF c = 34 THEN To(Found(inp, s, "pe", here), "ParamOrAnnot")
         ELSE s
    [] st = "InQuotedSlash" -> IF c = 92 \/ c = 34 THEN To(s, "InQuoted") ELSE Err
    [] st = "WoQuoted" ->
         IF Ws(c) \/ Nl(c) \/ c = 35 \/ c = 0
         THEN Do(inp, orc, To(Found(inp, s, "pe", here - 1), "ParamOrAnnot"), c)
         ELSE s
    [] st = "AnnotSign2" ->
         IF c = 47 THEN To(s, "AnnotTextStart")
         ELSE IF c = 42 THEN To(s, "MlAnnotTextStart")
         ELSE To([s EXCEPT !.cur = here - 2], "ParamStart")          \* re-read the "/" as a parameter
    [] st = "AnnotTextStart" -> Do(inp, orc, To(Found(inp, s, "ab", here), "Annot"), c)
    [] st = "Annot" ->
         IF c = 35 THEN To(Found(inp, s, "ae", here - 1), "SingleComment")
         ELSE IF Nl(c) \/ c = 0 THEN Do(inp, orc, Pop(Found(inp, s, "ae", here - 1)), c)
         ELSE s
    [] st = "MlAnnotTextStart" ->       \* "/*/": the slash right after the opener does not close (fix for F-02)
         IF c = 47 THEN To(Found(inp, s, "ab", here), "MlAnnot")
         ELSE Do(inp, orc, To(Found(inp, s, "ab", here), "MlAnnot"), c)
    [] st = "MlAnnot" ->
         IF c = 47 /\ ByteAt(inp, here - 1) = 42 THEN Pop(Found(inp, s, "ae", here - 2))
         ELSE IF c = 0 THEN Err
         ELSE s
    \* ---- comments
    \* (until the fix for finding F-24 the code called stateSingleComment here without making it the
    \* step, so later "#" bytes of the same line kept counting towards "###")
    [] st = "CommentStarted" -> IF c = 35 THEN To(s, "CommentDouble") ELSE Do(inp, orc, To(s, "SingleComment"), c)
    [] st = "CommentDouble"  -> IF c = 35 THEN To(s, "CommentBlock") ELSE Do(inp, orc, To(s, "SingleComment"), c)
    [] st = "SingleComment" -> IF Nl(c) \/ c = 0 THEN Do(inp, orc, Pop(s), c) ELSE s
    [] st = "CommentBlock" -> IF c = 0 THEN Err ELSE IF c = 35 THEN To(s, "CommentOnceClosed") ELSE s
    [] st = "CommentOnceClosed" ->
         IF c = 35 THEN To(s, "CommentTwiceClosed") ELSE Do(inp, orc, To(s, "CommentBlock"), c)
    [] st = "CommentTwiceClosed" ->
         IF c = 35 THEN Pop(s) ELSE Do(inp, orc, To(s, "CommentBlock"), c)
    \* ---- body or keyword
    [] st \in {"BodyBodyOrKeyword", "RequestBodyOrKeyword", "ResponseBodyOrKeyword"} ->
         LET body == CASE st = "BodyBodyOrKeyword" -> "BodyBody" [] st = "RequestBodyOrKeyword" -> "RequestBody"
                       [] OTHER -> "ResponseBody" IN
         IF ~HasTAE(s.par)
         THEN Do(inp, orc, To(Push(s, IF HasRx(s.par) THEN "Regex" ELSE "JSchema"), body), c)
         ELSE Do(inp, orc, To(s, "ExpectKeyword"), c)
    [] st = "TypeBodyOrKeyword" ->
         IF NoneAE(s.par)
         THEN Do(inp, orc, To(Push(s, IF HasRx(s.par) THEN "Regex" ELSE "JSchema"), "TypeBody"), c)
         ELSE Do(inp, orc, To(s, "ExpectKeyword"), c)
    [] st \in {"BodyBody", "TypeBody"} ->
         IF Ws(c) \/ Nl(c) THEN s
         ELSE IF c = 40 THEN Found(inp, s, "open", here)
         ELSE Do(inp, orc, Pop(s), c)
    [] st \in {"RequestBody", "ResponseBody"} ->
         IF c = 40 THEN Found(inp, s, "open", here)
         ELSE IF Ws(c) \/ Nl(c) THEN s
         ELSE IF c = 35 THEN StartComment(s)
         ELSE IF c \in {66, 72, 80, 73}            \* B H P I: a child keyword; the pushed body parser stays on the stack
              THEN Do(inp, orc, [s EXCEPT !.step = "ExpectKeyword", !.leak = @ + 1], c)
         ELSE Do(inp, orc, Pop(s), c)
    [] st = "EnumBody" ->
         IF c = 40 THEN Found(inp, s, "open", here)
         ELSE IF Ws(c) \/ Nl(c) THEN s
         ELSE IF c = 35 THEN StartComment(s)
         ELSE IF c = 91 THEN Delegate(inp, orc, s, "eb", "EnumBodyClose")
         ELSE Err
    [] st = "EnumBodyClose" ->
         IF Ws(c) THEN To(Found(inp, s, "ee", here - 1), "EnumBodyEnded")
         ELSE IF Nl(c) \/ c = 0 THEN To(Found(inp, s, "ee", here - 1), "ExpectKeyword")
         ELSE Err
    [] st \in {"EnumBodyEnded", "BodyEnded"} ->
         IF Ws(c) THEN s
         ELSE IF Nl(c) \/ c = 0 THEN To(s, "ExpectKeyword")
         ELSE IF c = 35 THEN StartComment(s)
         ELSE Err
    [] st \in {"HeaderBody", "PathBody"} ->
         IF c = 40 THEN Found(inp, s, "open", here)
         ELSE IF Ws(c) \/ Nl(c) THEN s
         ELSE IF c = 35 THEN StartComment(s)
         ELSE IF c = 123 \/ c = 64 THEN Delegate(inp, orc, s, "sb", "SchemaClosed")
         ELSE Err
    [] st \in {"QueryBodyOrKeyword", "ParamsBody", "ResultBody"} ->
         IF c = 40 THEN Found(inp, s, "open", here)
         ELSE IF Ws(c) \/ Nl(c) THEN s
         ELSE IF c = 35 THEN StartComment(s)
         ELSE Delegate(inp, orc, s, "sb", "SchemaClosed")
    [] st = "JSchema" -> Delegate(inp, orc, s, "sb", "SchemaClosed")
    [] st = "SchemaClosed" ->
         IF Ws(c) THEN To(Found(inp, s, "se", here - 1), "BodyEnded")
         ELSE IF Nl(c) \/ c = 0 THEN To(Found(inp, s, "se", here - 1), "ExpectKeyword")
         ELSE Err
    [] st = "Regex" -> IF c # 47 THEN Err ELSE To(Found(inp, s, "tb", here), "RegexFirstChar")
    [] st = "RegexFirstChar" -> IF c = 47 THEN Err ELSE Do(inp, orc, To(s, "RegexBody"), c)
    [] st = "RegexBody" ->
         IF c = 47 THEN To(Found(inp, s, "te", here), "BodyEnded")
         ELSE IF c = 0 THEN Err
         ELSE IF c = 92 THEN To(s, "RegexBodyAfterSlash")
         ELSE s
    [] st = "RegexBodyAfterSlash" -> IF c = 0 THEN Err ELSE To(s, "RegexBody")     \* end of input right after "\" (fix for F-30)
    [] st = "CtxClosed" ->
         IF Ws(c) \/ c = 0 THEN s
         ELSE IF Nl(c) THEN To(s, "ExpectKeyword")
         ELSE IF c = 35 THEN StartComment(s)
         ELSE Err
    [] st = "CtxOpenedOnNewline" ->
         IF Ws(c) THEN s
         ELSE IF Nl(c) THEN To(s, "ExpectKeyword")
         ELSE IF c = 35 THEN StartComment(s)
         ELSE Err
    \* ---- description
    [] st = "DescTextBeginStarter" -> Do(inp, orc, To(Found(inp, s, "tb", here), "DescTextBegin"), c)
    [] st = "DescTextBegin" ->
         IF Nl(c) \/ Ws(c) THEN s
         ELSE IF c = 0 THEN Found(inp, s, "te", here - 1)
         ELSE IF c = 40 THEN To(s, "DescBracketsInner")
         ELSE Do(inp, orc, To(s, "DescTextNewline"), c)
    \* end of input inside the parentheses is an error (fix for F-27; it used to be ignored)
    [] st = "DescBracketsInner" -> IF c = 0 THEN Err ELSE IF Nl(c) THEN To(s, "DescBracketsInnerNewLine") ELSE s
    [] st = "DescBracketsInnerNewLine" ->
         IF c = 0 THEN Err
         ELSE IF Ws(c) \/ Nl(c) THEN s
         ELSE IF c = 41 THEN To(Found(inp, s, "te", here), "ExpectKeyword")
         ELSE To(s, "DescBracketsInner")
    [] st = "DescText" ->
         IF Nl(c) THEN To(s, "DescTextNewline")
         ELSE IF c = 0 THEN Found(inp, s, "te", here - 1)
         ELSE s
    [] st = "DescTextNewline" ->
         IF Ws(c) \/ Nl(c) THEN s
         ELSE IF c = 0 THEN Found(inp, s, "te", here - 1)
         ELSE IF StartsWithDirective(LineFrom(inp, here))
              THEN [To(Found(inp, s, "te", here - 1), "ExpectKeyword") EXCEPT !.cur = here - 1]   \* re-read the byte as a keyword
         ELSE IF c = 41 THEN To(Found(inp, Found(inp, s, "te", here - 1), "close", here), "ExpectKeyword")
         ELSE To(s, "DescText")
    [] OTHER -> Crash(s, "unknown step " \o st)

\* The queue of events is drained after the step.  Next() returns at the first lexeme; the following
\* call first processes exactly one queued event and goes on reading bytes, after which the rest is
\* drained.  At the end of input there are no more bytes: whatever is still queued after "first
\* lexeme + one more event" is never processed (e.g. the empty text of "Description // note<EOF>").
YieldsLexeme(t) == ~IsBegin(t)
RECURSIVE DrainN(_, _, _, _, _)
DrainN(inp, s, q, i, budget) ==      \* budget: -1 = unlimited; else number of events that may still be processed
  IF i > Len(q) \/ budget = 0 \/ Bad(s) THEN s
  ELSE LET s1 == Apply(inp, s, q[i][1], q[i][2])
           produced == Len(s1.out) > Len(s.out)
           b1 == IF budget > 0 THEN budget - 1 ELSE IF produced THEN 1 ELSE -1
       IN DrainN(inp, s1, q, i + 1, b1)
Drain(inp, s, q, atEof) == IF atEof THEN DrainN(inp, s, q, 1, -1) ELSE
  LET RECURSIVE All(_, _)
      All(st, i) == IF i > Len(q) \/ Bad(st) THEN st ELSE All(Apply(inp, st, q[i][1], q[i][2]), i + 1)
  IN All(s, 1)

\* stateCommentStarted / stateCommentDouble call stateSingleComment without making it the step:
\* if the byte does not end the line the step stays CommentStarted / CommentDouble.  "prev" carries that.
Step(inp, orc, s) ==
  LET c == ByteAt(inp, s.cur)
      s0 == [s EXCEPT !.prev = s.step]
  IN IF s.cur < Len(inp) /\ c = 0 THEN Fail(s, s.cur)          \* "File cannot contain byte zero"
     ELSE LET r == Do(inp, orc, s0, c) IN
          IF Bad(r) THEN r      \* Next() returns the error at once: the events of this step are never processed
          ELSE [Drain(inp, [r EXCEPT !.fnd = << >>], r.fnd, s.cur >= Len(inp)) EXCEPT !.cur = r.cur + 1]

Init0 == [Start EXCEPT !.step = "Root"] @@ [kw |-> << >>, prev |-> "Root"]

RECURSIVE RunFrom(_, _, _)
RunFrom(inp, orc, s) == IF Bad(s) \/ s.cur > Len(inp) THEN s ELSE RunFrom(inp, orc, Step(inp, orc, s))
Run(inp, orc) == RunFrom(inp, orc, Init0)

-----------------------------------------------------------------------------
(* Meaning layer of C14: predicates on (input, lexeme stream), machine-free *)

\* lexemes lie inside the input, do not overlap and come in strictly increasing position
LexemesWF(inp, out) ==
  /\ \A i \in 1..Len(out) : out[i][2] >= 0 /\ out[i][2] <= out[i][3] /\ out[i][3] < Len(inp)
  /\ \A i \in 1..(Len(out) - 1) : out[i][3] < out[i + 1][2]
\* ... except that an annotation or text lexeme may be empty (end = begin - 1) when nothing was written
LexemesWFLoose(inp, out) ==
  /\ \A i \in 1..Len(out) : out[i][2] >= 0 /\ out[i][3] < Len(inp)
                            /\ (out[i][2] <= out[i][3] \/ (out[i][1] \in {2, 5} /\ out[i][3] = out[i][2] - 1))
  /\ \A i \in 1..(Len(out) - 1) : out[i][3] < out[i + 1][2] /\ out[i][2] <= out[i + 1][2]

KeywordsKnown(inp, out) ==
  \A i \in 1..Len(out) : out[i][1] = 0 =>
     LET t == Text(inp, out[i][2], out[i][3]) IN
     \/ \E k \in 1..Len(KwTable) : KwTable[k] = t
     \/ (Len(t) = 3 /\ t[1] >= 49 /\ t[1] <= 53 /\ Digit(t[2]) /\ Digit(t[3]))

\* an annotation lexeme is what its delimiters enclose: after "//" it holds no line end, after "/*" it holds no "*/"
\* (it ends at the FIRST one) and is directly followed by one
AnnotationsDelimited(inp, out) ==
  \A i \in 1..Len(out) : (out[i][1] = 2 /\ out[i][2] >= 2 /\ out[i][2] <= out[i][3]) =>
     LET b == out[i][2]  e == out[i][3] IN
     IF ByteAt(inp, b - 2) = 47 /\ ByteAt(inp, b - 1) = 42
     THEN /\ ~\E k \in b..(e - 1) : ByteAt(inp, k) = 42 /\ ByteAt(inp, k + 1) = 47
          /\ e + 2 < Len(inp) + 1 /\ ByteAt(inp, e + 1) = 42 /\ ByteAt(inp, e + 2) = 47
     ELSE IF ByteAt(inp, b - 2) = 47 /\ ByteAt(inp, b - 1) = 47
     THEN ~\E k \in b..e : Nl(ByteAt(inp, k))
     ELSE TRUE

\* a text lexeme that begins with "(" is a parenthesised description: it is what its parentheses enclose - it ends
\* with a ")" that is the first thing on its line, and at the FIRST such ")"
LineFirst(inp, from, k) == \E j \in from..(k - 1) : Nl(ByteAt(inp, j)) /\ \A m \in (j + 1)..(k - 1) : Ws(ByteAt(inp, m))
DescriptionsDelimited(inp, out) ==
  \A i \in 1..Len(out) : (out[i][1] = 5 /\ out[i][2] <= out[i][3]) =>
     LET b == out[i][2]  e == out[i][3]
         nb == {k \in b..e : ~Ws(ByteAt(inp, k)) /\ ~Nl(ByteAt(inp, k))}
         f == IF nb = {} THEN -1 ELSE CHOOSE k \in nb : \A m \in nb : k <= m
     IN (f >= 0 /\ ByteAt(inp, f) = 40) =>
          /\ ByteAt(inp, e) = 41 /\ LineFirst(inp, f, e)
          /\ ~\E k \in (f + 1)..(e - 1) : ByteAt(inp, k) = 41 /\ LineFirst(inp, f, k)

\* every byte outside all lexemes is whitespace, a line end, comment text or an annotation delimiter.
\* Gap grammar (a small recogniser over the bytes between two lexemes): blanks and line ends; "#" up
\* to the end of line; "###" ... "###"; "//" directly before an annotation lexeme; "/*" before and "*/"
\* after one.  A comment that begins with "###" is a block comment and runs to the next "###" - except on the line
\* of a "//" annotation, which the "#" ends: there every "#" starts a one-line comment (al: a "//" annotation lexeme ended
\* earlier on this line; after the "*/" of a block annotation the ordinary rule holds).
RECURSIVE GapOK(_, _, _, _, _, _)
GapOK(inp, i, j, nextIsAnnot, prevIsAnnot, al) ==      \* bytes i..j (0-based, inclusive) form the gap
  IF i > j THEN TRUE
  ELSE LET c == ByteAt(inp, i) IN
       IF Nl(c) THEN GapOK(inp, i + 1, j, nextIsAnnot, FALSE, FALSE)
       ELSE IF Ws(c) THEN GapOK(inp, i + 1, j, nextIsAnnot, FALSE, al)
       ELSE IF c = 35 THEN
            LET eol == {k \in i..j : Nl(ByteAt(inp, k))}
                asLine == IF eol = {} THEN TRUE ELSE GapOK(inp, CHOOSE k \in eol : \A m \in eol : k <= m, j, nextIsAnnot, FALSE, FALSE)
                ends == {k \in (i + 3)..(j - 2) : ByteAt(inp, k) = 35 /\ ByteAt(inp, k + 1) = 35 /\ ByteAt(inp, k + 2) = 35}
                triple == ByteAt(inp, i + 1) = 35 /\ ByteAt(inp, i + 2) = 35 /\ i + 2 <= j
                asBlock == triple /\ ends # {}
                           /\ GapOK(inp, (CHOOSE k \in ends : \A m \in ends : k <= m) + 3, j, nextIsAnnot, FALSE, FALSE)
            IN IF triple /\ ~al THEN asBlock ELSE asLine
       ELSE IF c = 47 /\ ByteAt(inp, i + 1) \in {47, 42} /\ i + 1 = j /\ nextIsAnnot THEN TRUE
       ELSE IF c = 42 /\ ByteAt(inp, i + 1) = 47 /\ prevIsAnnot THEN GapOK(inp, i + 2, j, nextIsAnnot, FALSE, FALSE)
       ELSE FALSE

OnlyTriviaSkipped(inp, out, upto) ==     \* upto: number of input bytes the scanner has consumed
  LET n == Len(out) IN
  /\ \A i \in 1..n :
        LET from == IF i = 1 THEN 0 ELSE out[i - 1][3] + 1
            to   == out[i][2] - 1
        IN GapOK(inp, from, to, out[i][1] = 2, i > 1 /\ out[i - 1][1] = 2, i > 1 /\ out[i - 1][1] = 2)
  /\ GapOK(inp, IF n = 0 THEN 0 ELSE out[n][3] + 1, upto - 1, FALSE, n > 0 /\ out[n][1] = 2, n > 0 /\ out[n][1] = 2)
=============================================================================
