SPECIFICATION Spec
CONSTANTS
  Threads = {t1, t2}
  Keys = {k1, k2}
  Locked = FALSE
  OpSet = {"Set", "SetToTop", "Update", "Get", "Has", "Len", "Each", "Map"}
  OpsPerThread = 2
INVARIANTS OrderIsDomain NoLostUpdate EachConsistent
CHECK_DEADLOCK FALSE
