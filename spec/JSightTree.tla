----------------------------- MODULE JSightTree -----------------------------
(***************************************************************************)
(* Lexemes -> directive forest: the context-resolution state machine of    *)
(* core/scan_project.go + core/context_processing.go.                      *)
(*                                                                         *)
(* Two formulations of where a directive lands:                            *)
(*   Decl(ch, d)  - the sentence of property C06 as a set expression       *)
(*                  (meaning layer, the oracle);                           *)
(*   Walk(ch, d)  - the loop of processContext, statement by statement     *)
(*                  (implementation layer).                                *)
(* The actions below are the implementation layer (they use Walk); the     *)
(* invariant Agree states Walk = Decl in every reachable state.  Because   *)
(* the abstract state (chain of open contexts, pending directive) is       *)
(* finite, TLC closes the reachable graph, so Agree holds for directive    *)
(* sequences of any length.  RunDecl folds Decl over a whole document and  *)
(* is what the real code is compared against.                              *)
(***************************************************************************)
EXTENDS JSightVocab, Integers

CONSTANTS
  History,      \* TRUE: keep the input sequence in `doc` (bounded / simulation configs)
  MaxLen,       \* bound on Len(doc) when History
  EmitMode,     \* "none" | "graph" (one document per sampled transition) | "docs"
  SampleMod, SamplePick,  \* graph mode: emit when Hash(state, symbol) % SampleMod = SamplePick
  ValidOnly,    \* TRUE: random walks take only steps that keep the document acceptable to the scan stage
                \* (and use no MACRO / PASTE), so that long well-nested documents reach the later stages
  MaxInc,       \* INCLUDE nesting depth explored (0: single-file documents only)
  OneKw         \* TRUE (simulation only): one random keyword per step, so that "(", ")" and the file boundaries are
                \* taken as often as a keyword

VARIABLES chain, pend, st, doc,
          inc        \* number of included files being read (scanner stack depth)
vars == <<chain, pend, st, doc, inc>>

NoDir == [k |-> "none", x |-> FALSE, p |-> FALSE, id |-> 0]
Ent(d) == [k |-> d.k, x |-> d.x, id |-> d.id]
RejectCh == << [k |-> "REJECT", x |-> FALSE, id |-> 0] >>

-----------------------------------------------------------------------------
(* Meaning layer: the declarative placement rule of C06                    *)

Max(S) == CHOOSE i \in S : \A j \in S : j <= i

HasOpenParen(ch) == \E i \in 1..Len(ch) : ch[i].x

Decl(ch, d) ==
  LET n     == Len(ch)
      expl  == {i \in 1..n : ch[i].x}
      lo    == IF expl = {} THEN 0 ELSE Max(expl)        \* innermost open parenthesised context
      cands == {i \in 1..n : i >= lo /\ Admits(ch[i].k, d.k)}
  IN IF cands # {} THEN
        LET i == Max(cands) IN                           \* nearest admitting, walking outwards
        IF d.k \in Http /\ d.p /\ ch[i].k = "URL"        \* path-bearing method in a URL block:
        THEN IF lo = 0 THEN << Ent(d) >> ELSE RejectCh   \*   top level, unless that leaves a "("
        ELSE Append(SubSeq(ch, 1, i), Ent(d))
     ELSE IF lo = 0 /\ d.k \in RootKinds THEN << Ent(d) >> ELSE RejectCh

(* Implementation layer: the loop of JApiCore.processContext               *)
RECURSIVE Walk(_, _)
Walk(ch, d) ==
  IF ch = << >> THEN IF d.k \in RootKinds THEN << Ent(d) >> ELSE RejectCh
  ELSE LET top == ch[Len(ch)] IN
       IF Admits(top.k, d.k) THEN
            IF d.k \in Http /\ d.p /\ top.k = "URL"
            THEN IF HasOpenParen(ch) THEN RejectCh ELSE << Ent(d) >>   \* HasUnclosedExplicitContext()
            ELSE Append(ch, Ent(d))
       ELSE IF top.x THEN RejectCh ELSE Walk(SubSeq(ch, 1, Len(ch) - 1), d)

\* History: until the "fix:" commit for finding F-16 the code tested only top.x here, so a
\* path-bearing method in an un-parenthesised URL inside a parenthesised MACRO was hoisted out
\* of the open parenthesis (TLC found it as a counterexample to KeepsParens).  The deviation
\* action that modelled it has been removed together with the defect.

\* closeLastExplicitContext: cut the chain just below the innermost parenthesised entry
CutAtParen(ch) ==
  LET expl == {i \in 1..Len(ch) : ch[i].x}
  IN IF expl = {} THEN RejectCh ELSE SubSeq(ch, 1, Max(expl) - 1)

-----------------------------------------------------------------------------
(* Symbols                                                                 *)

KwSyms  == {[t |-> "kw", k |-> k, p |-> p] : k \in TreeKinds, p \in BOOLEAN} \
             {[t |-> "kw", k |-> k, p |-> TRUE] : k \in TreeKinds \ Http}
OpenSym  == [t |-> "open",  k |-> "", p |-> FALSE]
CloseSym == [t |-> "close", k |-> "", p |-> FALSE]
\* file boundaries: "fb" = an INCLUDE line (the scanner is switched to a fresh file),
\* "fe" = the end of that file (the suspended scanner resumes)
FbSym == [t |-> "fb", k |-> "", p |-> FALSE]
FeSym == [t |-> "fe", k |-> "", p |-> FALSE]
Symbols == KwSyms \cup {OpenSym, CloseSym} \cup (IF MaxInc > 0 THEN {FbSym, FeSym} ELSE {})
NextId == IF History THEN Len(doc) + 1 ELSE 0

Init == chain = << >> /\ pend = NoDir /\ st = "run" /\ doc = << >> /\ inc = 0

Log(sym) == doc' = IF History THEN Append(doc, sym) ELSE doc

\* processCurrentDirective: place the pending directive (if any)
Flushed == IF pend = NoDir THEN chain ELSE Walk(chain, pend)

\* processKeyword: flush, then JSIGHT is refused while the scanner stack is not empty
Keyword(k, p) ==
  /\ st = "run"
  /\ Log([t |-> "kw", k |-> k, p |-> p])
  /\ UNCHANGED inc
  /\ IF Flushed = RejectCh
     THEN st' = "rej_ctx" /\ UNCHANGED <<chain, pend>>
     ELSE IF k = "JSIGHT" /\ inc > 0
     THEN st' = "err_jsight_inc" /\ chain' = Flushed /\ pend' = NoDir
     ELSE /\ chain' = Flushed
          /\ pend' = [k |-> k, x |-> FALSE, p |-> p, id |-> NextId]
          /\ st' = "run"

\* "(" with no directive being read is rejected at that parenthesis (until the fix for F-01 the
\* code dereferenced the nil pending directive here: state crash_nil, found by random walks)
Open ==
  /\ st = "run"
  /\ pend.k \notin NoParenKinds       \* the scanner cannot emit "(" after Description
  /\ Log(OpenSym)
  /\ UNCHANGED inc
  /\ IF pend = NoDir \/ pend.x          \* ... and so is a second "(" for one directive (fix for F-46: it used to be
     THEN st' = "err_open" /\ UNCHANGED <<chain, pend>>      \* forgotten, and one ")" then closed both)
     ELSE pend' = [pend EXCEPT !.x = TRUE] /\ UNCHANGED <<chain, st>>

Close ==
  /\ st = "run"
  /\ Log(CloseSym)
  /\ UNCHANGED inc
  /\ IF Flushed = RejectCh
     THEN st' = "rej_ctx" /\ UNCHANGED <<chain, pend>>
     ELSE IF CutAtParen(Flushed) = RejectCh
          THEN st' = "err_close" /\ chain' = Flushed /\ pend' = NoDir
          ELSE chain' = CutAtParen(Flushed) /\ pend' = NoDir /\ st' = "run"

\* processInclude: the directive being read is complete and is placed first - while the scanner stack still
\* describes the file it was written in -, then the scanner is switched; the chain of open contexts continues.
\* History: until the "fix:" commit e2e10ed (finding F-40) the directive stayed pending across the boundary and was
\* placed by the first keyword, ")" or the end of the included file, so that a "(" at the beginning of an included
\* file opened the context of a directive of the including file and a fault of that directive was reported with the
\* include chain of the included file.
FileBegin ==
  /\ st = "run" /\ inc < MaxInc
  /\ Log(FbSym)
  /\ IF Flushed = RejectCh
     THEN st' = "rej_ctx" /\ UNCHANGED <<chain, pend, inc>>
     ELSE chain' = Flushed /\ pend' = NoDir /\ inc' = inc + 1 /\ st' = "run"

\* processEOF of an included file: place the pending directive; no parenthesis may be open (not even
\* one opened by an including file); then Stack.Pop and the chain simply continues
FileEnd ==
  /\ st = "run" /\ inc > 0
  /\ Log(FeSym)
  /\ IF Flushed = RejectCh
     THEN st' = "rej_ctx" /\ UNCHANGED <<chain, pend, inc>>
     ELSE /\ chain' = Flushed /\ pend' = NoDir
          /\ IF HasOpenParen(Flushed) THEN st' = "err_fe" /\ UNCHANGED inc
             ELSE st' = "run" /\ inc' = inc - 1

Eof ==
  /\ st = "run" /\ inc = 0
  /\ UNCHANGED <<doc, inc>>
  /\ IF Flushed = RejectCh
     THEN st' = "rej_ctx" /\ UNCHANGED <<chain, pend>>
     ELSE /\ chain' = Flushed /\ pend' = NoDir
          /\ st' = IF HasOpenParen(Flushed) THEN "err_eof" ELSE "done"

\* guards of the "valid only" walks
Placeable(k, p) == /\ k \notin {"MACRO", "PASTE", "JSIGHT"}
                   /\ Flushed # RejectCh
                   /\ Walk(Flushed, [k |-> k, x |-> FALSE, p |-> p, id |-> 0]) # RejectCh
Next ==
  \/ /\ (History => Len(doc) < MaxLen)
     /\ \/ (~ValidOnly /\ ~OneKw /\ \E s \in KwSyms : Keyword(s.k, s.p))
        \/ (~ValidOnly /\ OneKw /\ LET s == RandomElement(KwSyms) IN Keyword(s.k, s.p))
        \* valid-only walks: ONE random placeable keyword, so that "(" and ")" are taken as often as keywords
        \/ (ValidOnly /\ {s \in KwSyms : Placeable(s.k, s.p)} # {}
             /\ LET s == RandomElement({x \in KwSyms : Placeable(x.k, x.p)}) IN Keyword(s.k, s.p))
        \/ ((ValidOnly => pend # NoDir /\ ~pend.x /\ AdmitsOf(pend.k) # {}) /\ Open)
        \/ ((ValidOnly => Flushed # RejectCh /\ HasOpenParen(Flushed)) /\ Close)
        \/ FileBegin
  \/ ((ValidOnly => Flushed # RejectCh /\ ~HasOpenParen(Flushed)) /\ FileEnd)
  \/ ((ValidOnly => Len(doc) >= MaxLen) /\ Eof)

Spec == Init /\ [][Next]_vars

-----------------------------------------------------------------------------
(* Design-level properties (checked on the closed graph)                   *)

TypeOK ==
  /\ st \in {"run", "rej_ctx", "err_close", "err_eof", "err_open", "err_fe", "err_jsight_inc", "done"}
  /\ inc \in 0..MaxInc
  /\ \A i \in 1..Len(chain) : chain[i].k \in TreeKinds

\* C06: the code's walk places every directive exactly where the declarative rule says
Agree == pend # NoDir => Walk(chain, pend) = Decl(chain, pend)

\* the walk never leaves an open parenthesised context: whatever is placed keeps every
\* parenthesised entry of the chain below it
KeepsParens ==
  pend # NoDir /\ Decl(chain, pend) # RejectCh /\ HasOpenParen(chain) =>
     LET i == Max({j \in 1..Len(chain) : chain[j].x})
     IN Len(Decl(chain, pend)) > i /\ SubSeq(Decl(chain, pend), 1, i) = SubSeq(chain, 1, i)

\* every entry of the chain is admitted by the entry below it (the forest is well-formed)
ChainWF == \A i \in 2..Len(chain) : Admits(chain[i-1].k, chain[i].k)
RootWF  == Len(chain) > 0 => chain[1].k \in RootKinds
DepthBound == Len(chain) <= 6

NoCrash == st # "crash_nil"

-----------------------------------------------------------------------------
(* Meaning of a whole document: fold of Decl.  doc items carry no ids; ids *)
(* are item positions.  Result: verdict, the item at fault, and for every  *)
(* keyword item the item index of its parent (0 = top level).              *)

Place(mode, ch, d) == IF mode = "decl" THEN Decl(ch, d) ELSE Walk(ch, d)

RECURSIVE Run(_, _, _, _, _, _, _, _)
Run(mode, d, i, ch, pd, par, devs, nin) ==
  LET fl    == IF pd = NoDir THEN ch ELSE Place(mode, ch, pd)
      par2  == IF pd = NoDir \/ fl = RejectCh THEN par
               ELSE [par EXCEPT ![pd.id] = IF Len(fl) = 1 THEN 0 ELSE fl[Len(fl) - 1].id]
      devs2 == devs      \* names of deviation actions taken (none are modelled at present)
      R(v, at, pr) == [v |-> v, at |-> at, par |-> pr, devs |-> devs2]
  IN
  IF i > Len(d) THEN                                   \* end of input
       IF fl = RejectCh THEN R("rej_ctx", pd.id, par)
       ELSE IF HasOpenParen(fl) THEN R("err_eof", Len(d) + 1, par2)
       ELSE R("ok", 0, par2)
  ELSE CASE d[i].t = "kw" ->
              IF fl = RejectCh THEN R("rej_ctx", pd.id, par)
              ELSE IF d[i].k = "JSIGHT" /\ nin > 0 THEN R("err_jsight_inc", i, par2)
              ELSE Run(mode, d, i + 1, fl, [k |-> d[i].k, x |-> FALSE, p |-> d[i].p, id |-> i], par2, devs2, nin)
         [] d[i].t = "open" ->
              IF pd = NoDir \/ pd.x THEN R("err_open", i, par)
              ELSE Run(mode, d, i + 1, ch, [pd EXCEPT !.x = TRUE], par, devs2, nin)
         [] d[i].t = "close" ->
              IF fl = RejectCh THEN R("rej_ctx", pd.id, par)
              ELSE IF CutAtParen(fl) = RejectCh THEN R("err_close", i, par2)
              ELSE Run(mode, d, i + 1, CutAtParen(fl), NoDir, par2, devs2, nin)
         [] d[i].t = "fb" ->
              IF fl = RejectCh THEN R("rej_ctx", pd.id, par)
              ELSE Run(mode, d, i + 1, fl, NoDir, par2, devs2, nin + 1)
         [] d[i].t = "fe" ->
              IF fl = RejectCh THEN R("rej_ctx", pd.id, par)
              ELSE IF HasOpenParen(fl) THEN R("err_fe", i, par2)
              ELSE Run(mode, d, i + 1, fl, NoDir, par2, devs2, nin - 1)

\* documents are balanced in "fb"/"fe" (the emitters append the missing "fe")
Meaning(d)  == Run("decl", d, 1, << >>, NoDir, [i \in 1..Len(d) |-> -1], {}, 0)
ImplPred(d) == Run("walk", d, 1, << >>, NoDir, [i \in 1..Len(d) |-> -1], {}, 0)

-----------------------------------------------------------------------------
(* Canonical document of a state: drives the real code into (chain, pend)  *)

RECURSIVE CanonCh(_, _)
CanonCh(ch, i) ==
  IF i > Len(ch) THEN << >>
  ELSE << [t |-> "kw", k |-> ch[i].k, p |-> (ch[i].k \in Http /\ i = 1)] >>
       \o (IF ch[i].x THEN << OpenSym >> ELSE << >>) \o CanonCh(ch, i + 1)

\* a state with nothing pending arises from ")": reproduce it by a parenthesised child that is
\* opened and closed again under the last chain entry
SomeChild(k) == CHOOSE c \in AdmitsOf(k) \ NoParenKinds : TRUE

Fbs(n) == [i \in 1..n |-> FbSym]
Fes(n) == [i \in 1..n |-> FeSym]
\* a state with inc = n is reproduced by n nested INCLUDEs at the very beginning; when nothing is pending, the last
\* of them comes after the chain instead (an INCLUDE places the directive before it - also under an open parenthesis,
\* where no ")" and no end of file could have done it)
Canon(ch, pd) ==
  LET late == pd = NoDir /\ ch # << >> /\ inc > 0
  IN Fbs(IF late THEN inc - 1 ELSE inc) \o CanonCh(ch, 1) \o
     (IF pd = NoDir
      THEN IF ch = << >> THEN << >>
           ELSE IF late THEN << FbSym >>
           ELSE IF MaxInc > 0 /\ ~HasOpenParen(ch) THEN << FbSym, FeSym >>     \* an empty included file places what is pending
           ELSE << [t |-> "kw", k |-> SomeChild(ch[Len(ch)].k), p |-> FALSE], OpenSym, CloseSym >>
      ELSE << [t |-> "kw", k |-> pd.k, p |-> pd.p] >> \o (IF pd.x THEN << OpenSym >> ELSE << >>))

Closers(n) == [i \in 1..n |-> CloseSym]

KindIdx(k) == CHOOSE i \in 1..Len(KindSeq) : KindSeq[i] = k
RECURSIVE ChHash(_, _)
ChHash(ch, i) == IF i > Len(ch) THEN 0
                 ELSE (KindIdx(ch[i].k) * (2 * i + 1) + (IF ch[i].x THEN 17 ELSE 0) + 3 * ChHash(ch, i + 1)) % 100003
SymHash(s) == IF s.t = "kw" THEN KindIdx(s.k) * 5 + (IF s.p THEN 1 ELSE 0)
              ELSE CASE s.t = "open" -> 301 [] s.t = "close" -> 302 [] s.t = "fb" -> 303 [] OTHER -> 304
Hash(s) == (ChHash(chain, 1) * 7 + (IF pend = NoDir THEN 0 ELSE KindIdx(pend.k) * 11 + (IF pend.x THEN 5 ELSE 0)
            + (IF pend.p THEN 3 ELSE 0)) + SymHash(s) * 13 + inc * 29) % SampleMod

\* the canonical document really leads to this state (checked, not assumed)
StripIds(ch) == [i \in 1..Len(ch) |-> [k |-> ch[i].k, x |-> ch[i].x]]

RECURSIVE Drive(_, _, _, _, _)
Drive(d, i, ch, pd, nin) ==     \* Walk-fold that returns the state instead of the verdict
  LET fl == IF pd = NoDir THEN ch ELSE Walk(ch, pd) IN
  IF i > Len(d) THEN <<StripIds(ch), [k |-> pd.k, x |-> pd.x, p |-> pd.p], nin>>
  ELSE CASE d[i].t = "kw"    -> Drive(d, i + 1, fl, [k |-> d[i].k, x |-> FALSE, p |-> d[i].p, id |-> i], nin)
         [] d[i].t = "open"  -> Drive(d, i + 1, ch, [pd EXCEPT !.x = TRUE], nin)
         [] d[i].t = "close" -> Drive(d, i + 1, CutAtParen(fl), NoDir, nin)
         [] d[i].t = "fb"    -> Drive(d, i + 1, fl, NoDir, nin + 1)
         [] d[i].t = "fe"    -> Drive(d, i + 1, fl, NoDir, nin - 1)

CanonReaches ==
  st = "run" =>
    Drive(Canon(chain, pend), 1, << >>, NoDir, 0) =
      <<StripIds(chain), [k |-> pend.k, x |-> pend.x, p |-> pend.p], inc>>

NParens(ch, pd) == Cardinality({i \in 1..Len(ch) : ch[i].x}) + (IF pd.x THEN 1 ELSE 0)

-----------------------------------------------------------------------------
(* C08 at the level of symbols: INCLUDE is textual inclusion.                    *)
(* A document is "clean" when every included file holds a run of complete         *)
(* directives that stands outside every parenthesis: no parenthesis is open at    *)
(* an INCLUDE or at the end of an included file, no "(" directly follows either    *)
(* boundary (it would belong to a directive on the other side), and JSIGHT stays  *)
(* in the root file.  For clean documents the meaning of the multi-file document  *)
(* is the meaning of the document with the boundaries erased.                     *)

IsBoundary(s) == s.t \in {"fb", "fe"}
Flat(d) == SelectSeq(d, LAMBDA s : ~IsBoundary(s))
CountT(d, n, t) == Cardinality({j \in 1..n : d[j].t = t})
ParenDepth(d, n) == CountT(d, n, "open") - CountT(d, n, "close")
IncDepth(d, n)   == CountT(d, n, "fb") - CountT(d, n, "fe")
\* position of item i of d in Flat(d) (for items that are not boundaries)
FlatPos(d, i) == Cardinality({j \in 1..i : ~IsBoundary(d[j])})

CleanIncludes(d) ==
  \A i \in 1..Len(d) :
     /\ IsBoundary(d[i]) => /\ ParenDepth(d, i - 1) = 0
                            /\ (i < Len(d) => d[i + 1].t # "open")
     /\ (d[i].t = "kw" /\ d[i].k = "JSIGHT") => IncDepth(d, i - 1) = 0
     /\ d[i].t = "close" => ParenDepth(d, i - 1) > 0      \* no stray ")" (it would be judged at different places)

InliningOK(d) ==
  CleanIncludes(d) =>
    LET m == Meaning(d)
        f == Meaning(Flat(d))
    IN /\ m.v = f.v
       /\ m.v = "ok" => \A i \in 1..Len(d) :
                            d[i].t = "kw" =>
                              f.par[FlatPos(d, i)] = (IF m.par[i] = 0 THEN 0 ELSE FlatPos(d, m.par[i]))

RECURSIVE OpenIncs(_)
OpenIncs(d) == IF d = << >> THEN 0
               ELSE (CASE Head(d).t = "fb" -> 1 [] Head(d).t = "fe" -> -1 [] OTHER -> 0) + OpenIncs(Tail(d))
\* the files that are still being read end where the document ends
Balanced(d) == LET n == OpenIncs(d) IN IF n > 0 THEN d \o Fes(n) ELSE d
EmitDoc(d0) == LET d == Balanced(d0) IN
               PrintT("MBT " \o ToJson([doc |-> d, out |-> Meaning(d), impl |-> ImplPred(d),
                                         clean |-> CleanIncludes(d) /\ OpenIncs(d0) = 0]))

\* theorem checked on every document the docs mode reaches (all sequences up to the bound, random walks)
InliningThm ==
  (History /\ st \in {"done", "err_eof", "rej_ctx", "err_close", "err_open", "err_fe", "err_jsight_inc"}) =>
     InliningOK(Balanced(doc))

\* graph mode: one document per sampled (state, symbol) pair: canonical prefix, the symbol,
\* then enough ")" to let the scan stage finish so that the forest becomes observable
EmitGraph ==
  (EmitMode = "graph" /\ st = "run") =>
     \A s \in Symbols :
        (Hash(s) = SamplePick /\ ~(s.t = "open" /\ pend.k \in NoParenKinds)
           /\ ~(s.t = "fb" /\ inc >= MaxInc) /\ ~(s.t = "fe" /\ inc = 0)) =>
           EmitDoc(Canon(chain, pend) \o << s >> \o
                   Closers(NParens(chain, pend) + (IF s.t = "open" THEN 1 ELSE 0)))

\* docs mode: emit the history of every terminal behaviour or of every behaviour at the bound
EmitDocs ==
  (EmitMode = "docs" /\ History /\ st \in {"done", "err_eof", "rej_ctx", "err_close", "err_open", "err_fe", "err_jsight_inc"}) =>
     EmitDoc(IF ValidOnly THEN doc \o Closers(NParens(chain, NoDir)) ELSE doc)

Emit == EmitGraph /\ EmitDocs
=============================================================================
