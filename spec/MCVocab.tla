------------------------------ MODULE MCVocab ------------------------------
(* Exports the vocabulary tables as JSON for the cell-by-cell comparison with the real code *)
EXTENDS JSightVocab
VARIABLE x
Init == x = 0 /\ PrintT("MBT " \o ToJson(VocabExport))
Next == FALSE /\ x' = x
Spec == Init /\ [][Next]_x
=============================================================================
