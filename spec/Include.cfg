SPECIFICATION Spec
CONSTANTS
  MaxItems = 2
  MaxMain = 2
  SampleMod = 1000000
  SamplePick = 0
INVARIANTS
  ImplMatchesMeaning
  SuspendedDistinct
  DepthBound
  StatBeforeRead
  Confined
  Finite
  Emit
CHECK_DEADLOCK FALSE
