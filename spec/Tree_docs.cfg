SPECIFICATION Spec
CHECK_DEADLOCK FALSE
INVARIANTS TypeOK Agree Emit InliningThm
