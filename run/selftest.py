"""bin/check selftest: demonstrations that the machinery is bound to the code and not vacuous.

A. Every 'fix:' commit of /repo listed as fixed in KNOWN_FINDINGS.json is reverted in a scratch
   worktree (outside /repo and /verif, removed afterwards) and the check of the property it
   was filed under is run against that tree: it must report a VIOLATION (exit 1).  A reverted
   fix is a realistic change that compiles and passes the repository's own tests.
B. Corrupted traces: one field of a recorded real trace is changed and the TLC judge must
   reject it (TraceTree, TraceLex, TraceMap, JSightText tables).
C. Negative specification configs must fail (OrderedMap with Locked = FALSE).
Results are written to evidence/selftest.json (informational; not a property check)."""
import json
import os
import shutil
import subprocess
import sys
import tempfile
import time

import common
from common import VERIF, tlc


def sh(cmd, cwd=None, env=None, timeout=3600):
    p = subprocess.run(cmd, cwd=cwd, env=env, capture_output=True, text=True, timeout=timeout)
    return p.returncode, p.stdout + p.stderr


def revert_mutants(only=None, tier="quick"):
    known = json.load(open(os.path.join(VERIF, "KNOWN_FINDINGS.json")))["findings"]
    res = []
    base = tempfile.mkdtemp(prefix="vst")
    try:
        for k in known:
            if k.get("status") != "fixed" or (only and k["id"] not in only):
                continue
            if k.get("revert_observable") is False:
                res.append({"finding": k["id"], "commit": k["commit"], "result": "SKIPPED", "why": k.get("revert_note", "")})
                continue
            wt = os.path.join(base, k["id"])
            rc, out = sh(["git", "-C", "/repo", "worktree", "add", "--detach", wt, "HEAD"])
            if rc != 0:
                res.append({"finding": k["id"], "result": "worktree failed", "detail": out[-300:]})
                continue
            try:
                rc, out = sh(["git", "-C", wt, "revert", "-n", k["commit"]])
                if rc != 0:
                    res.append({"finding": k["id"], "commit": k["commit"], "result": "revert does not apply cleanly"})
                    continue
                rc, out = sh(["go", "build", "./..."], cwd=wt, env=common.GOENV)
                if rc != 0:
                    res.append({"finding": k["id"], "commit": k["commit"], "result": "reverted tree does not build"})
                    continue
                detected = []
                for pid in k.get("detect_with") or k["properties"][:1]:
                    t0 = time.time()
                    env = dict(os.environ, VERIF_REPO=wt, VERIF_SEED=os.environ.get("VERIF_SEED", "1"),
                               VERIF_EVIDENCE_DIR=os.path.join(base, "evidence"))
                    rc, out = sh([os.path.join(VERIF, "bin", "check"), pid, "--tier", tier], cwd=VERIF, env=env, timeout=5400)
                    detected.append({"check": pid, "exit": rc, "violation_lines": out.count("VIOLATION property="),
                                     "wall_s": round(time.time() - t0, 1),
                                     "first": next((ln for ln in out.splitlines() if ln.startswith("  violation class")), "")[:200]})
                ok = any(d["exit"] == 1 for d in detected)
                res.append({"finding": k["id"], "commit": k["commit"], "result": "DETECTED" if ok else "MISSED", "runs": detected})
                print("%s revert of %s: %s %s" % (k["id"], k["commit"], "DETECTED" if ok else "MISSED",
                                                  [(d["check"], d["exit"]) for d in detected]))
                sys.stdout.flush()
            finally:
                sh(["git", "-C", "/repo", "worktree", "remove", "--force", wt])
    finally:
        shutil.rmtree(base, ignore_errors=True)
        sh(["git", "-C", "/repo", "worktree", "prune"])
        # evidence files were rewritten by runs against mutated trees: restore them from the real tree
    return res


def corrupted_traces():
    res = []
    # TraceMap: a recorded history with one wrong Len result must be rejected
    common.build_harness()
    obs = common.harness("omap", [{"id": "h", "kind": "Servers", "goroutines": 4, "rounds": 4, "ops": 4, "keys": ["k1", "k2"], "seed": 3}])["h"]
    import c16
    lines = c16.history_lines(obs)
    good = tlc("TraceMap", "TraceMap.cfg", workers=1, dfs=True, files={"map_trace.ndjson": "\n".join(json.dumps(x) for x in lines) + "\n"})
    bad_lines = [dict(x) for x in lines]
    for x in bad_lines:
        if x["e"] == "ret" and x["r"] not in ("ok", "", "none", "true", "false") and x["r"].isdigit():
            x["r"] = "999"        # no Get/Len of this driver can return 999
            break
    else:
        bad_lines[-1]["v"] += 1
    bad = tlc("TraceMap", "TraceMap.cfg", workers=1, dfs=True, files={"map_trace.ndjson": "\n".join(json.dumps(x) for x in bad_lines) + "\n"})
    res.append({"trace": "TraceMap", "original_accepted": good.violated == "NotDone", "corrupted_rejected": bad.violated != "NotDone"})
    # TraceTree: a recorded forest with one wrong parent must be reported
    import fixtures
    recs, _ = fixtures.tree_records([("t", b"JSIGHT 0.3\nURL /a\n  GET\n    200 any\nTYPE @t any\n")])
    nd = json.dumps(recs[0]) + "\n"
    good = tlc("TraceTree", "TraceTree.cfg", workers=1, files={"tree_traces.ndjson": nd})
    r2 = json.loads(json.dumps(recs[0]))
    r2["par"][3] = 1       # the response is said to hang under the URL
    bad = tlc("TraceTree", "TraceTree.cfg", workers=1, files={"tree_traces.ndjson": json.dumps(r2) + "\n"})
    res.append({"trace": "TraceTree", "original_accepted": not good.mbt, "corrupted_rejected": bool(bad.mbt)})
    # TraceLex: a lexeme shifted by one byte must be reported by the gate
    import c14
    inp = b"JSIGHT 0.3\nGET /a // note\n  200 any\n"
    o = common.harness("lex", [{"id": "x", "b64": common.b64(inp)}])
    rec = c14.lex_records([("x", inp)], o)[0]
    good = tlc("TraceLex", "TraceLex.cfg", workers=1, files={"lex_traces.ndjson": json.dumps(rec) + "\n"})
    rec2 = json.loads(json.dumps(rec))
    rec2["real"][3][2] -= 1     # the path parameter loses its last byte
    bad = tlc("TraceLex", "TraceLex.cfg", workers=1, files={"lex_traces.ndjson": json.dumps(rec2) + "\n"})
    res.append({"trace": "TraceLex", "original_accepted": not good.mbt,
                "corrupted_rejected": any(m["gate"] for m in bad.mbt)})
    # JSightText: a wrong line number in the location table must be reported
    import c02
    import textfn
    pairs = [("a\nb\nc", 4)]
    rows = c02.location_rows(pairs)
    cons = {"Fn": '"location"', "Alphabet": textfn.tla_set(["a", "b", "c", "\n"]), "MaxLen": "5"}
    good = tlc("JSightText", "Text.cfg", workers=1, files={"text_table.ndjson": json.dumps(rows[0]) + "\n"}, consts=cons)
    rows[0]["line"] += 1
    bad = tlc("JSightText", "Text.cfg", workers=1, files={"text_table.ndjson": json.dumps(rows[0]) + "\n"}, consts=cons)
    res.append({"trace": "JSightText location", "original_accepted": not good.mbt, "corrupted_rejected": bool(bad.mbt)})
    return res


def negative_configs():
    res = []
    neg = tlc("OrderedMap", "OrderedMap_unlocked.cfg", timeout=600)
    res.append({"config": "OrderedMap_unlocked.cfg", "rejected": bool(neg.violated), "by": neg.violated})
    return res


def main(tier):
    only = os.environ.get("SELFTEST_ONLY")
    out = {"corrupted_traces": corrupted_traces(), "negative_configs": negative_configs()}
    for r in out["corrupted_traces"] + out["negative_configs"]:
        print(r)
    if os.environ.get("SELFTEST_SKIP_REVERTS") != "1":
        out["reverted_fixes"] = revert_mutants(only.split(",") if only else None, tier)
    os.makedirs(common.EVID, exist_ok=True)
    with open(os.path.join(common.EVID, "selftest.json"), "w") as fh:
        json.dump(out, fh, indent=1)
    bad = [r for r in out["corrupted_traces"] if not (r["original_accepted"] and r["corrupted_rejected"])]
    bad += [r for r in out["negative_configs"] if not r["rejected"]]
    bad += [r for r in out.get("reverted_fixes", []) if r["result"] == "MISSED"]
    print("selftest: %d problems" % len(bad))
    return 0 if not bad else 3
