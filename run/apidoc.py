"""Renderer and projector for abstract API documents of spec/JSightApi.tla.

render(doc, style) -> (files, spans); project(json_text) -> abstract catalog in exactly the
vocabulary of JSightApi!Catalog, so that the comparison is plain equality of JSON values.
The expected side always comes from TLC."""
import json

IND = "  "


class Style:
    """surface choices that must not matter (C05); default = canonical"""

    def __init__(self, nl="\n", indent=IND, quote_all=False, comments=False, blank=False, trailing=False, rnd=None):
        self.nl, self.indent, self.quote_all = nl, indent, quote_all
        self.comments, self.blank, self.trailing, self.rnd = comments, blank, trailing, rnd


def body_lines(b):
    """canonical multi-line layout of an abstract body (accepted by the schema library)"""
    k = b["k"]
    if k == "obj":
        head = "{"
        if b["allOf"]:
            if len(b["allOf"]) == 1:
                head += ' // {allOf: "%s"}' % b["allOf"][0]
            else:
                head += " // {allOf: [%s]}" % ", ".join('"%s"' % n for n in b["allOf"])
        lines = [head]
        n = len(b["props"])
        for i, p in enumerate(b["props"]):
            comma = "," if i < n - 1 else ""
            vk = p["vk"]
            if vk == "int":
                v, rule = "1", ""
            elif vk == "str":
                v, rule = '"v"', ""
            elif vk == "ref":
                v, rule = p["vn"], ""
            elif vk == "arr":
                v, rule = "[%s]" % p["vn"], ""
            elif vk == "enum":
                v, rule = '"x"', " // {enum: %s}" % p["vn"]
            else:
                raise ValueError(vk)
            lines.append('  "%s": %s%s%s' % (p["key"], v, comma, rule))
        lines.append("}")
        return lines
    if k == "ref":
        return [b["n"]]
    if k == "arr":
        return ["[%s]" % b["n"]]
    if k == "int":
        return ["1"]
    if k == "str":
        return ['"v"']
    if k == "regex":
        return ["/ab+/"]
    raise ValueError(k)


class Out:
    def __init__(self, style):
        self.parts = []
        self.pos = 0
        self.style = style
        self.spans = []   # (label, begin, end) of directive keyword..end of directive text

    def line(self, depth, text, label=None):
        st = self.style
        pre = st.indent * depth
        s = pre + text + ((" " * 2) if st.trailing else "") + st.nl
        if label is not None:
            self.spans.append([label, self.pos + len(pre.encode()), None])
        self.parts.append(s)
        self.pos += len(s.encode())

    def lines(self, depth, ll):
        for x in ll:
            self.line(depth, x)

    def close_span(self):
        pass

    def text(self):
        return "".join(self.parts)


def annot(a):
    return (" // " + a) if a else ""


def q(s, style):
    return '"%s"' % s


def render_spec(o, depth, kw, ann, spec, headers, hdr_body):
    """Request / response directive with its body in the given form"""
    b = spec["b"]
    form = spec["form"]
    k = b["k"]
    if form == "param":
        if k in ("ref",):
            o.line(depth, "%s %s%s" % (kw, b["n"], ann), kw)
        elif k == "arr":
            o.line(depth, "%s [%s]%s" % (kw, b["n"], ann), kw)
        else:
            o.line(depth, "%s %s%s" % (kw, k, ann), kw)   # any / empty
        if headers:
            o.line(depth + 1, "Headers", "Headers")
            o.lines(depth + 1, body_lines(hdr_body))
    elif form == "inline":
        if k == "regex":
            o.line(depth, "%s regex%s" % (kw, ann), kw)
        else:
            o.line(depth, "%s%s" % (kw, ann), kw)
        o.lines(depth, body_lines(b))
        if headers:
            o.line(depth + 1, "Headers", "Headers")
            o.lines(depth + 1, body_lines(hdr_body))
    elif form == "child":
        o.line(depth, "%s%s" % (kw, ann), kw)
        if headers:
            o.line(depth + 1, "Headers", "Headers")
            o.lines(depth + 1, body_lines(hdr_body))
        if k == "ref":
            o.line(depth + 1, "Body %s" % b["n"], "Body")
        elif k == "arr":
            o.line(depth + 1, "Body [%s]" % b["n"], "Body")
        elif k in ("any", "empty"):
            o.line(depth + 1, "Body %s" % k, "Body")
        elif k == "regex":
            o.line(depth + 1, "Body regex", "Body")
            o.lines(depth + 1, body_lines(b))
        else:
            o.line(depth + 1, "Body", "Body")
            o.lines(depth + 1, body_lines(b))
    else:
        raise ValueError(form)


HDR = {"k": "obj", "n": "", "props": [{"key": "h1", "vk": "str", "vn": ""}], "allOf": []}
QRY = {"k": "obj", "n": "", "props": [{"key": "q1", "vk": "int", "vn": ""}], "allOf": []}


def render_pathdecl(o, depth, names):
    if names:
        o.line(depth, "Path", "Path")
        ll = ["{"] + ['  "%s": 1%s' % (n, "," if i < len(names) - 1 else "") for i, n in enumerate(names)] + ["}"]
        o.lines(depth, ll)


def path_str(p):
    return "".join("/" + s for s in p)


def render_method(o, depth, m, with_path):
    head = m["verb"] + ((" " + path_str(m["path"])) if with_path else "")
    o.line(depth, head + annot(m["annot"]), m["verb"])
    d = depth + 1
    if m["desc"]:
        o.line(d, "Description", "Description")
        o.line(d + 1, m["desc"])
    if m["tags"]:
        o.line(d, "Tags " + " ".join(m["tags"]), "Tags")
    render_pathdecl(o, d, m.get("pathdecl") or [])
    if m["query"]:
        o.line(d, 'Query "q1=1"' if m["query"] == "example" else "Query", "Query")
        o.lines(d, body_lines(QRY))
    if m["req"]["form"] != "none":
        render_spec(o, d, "Request", "", m["req"], m["reqHeaders"], HDR)
    for r in m["resps"]:
        render_spec(o, d, r["code"], annot(r["annot"]), r["spec"], r["headers"], HDR)


def render_block(o, b, depth=0):
    t = b["t"]
    if t == "info":
        o.line(depth, "INFO", "INFO")
        if b["title"]:
            o.line(depth + 1, 'Title "%s"' % b["title"], "Title")
        if b["version"]:
            o.line(depth + 1, "Version %s" % b["version"], "Version")
        if b["desc"]:
            o.line(depth + 1, "Description", "Description")
            o.line(depth + 2, b["desc"])
    elif t == "server":
        o.line(depth, "SERVER %s%s" % (b["name"], annot(b["annot"])), "SERVER")
        o.line(depth + 1, 'BaseUrl "%s"' % b["base"], "BaseUrl")
    elif t == "type":
        k = b["body"]["k"]
        if k == "regex":
            o.line(depth, "TYPE %s regex%s" % (b["name"], annot(b["annot"])), "TYPE")
            o.lines(depth, body_lines(b["body"]))
        elif k in ("any", "empty"):
            o.line(depth, "TYPE %s %s%s" % (b["name"], k, annot(b["annot"])), "TYPE")
        else:
            o.line(depth, "TYPE %s%s" % (b["name"], annot(b["annot"])), "TYPE")
            o.lines(depth, body_lines(b["body"]))
    elif t == "enum":
        o.line(depth, "ENUM %s%s" % (b["name"], annot(b["annot"])), "ENUM")
        o.lines(depth, ["[", '  "x",', '  "y"', "]"])
    elif t == "tag":
        o.line(depth, "TAG %s%s" % (b["name"], annot(b["annot"])), "TAG")
        if b["desc"]:
            o.line(depth + 1, "Description", "Description")
            o.line(depth + 2, b["desc"])
    elif t == "url":
        o.line(depth, "URL " + path_str(b["path"]), "URL")
        if b["tags"]:
            o.line(depth + 1, "Tags " + " ".join(b["tags"]), "Tags")
        render_pathdecl(o, depth + 1, b["pathdecl"])
        for m in b["methods"]:
            render_method(o, depth + 1, m, False)
    elif t == "method":
        render_method(o, depth, b["m"], True)
    elif t == "rpc":
        o.line(depth, "URL " + path_str(b["path"]), "URL")
        o.line(depth + 1, "Protocol json-rpc-2.0", "Protocol")
        if b["tags"]:
            o.line(depth + 1, "Tags " + " ".join(b["tags"]), "Tags")
        for m in b["methods"]:
            o.line(depth + 1, "Method %s%s" % (m["name"], annot(m["annot"])), "Method")
            if m["desc"]:
                o.line(depth + 2, "Description", "Description")
                o.line(depth + 3, m["desc"])
            if m["tags"]:
                o.line(depth + 2, "Tags " + " ".join(m["tags"]), "Tags")
            if m["params"]["k"] != "none":
                o.line(depth + 2, "Params", "Params")
                o.lines(depth + 2, body_lines(m["params"]))
            if m["result"]["k"] != "none":
                o.line(depth + 2, "Result", "Result")
                o.lines(depth + 2, body_lines(m["result"]))
    elif t == "macro":
        o.line(depth, "MACRO %s" % b["name"], "MACRO")
        for x in b["items"]:
            render_block(o, x, depth + 1)
    elif t == "paste":
        o.line(depth, "PASTE %s" % b["name"], "PASTE")
    elif t == "raw":
        o.lines(depth, b["lines"])
    else:
        raise ValueError(t)


def render(doc, style=None, header=True):
    """Returns (text, blockspans) with blockspans[i] = (begin, end) byte range of block i"""
    o = Out(style or Style())
    if header:
        o.line(0, "JSIGHT 0.3", "JSIGHT")
    bs = []
    for b in doc:
        b0 = o.pos
        render_block(o, b)
        bs.append((b0, o.pos))
    return o.text(), bs, o.spans


# --------------------------------------------------------------------------------------
# projection of the real catalog JSON


class DupKey(Exception):
    pass


def parse_pairs(text):
    """JSON -> nested structure where objects are lists of (key, value) pairs wrapped in Obj"""
    dups = []

    def hook(pairs):
        seen = set()
        for k, _ in pairs:
            if k in seen:
                dups.append(k)
            seen.add(k)
        return Obj(pairs)
    val = json.loads(text, object_pairs_hook=hook)
    return val, dups


class Obj:
    def __init__(self, pairs):
        self.pairs = pairs
        self.d = dict(pairs)

    def get(self, k, default=None):
        return self.d.get(k, default)

    def keys(self):
        return [k for k, _ in self.pairs]

    def __contains__(self, k):
        return k in self.d


def sv(schema):
    """real schema JSON -> SchemaView"""
    notation = schema.get("notation")
    content = schema.get("content")
    if notation == "jsight" and isinstance(content, Obj):
        return sv_content(notation, content)
    if notation == "regex":
        return {"notation": "regex", "tt": "", "type": "", "scalar": content if isinstance(content, str) else "", "children": []}
    return {"notation": notation, "tt": "", "type": "", "scalar": "", "children": []}


def child_view(c):
    tt = c.get("tokenType", "")
    scalar = c.get("scalarValue", "")
    if tt == "array":
        items = c.get("children") or []
        scalar = items[0].get("type", "") if items else ""
    return {"key": c.get("key", ""), "tt": tt, "type": c.get("type", ""), "scalar": scalar,
            "inh": c.get("inheritedFrom", "")}


def sv_content(notation, c):
    tt = c.get("tokenType", "")
    scalar = c.get("scalarValue", "")
    children = []
    if tt == "object":
        children = [child_view(x) for x in (c.get("children") or [])]
    elif tt == "array":
        items = c.get("children") or []
        scalar = items[0].get("type", "") if items else ""
    return {"notation": notation, "tt": tt, "type": c.get("type", ""), "scalar": scalar, "children": children}


def project(text):
    """-> (abstract catalog, problems) ; problems are C09-style observations"""
    val, dups = parse_pairs(text)
    cat = {"info": [], "servers": [], "types": [], "enums": [], "tags": [], "interactions": []}
    info = val.get("info")
    if info is not None:
        cat["info"].append({"title": info.get("title", ""), "version": info.get("version", ""),
                            "desc": info.get("description", "")})
    for name, s in (val.get("servers").pairs if val.get("servers") else []):
        cat["servers"].append({"name": name, "annot": s.get("annotation", ""), "base": s.get("baseUrl", "")})
    for name, t in (val.get("userTypes").pairs if val.get("userTypes") else []):
        cat["types"].append({"name": name, "annot": t.get("annotation", ""), "schema": sv(t.get("schema"))})
    for name, e in (val.get("userEnums").pairs if val.get("userEnums") else []):
        vals = [c.get("scalarValue", "") for c in (e.get("value").get("children") or [])]
        cat["enums"].append({"name": name, "annot": e.get("annotation", ""), "values": vals})
    for name, t in (val.get("tags").pairs if val.get("tags") else []):
        groups = {g.get("protocol"): g.get("interactions") for g in t.get("interactionGroups")}
        cat["tags"].append({"name": t.get("name"), "title": t.get("title"), "desc": t.get("description", ""),
                            "http": groups.get("http", []), "rpc": groups.get("json-rpc-2.0", []),
                            "_key": name})
    for key, it in (val.get("interactions").pairs if val.get("interactions") else []):
        e = {"id": it.get("id"), "proto": it.get("protocol"), "path": it.get("path"),
             "annot": it.get("annotation", ""), "desc": it.get("description", ""), "tags": it.get("tags"),
             "query": [], "request": [], "responses": [], "pathvars": [], "params": [], "result": [], "_key": key}
        if it.get("protocol") == "http":
            e["method"] = it.get("httpMethod")
            qy = it.get("query")
            if qy is not None:
                e["query"].append({"format": qy.get("format", ""), "example": qy.get("example", ""),
                                   "schema": sv(qy.get("schema"))})
            rq = it.get("request")
            if rq is not None:
                body = rq.get("body")
                hd = rq.get("headers")
                e["request"].append({"format": body.get("format") if body else None,
                                     "schema": sv(body.get("schema")) if body else None,
                                     "headers": [sv(hd.get("schema"))] if hd else []})
            for r in it.get("responses") or []:
                body = r.get("body")
                hd = r.get("headers")
                e["responses"].append({"code": r.get("code"), "annot": r.get("annotation", ""),
                                       "format": body.get("format") if body else None,
                                       "schema": sv(body.get("schema")) if body else None,
                                       "headers": [sv(hd.get("schema"))] if hd else []})
            pv = it.get("pathVariables")
            if pv is not None:
                e["pathvars"] = [c.get("key") for c in pv.get("schema").get("content").get("children")]
        else:
            e["method"] = it.get("method")
            if it.get("params") is not None:
                e["params"].append(sv(it.get("params").get("schema")))
            if it.get("result") is not None:
                e["result"].append(sv(it.get("result").get("schema")))
        cat["interactions"].append(e)
    return cat, dups, val


def strip_private(x):
    if isinstance(x, dict):
        return {k: strip_private(v) for k, v in x.items() if not k.startswith("_")}
    if isinstance(x, list):
        return [strip_private(v) for v in x]
    return x


def first_diff(a, b, path=""):
    """first difference between two JSON values, as a readable string; None if equal"""
    if type(a) != type(b):
        return "%s: expected %r, observed %r" % (path, a, b)
    if isinstance(a, dict):
        for k in a:
            if k not in b:
                return "%s.%s: missing in observed" % (path, k)
            d = first_diff(a[k], b[k], path + "." + k)
            if d:
                return d
        for k in b:
            if k not in a:
                return "%s.%s: unexpected in observed (%r)" % (path, k, b[k])
        return None
    if isinstance(a, list):
        for i in range(min(len(a), len(b))):
            d = first_diff(a[i], b[i], "%s[%d]" % (path, i))
            if d:
                return d
        if len(a) != len(b):
            return "%s: expected %d entries %s, observed %d entries %s" % (
                path, len(a), json.dumps(a)[:200], len(b), json.dumps(b)[:200])
        return None
    if a != b:
        return "%s: expected %r, observed %r" % (path, a, b)
    return None
