"""Renderer and projector for abstract API documents of spec/JSightApi.tla.

render(doc, style) -> (files, spans); project(json_text) -> abstract catalog in exactly the
vocabulary of JSightApi!Catalog, so that the comparison is plain equality of JSON values.
The expected side always comes from TLC."""
import json

IND = "  "


class Style:
    """surface choices that must not matter (C05); default = canonical.
    comments / blank: probability of inserting a comment / blank line before a directive
    keyword line (never directly after bare Description text, where it would be content);
    quote: probability of quoting a parameter that needs no quotes; parens: probability of
    putting the children of a directive in explicit parentheses; late: probability of writing the
    URL-level Tags / Path of a URL block AFTER its methods (the last method is then closed by an
    explicit parenthesis - otherwise the directives would belong to that method)."""

    def __init__(self, nl="\n", indent=IND, comments=0.0, blank=0.0, trailing=False, quote=0.0, parens=0.0,
                 rnd=None, tabs_between=False, late=0.0, pathref=0.0, pathrules=0.0):
        self.nl, self.indent = nl, indent
        self.comments, self.blank, self.trailing = comments, blank, trailing
        self.quote, self.parens, self.rnd = quote, parens, rnd
        self.tabs_between = tabs_between
        self.late = late
        # pathref: probability of writing a Path body as the NAME of a type that holds the properties (directly, through an
        # alias type, or with one property inherited through allOf); the types are renderer-private ("@zr_..."), appended
        # to the document and dropped again by project()
        self.pathref = pathref
        # pathrules: probability that a property of a Path body carries a rule / note comment (the parameter is bound all the same)
        self.pathrules = pathrules

    def flip(self, p):
        return p > 0 and self.rnd is not None and self.rnd.random() < p


def body_lines(b):
    """canonical multi-line layout of an abstract body (accepted by the schema library)"""
    k = b["k"]
    if k == "obj":
        head = "{"
        if b["allOf"]:
            if len(b["allOf"]) == 1:
                head += ' // {allOf: "%s"}' % b["allOf"][0]
            else:
                head += " // {allOf: [%s]}" % ", ".join('"%s"' % n for n in b["allOf"])
        lines = [head]
        n = len(b["props"])
        for i, p in enumerate(b["props"]):
            comma = "," if i < n - 1 else ""
            vk = p["vk"]
            if vk == "int":
                v, rule = "1", ""
            elif vk == "str":
                v, rule = '"v"', ""
            elif vk == "ref":
                v, rule = p["vn"], ""
            elif vk == "arr":
                v, rule = "[%s]" % p["vn"], ""
            elif vk == "enum":
                v, rule = '"x"', " // {enum: %s}" % p["vn"]
            elif vk == "or":
                v, rule = "@a | @b", ""
            elif vk == "minmax":
                v, rule = "3", " // {min: 1, max: 9}"
            elif vk == "null":
                v, rule = "null", ""
            elif vk == "ints":
                v, rule = "[1, 2]", ""
            elif vk == "skey":
                lines.append('  %s: 1%s' % (p["key"], comma))
                continue
            elif vk == "opt":
                v, rule = "1", " // {optional: true}"
            elif vk == "note":
                v, rule = '"v"', " // a note"
            elif vk == "nobj":
                lines.append('  "%s": { // {allOf: "%s"}' % (p["key"], p["vn"]))
                lines.append('    "nk": 1')
                lines.append('  }' + comma)
                continue
            else:
                raise ValueError(vk)
            lines.append('  "%s": %s%s%s' % (p["key"], v, comma, rule))
        lines.append("}")
        return lines
    if k == "ref":
        return [b["n"]]
    if k == "arr":
        return ["[%s]" % b["n"]]
    if k == "int":
        return ["1"]
    if k == "str":
        return ['"v"']
    if k == "regex":
        return ["/ab+/"]
    raise ValueError(k)


class Out:
    def __init__(self, style):
        self.parts = []
        self.pos = 0
        self.style = style
        self.spans = []   # [label, keyword begin, depth]
        self.after_text = True   # nothing emitted yet / last line was free text: no trivia here
        self.private_types = []  # lines of renderer-private TYPE blocks to append

    def raw(self, s):
        self.parts.append(s)
        self.pos += len(s.encode())

    def trivia(self, depth):
        st = self.style
        if self.after_text:
            return
        if st.flip(st.blank):
            self.raw(st.nl if not st.flip(0.5) else "   " + st.nl)
        if st.flip(st.comments):
            kind = st.rnd.randrange(5)
            pre = st.indent * depth
            if kind == 0:
                self.raw(pre + "# a comment GET /x" + st.nl)
            elif kind == 1:
                self.raw(pre + "### block" + st.nl + "URL /zz" + st.nl + pre + "###" + st.nl)
            elif kind == 2:
                self.raw(pre + "###one-line block### # and a line comment" + st.nl)
            elif kind == 3:
                self.raw(pre + "#" + st.nl)              # a comment without text
            else:
                self.raw(pre + "##" + st.nl + pre + "# " + st.nl)

    def line(self, depth, text, label=None, free_text=False):
        st = self.style
        pre = st.indent * depth
        if label is not None:
            self.trivia(depth)
            self.spans.append([label, self.pos + len(pre.encode()), depth])
        if st.tabs_between and label is not None and " " in text and not free_text:
            # the blank between the keyword and what follows it written as a TAB (and the later ones as two blanks where they
            # separate parameters - not inside quotes or annotations)
            kw, rest = text.split(" ", 1)
            text = kw + "\t" + rest
        s = pre + text + (("  ") if st.trailing and not free_text else "") + st.nl
        self.raw(s)
        self.after_text = free_text

    def lines(self, depth, ll):
        for x in ll:
            self.line(depth, x)

    def text(self):
        return "".join(self.parts)

    def par(self, s):
        """a parameter that needs no quotes, possibly quoted"""
        return '"%s"' % s if self.style.flip(self.style.quote) else s

    def open(self, depth, force=False):
        """children in explicit parentheses? returns True if opened"""
        if force or self.style.flip(self.style.parens):
            self.line(depth, "(")
            return True
        return False

    def close(self, depth, opened):
        if opened:
            self.line(depth, ")")


# an annotation text with blanks that are not ASCII blanks (no-break space, ideographic space, em space, vertical tab):
# they are characters of the text, not whitespace to collapse
WIDE_TEXT = "Prix\u00a0: 10\u00a0\u20ac \u3000x\u2003y\x0bz"


def unwide(x):
    """projected catalog with the rendering of the abstract annotation "wide spaces" mapped back to it"""
    if isinstance(x, dict):
        return {k: unwide(v) for k, v in x.items()}
    if isinstance(x, list):
        return [unwide(v) for v in x]
    return "wide spaces" if x == WIDE_TEXT else x


def annot(a):
    if a == "wide spaces":
        return " // " + WIDE_TEXT
    if a == "note *":                  # a block annotation whose text ends with an asterisk: closed by the "*/" right after it
        return " /* note **/"
    if a == "collapsed text":          # written with runs of blanks and a tab: the catalog must hold the collapsed form
        return " //  collapsed  \t text  "
    return (" // " + a) if a else ""


def q(s, style):
    return '"%s"' % s


def desc_lines(o, depth, text, paren=False):
    """paren: the text in explicit parentheses (needed when a ")" follows: bare text would swallow it)"""
    o.line(depth, "Description", "Description")
    if paren:
        o.line(depth, "(")
    for ln in text.split("\n"):
        o.line(depth + 1, ln, free_text=True)
    if paren:
        o.line(depth, ")")


def render_spec(o, depth, kw, ann, spec, headers, hdr_body):
    """Request / response directive with its body in the given form"""
    b = spec["b"]
    form = spec["form"]
    k = b["k"]
    has_children = headers or form == "child" or bool(spec.get("extra"))
    if form == "param":
        if k == "ref":
            o.line(depth, "%s %s%s" % (kw, o.par(b["n"]), ann), kw)
        elif k == "arr":
            o.line(depth, "%s %s%s" % (kw, o.par("[%s]" % b["n"]), ann), kw)
        else:
            o.line(depth, "%s %s%s" % (kw, o.par(k), ann), kw)   # any / empty
        op = has_children and o.open(depth)
    elif form == "inline":
        if k == "regex":
            o.line(depth, "%s %s%s" % (kw, o.par("regex"), ann), kw)
        else:
            o.line(depth, "%s%s" % (kw, ann), kw)
        op = has_children and o.open(depth)
        o.lines(depth, body_lines(b))
    elif form == "child":
        o.line(depth, "%s%s" % (kw, ann), kw)
        op = o.open(depth)
    else:
        raise ValueError(form)
    if headers:
        o.line(depth + 1, "Headers", "Headers")
        o.lines(depth + 1, body_lines(hdr_body))
    if form == "child":
        if k == "ref":
            o.line(depth + 1, "Body %s" % o.par(b["n"]), "Body")
        elif k == "arr":
            o.line(depth + 1, "Body %s" % o.par("[%s]" % b["n"]), "Body")
        elif k in ("any", "empty"):
            o.line(depth + 1, "Body %s" % o.par(k), "Body")
        elif k == "regex":
            o.line(depth + 1, "Body %s" % o.par("regex"), "Body")
            o.lines(depth + 1, body_lines(b))
        else:
            o.line(depth + 1, "Body", "Body")
            o.lines(depth + 1, body_lines(b))
    for x in spec.get("extra") or []:
        render_block(o, x, depth + 1)
    o.close(depth, op)


HDR = {"k": "obj", "n": "", "props": [{"key": "h1", "vk": "str", "vn": ""}], "allOf": []}
QRY = {"k": "obj", "n": "", "props": [{"key": "q1", "vk": "int", "vn": ""}], "allOf": []}


PATH_RULES = ['{optional: true}', '{min: 0}', '{max: 100}', '{type: "integer"}', 'a plain note', '{nullable: true}', '{const: true}',
              '{enum: [1, 2]}', '{or: ["integer", "string"]}', '{optional: false}', '{min: 0, optional: true}']


def _prop_lines(o, names, upto=None):
    """lines '  "name": 1[,][ // rule]' of a Path body"""
    res = []
    for i, n in enumerate(names):
        ln = '  "%s": 1%s' % (n, "," if i < len(names) - 1 else "")
        if o.style.flip(o.style.pathrules):
            ln += " // " + o.style.rnd.choice(PATH_RULES)
        res.append(ln)
    return res


def render_pathdecl(o, depth, names):
    if names and o.style.flip(o.style.pathref):
        k = len(o.private_types) + 1
        form = o.style.rnd.randrange(4)
        props = _prop_lines(o, names)
        if form == 3 and len(names) >= 2:
            # an inline object that inherits its first property
            o.private_types.append(["TYPE @zr_b%d" % k, "{"] + _prop_lines(o, names[:1]) + ["}"])
            o.line(depth, "Path", "Path")
            o.lines(depth, ['{ // {allOf: "@zr_b%d"}' % k] + _prop_lines(o, names[1:]) + ["}"])
            return
        if form == 2 and len(names) >= 2:
            # the first property comes from a base type
            o.private_types.append(["TYPE @zr_b%d" % k, "{"] + _prop_lines(o, names[:1]) + ["}"])
            o.private_types.append(["TYPE @zr_p%d" % k, '{ // {allOf: "@zr_b%d"}' % k] + _prop_lines(o, names[1:]) + ["}"])
            target = "@zr_p%d" % k
        else:
            o.private_types.append(["TYPE @zr_p%d" % k, "{"] + props + ["}"])
            target = "@zr_p%d" % k
            if form == 1:
                o.private_types.append(["TYPE @zr_q%d" % k, "@zr_p%d" % k])
                target = "@zr_q%d" % k
        o.line(depth, "Path", "Path")
        o.line(depth + 1, target)
        return
    if names:
        o.line(depth, "Path", "Path")
        o.lines(depth, ["{"] + _prop_lines(o, names) + ["}"])


def path_str(p):
    return "".join("/" + s for s in p)


def tags_line(o, depth, tags):
    o.line(depth, "Tags " + " ".join(o.par(t) for t in tags), "Tags")


def render_method(o, depth, m, with_path, force_parens=False):
    head = m["verb"] + ((" " + o.par(path_str(m["path"]))) if with_path else "")
    o.line(depth, head + annot(m["annot"]), m["verb"])
    d = depth + 1
    has_children = bool(m["desc"] or m["tags"] or m.get("pathdecl") or m["query"] or m["req"]["form"] != "none" or m["resps"])
    op = (has_children or force_parens) and o.open(depth, force_parens)
    if m["desc"]:
        last = not (m["tags"] or m.get("pathdecl") or m["query"] or m["req"]["form"] != "none" or m["resps"] or m.get("extra"))
        desc_lines(o, d, m["desc"], paren=bool(op) and last)
    if m["tags"]:
        tags_line(o, d, m["tags"])
    render_pathdecl(o, d, m.get("pathdecl") or [])
    if m["query"]:
        o.line(d, 'Query "q1=1"' if m["query"] == "example" else ("Query noFormat" if m["query"] == "noformat" else "Query"), "Query")
        o.lines(d, body_lines(dict(QRY, allOf=["@a"]) if m["query"] == "allof" else QRY))
    if m["req"]["form"] != "none":
        render_spec(o, d, "Request", "", m["req"], m["reqHeaders"], HDR)
    for r in m["resps"]:
        render_spec(o, d, r["code"], annot(r["annot"]), r["spec"], r["headers"], HDR)
    for x in m.get("extra") or []:
        render_block(o, x, d)
    o.close(depth, op)


def render_block(o, b, depth=0):
    t = b["t"]
    if t == "info":
        o.line(depth, "INFO", "INFO")
        op = o.open(depth)
        if b["title"]:
            o.line(depth + 1, 'Title "%s"' % b["title"], "Title")
        if b["version"]:
            o.line(depth + 1, "Version %s" % o.par(b["version"]), "Version")
        if b["desc"]:
            desc_lines(o, depth + 1, b["desc"])
        for x in b.get("extra") or []:
            render_block(o, x, depth + 1)
        o.close(depth, op)
    elif t == "server":
        o.line(depth, "SERVER %s%s" % (o.par(b["name"]), annot(b["annot"])), "SERVER")
        op = o.open(depth)
        o.line(depth + 1, 'BaseUrl "%s"' % b["base"], "BaseUrl")
        for x in b.get("extra") or []:
            render_block(o, x, depth + 1)
        o.close(depth, op)
    elif t == "type":
        k = b["body"]["k"]
        if k == "regex":
            o.line(depth, "TYPE %s %s%s" % (o.par(b["name"]), o.par("regex"), annot(b["annot"])), "TYPE")
            o.lines(depth, body_lines(b["body"]))
        elif k in ("any", "empty"):
            o.line(depth, "TYPE %s %s%s" % (o.par(b["name"]), o.par(k), annot(b["annot"])), "TYPE")
        else:
            o.line(depth, "TYPE %s%s" % (o.par(b["name"]), annot(b["annot"])), "TYPE")
            o.lines(depth, body_lines(b["body"]))
    elif t == "enum":
        o.line(depth, "ENUM %s%s" % (o.par(b["name"]), annot(b["annot"])), "ENUM")
        o.lines(depth, ["[", '  "x",', '  "y"', "]"])
    elif t == "tag":
        o.line(depth, "TAG %s%s" % (o.par(b["name"]), annot(b["annot"])), "TAG")
        if b["desc"] or b.get("extra"):
            op = o.open(depth)
            if b["desc"]:
                desc_lines(o, depth + 1, b["desc"])
            for x in b.get("extra") or []:
                render_block(o, x, depth + 1)
            o.close(depth, op)
    elif t == "url":
        o.line(depth, "URL " + o.par(path_str(b["path"])), "URL")
        op = o.open(depth)
        late = bool(b["methods"]) and (b.get("late") or o.style.flip(o.style.late))
        if not late:
            if b["tags"]:
                tags_line(o, depth + 1, b["tags"])
            render_pathdecl(o, depth + 1, b["pathdecl"])
        for x in b.get("extra_first") or []:
            render_block(o, x, depth + 1)
        for k, m in enumerate(b["methods"]):
            render_method(o, depth + 1, m, False, force_parens=late and k == len(b["methods"]) - 1)
        if late:
            if b["tags"]:
                tags_line(o, depth + 1, b["tags"])
            render_pathdecl(o, depth + 1, b["pathdecl"])
        for x in b.get("extra") or []:
            render_block(o, x, depth + 1)
        o.close(depth, op)
    elif t == "method":
        render_method(o, depth, b["m"], True)
    elif t == "rpc":
        o.line(depth, "URL " + o.par(path_str(b["path"])), "URL")
        op = o.open(depth)
        o.line(depth + 1, "Protocol %s" % o.par("json-rpc-2.0"), "Protocol")
        for x in b.get("extra_first") or []:
            render_block(o, x, depth + 1)
        for m in b["methods"]:
            o.line(depth + 1, "Method %s%s" % (o.par(m["name"]), annot(m["annot"])), "Method")
            has_children = bool(m["desc"] or m["tags"] or m["params"]["k"] != "none" or m["result"]["k"] != "none")
            op2 = has_children and o.open(depth + 1)
            if m["desc"]:
                desc_lines(o, depth + 2, m["desc"])
            if m["tags"]:
                tags_line(o, depth + 2, m["tags"])
            if m["params"]["k"] != "none":
                o.line(depth + 2, "Params", "Params")
                o.lines(depth + 2, body_lines(m["params"]))
            if m["result"]["k"] != "none":
                o.line(depth + 2, "Result", "Result")
                o.lines(depth + 2, body_lines(m["result"]))
            o.close(depth + 1, op2)
        o.close(depth, op)
    elif t == "macro":
        # a MACRO admits almost every kind, so without parentheses it would swallow the
        # top-level directives that follow it: the body is always parenthesised
        o.line(depth, "MACRO %s" % o.par(b["name"]), "MACRO")
        o.line(depth, "(")
        for x in b["items"]:
            render_block(o, x, depth + 1)
        o.line(depth, ")")
    elif t == "bare_method":
        render_method(o, depth, b["m"], False)
    elif t == "resp":
        r = b["r"]
        render_spec(o, depth, r["code"], annot(r["annot"]), r["spec"], r["headers"], HDR)
    elif t == "paste":
        o.line(depth, "PASTE %s" % o.par(b["name"]), "PASTE")
    elif t == "include":
        o.line(depth, "INCLUDE %s" % b["file"], "INCLUDE")
    elif t == "raw":
        for i, ln in enumerate(b["lines"]):
            o.line(depth, ln, b.get("label") if i == 0 else None)
    else:
        raise ValueError(t)


def render(doc, style=None, header=True):
    """Returns (text, blockspans) with blockspans[i] = (begin, end) byte range of block i"""
    o = Out(style or Style())
    if header:
        o.line(0, "JSIGHT 0.3", "JSIGHT")
    bs = []
    for b in doc:
        b0 = o.pos
        render_block(o, b)
        bs.append((b0, o.pos))
    for lines in o.private_types:
        o.line(0, lines[0], "TYPE")
        o.lines(0, lines[1:])
    return o.text(), bs, o.spans


# --------------------------------------------------------------------------------------
# projection of the real catalog JSON


class DupKey(Exception):
    pass


def parse_pairs(text):
    """JSON -> nested structure where objects are lists of (key, value) pairs wrapped in Obj"""
    dups = []

    def hook(pairs):
        seen = set()
        for k, _ in pairs:
            if k in seen:
                dups.append(k)
            seen.add(k)
        return Obj(pairs)
    val = json.loads(text, object_pairs_hook=hook)
    return val, dups


class Obj:
    def __init__(self, pairs):
        self.pairs = pairs
        self.d = dict(pairs)

    def get(self, k, default=None):
        return self.d.get(k, default)

    def keys(self):
        return [k for k, _ in self.pairs]

    def __contains__(self, k):
        return k in self.d


def sv(schema):
    """real schema JSON -> SchemaView"""
    notation = schema.get("notation")
    content = schema.get("content")
    if notation == "jsight" and isinstance(content, Obj):
        return sv_content(notation, content)
    if notation == "regex":
        return {"notation": "regex", "tt": "", "type": "", "scalar": content if isinstance(content, str) else "", "children": [], "rules": []}
    return {"notation": notation, "tt": "", "type": "", "scalar": "", "children": [], "rules": []}


def rules_view(c):
    """rules of a schema node as [key, value] pairs; the value of a list rule is its items joined by commas"""
    res = []
    for r in c.get("rules") or []:
        v = r.get("scalarValue", "")
        if not v and r.get("children"):
            v = ",".join(x.get("scalarValue", "") for x in r.get("children"))
        res.append([r.get("key", ""), v])
    return res


def child_view(c):
    tt = c.get("tokenType", "")
    scalar = c.get("scalarValue", "")
    if tt == "array":
        items = c.get("children") or []
        scalar = items[0].get("type", "") if items else ""
    kids = []
    if tt == "object":
        kids = [[k.get("key", ""), k.get("inheritedFrom", "")] for k in (c.get("children") or [])]
    return {"key": c.get("key", ""), "tt": tt, "type": c.get("type", ""), "scalar": scalar, "rules": rules_view(c),
            "inh": c.get("inheritedFrom", ""), "kids": kids, "optional": bool(c.get("optional", False)), "note": c.get("note", "")}


def sv_content(notation, c):
    tt = c.get("tokenType", "")
    scalar = c.get("scalarValue", "")
    children = []
    if tt == "object":
        children = [child_view(x) for x in (c.get("children") or [])]
    elif tt == "array":
        items = c.get("children") or []
        scalar = items[0].get("type", "") if items else ""
    return {"notation": notation, "tt": tt, "type": c.get("type", ""), "scalar": scalar, "children": children,
            "rules": rules_view(c)}


def project(text):
    """-> (abstract catalog, problems) ; problems are C09-style observations"""
    val, dups = parse_pairs(text)
    cat = {"info": [], "servers": [], "types": [], "enums": [], "tags": [], "interactions": []}
    info = val.get("info")
    if info is not None:
        cat["info"].append({"title": info.get("title", ""), "version": info.get("version", ""),
                            "desc": info.get("description", "")})
    for name, s in (val.get("servers").pairs if val.get("servers") else []):
        cat["servers"].append({"name": name, "annot": s.get("annotation", ""), "base": s.get("baseUrl", "")})
    for name, t in (val.get("userTypes").pairs if val.get("userTypes") else []):
        if name.startswith("@zr_"):
            continue              # renderer-private types (Style.pathref)
        cat["types"].append({"name": name, "annot": t.get("annotation", ""), "schema": sv(t.get("schema"))})
    for name, e in (val.get("userEnums").pairs if val.get("userEnums") else []):
        vals = [c.get("scalarValue", "") for c in (e.get("value").get("children") or [])]
        cat["enums"].append({"name": name, "annot": e.get("annotation", ""), "values": vals})
    for name, t in (val.get("tags").pairs if val.get("tags") else []):
        groups = {g.get("protocol"): g.get("interactions") for g in t.get("interactionGroups")}
        cat["tags"].append({"name": t.get("name"), "title": t.get("title"), "desc": t.get("description", ""),
                            "http": groups.get("http", []), "rpc": groups.get("json-rpc-2.0", []),
                            "_key": name})
    for key, it in (val.get("interactions").pairs if val.get("interactions") else []):
        e = {"id": it.get("id"), "proto": it.get("protocol"), "path": it.get("path"),
             "annot": it.get("annotation", ""), "desc": it.get("description", ""), "tags": it.get("tags"),
             "query": [], "request": [], "responses": [], "pathvars": [], "params": [], "result": [], "_key": key}
        if it.get("protocol") == "http":
            e["method"] = it.get("httpMethod")
            qy = it.get("query")
            if qy is not None:
                e["query"].append({"format": qy.get("format", ""), "example": qy.get("example", ""),
                                   "schema": sv(qy.get("schema"))})
            rq = it.get("request")
            if rq is not None:
                body = rq.get("body")
                hd = rq.get("headers")
                e["request"].append({"format": body.get("format") if body else None,
                                     "schema": sv(body.get("schema")) if body else None,
                                     "headers": [sv(hd.get("schema"))] if hd else []})
            for r in it.get("responses") or []:
                body = r.get("body")
                hd = r.get("headers")
                e["responses"].append({"code": r.get("code"), "annot": r.get("annotation", ""),
                                       "format": body.get("format") if body else None,
                                       "schema": sv(body.get("schema")) if body else None,
                                       "headers": [sv(hd.get("schema"))] if hd else []})
            pv = it.get("pathVariables")
            if pv is not None:
                e["pathvars"] = [c.get("key") for c in pv.get("schema").get("content").get("children")]
        else:
            e["method"] = it.get("method")
            if it.get("params") is not None:
                e["params"].append(sv(it.get("params").get("schema")))
            if it.get("result") is not None:
                e["result"].append(sv(it.get("result").get("schema")))
        cat["interactions"].append(e)
    return unwide(cat), dups, val


def strip_private(x):
    if isinstance(x, dict):
        return {k: strip_private(v) for k, v in x.items() if not k.startswith("_")}
    if isinstance(x, list):
        return [strip_private(v) for v in x]
    return x


def first_diff(a, b, path=""):
    """first difference between two JSON values, as a readable string; None if equal"""
    if type(a) != type(b):
        return "%s: expected %r, observed %r" % (path, a, b)
    if isinstance(a, dict):
        for k in a:
            if k not in b:
                return "%s.%s: missing in observed" % (path, k)
            d = first_diff(a[k], b[k], path + "." + k)
            if d:
                return d
        for k in b:
            if k not in a:
                return "%s.%s: unexpected in observed (%r)" % (path, k, b[k])
        return None
    if isinstance(a, list):
        for i in range(min(len(a), len(b))):
            d = first_diff(a[i], b[i], "%s[%d]" % (path, i))
            if d:
                return d
        if len(a) != len(b):
            return "%s: expected %d entries %s, observed %d entries %s" % (
                path, len(a), json.dumps(a)[:200], len(b), json.dumps(b)[:200])
        return None
    if a != b:
        return "%s: expected %r, observed %r" % (path, a, b)
    return None
