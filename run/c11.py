"""C11 Static checks are sound: duplicates, dangling references, missing names are rejected.

For each generated valid document TLC (JSightApi!FaultChoices / FaultSites) enumerates the
applicable single faults and the blocks at which a diagnostic may legitimately be located;
one fault per document is injected (directly, and for appended declarations also through
PASTE and through INCLUDE).  R: the faulty document must be rejected and the diagnostic must
lie inside the span of a fault site (either occurrence of a duplicate; macro body or PASTE;
the included file)."""
import copy
import json
import random

import apidoc
import rel
from common import Check, b64, harness, seed

ANY = {"k": "any", "n": "", "props": [], "allOf": []}


def raw(label, *lines):
    return {"t": "raw", "lines": list(lines), "label": label}


def simple_method(verb, path):
    return {"verb": verb, "path": path, "annot": "", "desc": "", "tags": [], "query": "",
            "req": {"form": "none", "b": {"k": "none", "n": "", "props": [], "allOf": []}}, "reqHeaders": False,
            "resps": [{"code": "200", "annot": "", "spec": {"form": "param", "b": ANY}, "headers": False}], "pathdecl": []}


def inject(doc, f):
    """-> (faulty document, extra site indexes (1-based), appended block or None); None if not expressible"""
    d = copy.deepcopy(doc)
    kind, i, x = f["f"], f["i"], f["x"]
    b = d[i - 1] if i else None
    if kind == "dup_name":
        nb = copy.deepcopy(b)
        nb["annot"] = ""
        if b["t"] == "type":
            # the second declaration of the name need not look like the first: every notation in turn
            alt = [None, {"k": "any", "n": "", "props": [], "allOf": []}, {"k": "empty", "n": "", "props": [], "allOf": []},
                   {"k": "regex", "n": "", "props": [], "allOf": []}, {"k": "int", "n": "", "props": [], "allOf": []}][(i + len(d)) % 5]
            if alt is not None:
                nb["body"] = alt
        return d + [nb], [len(d) + 1], nb
    if kind == "dup_method":
        if b["t"] == "method":
            return d + [copy.deepcopy(b)], [len(d) + 1], copy.deepcopy(b)
        b["methods"].append(copy.deepcopy(b["methods"][0]))
        return d, [], None
    if kind == "dup_url":
        nb = {"t": "url", "path": b["path"], "tags": [], "pathdecl": [], "methods": []}
        return d + [nb], [len(d) + 1], nb
    if kind == "similar_path":
        p = list(b["path"])
        k = max(j for j, s in enumerate(p) if s.startswith("{"))
        p[k] = "{w}"
        nb = {"t": "method", "m": simple_method("DELETE", p)}
        return d + [nb], [len(d) + 1], nb
    if kind == "dup_child":
        if x == "Title":
            b.setdefault("extra", []).append(raw("Title", 'Title "Second"'))
        elif x == "Version":
            b.setdefault("extra", []).append(raw("Version", "Version 9"))
        elif x == "Description":
            tgt = b["m"] if b["t"] == "method" else b
            tgt.setdefault("extra", []).append(raw("Description", "Description", "  second text"))
        elif x == "BaseUrl":
            b.setdefault("extra", []).append(raw("BaseUrl", 'BaseUrl "http://second"'))
        elif x == "Path":
            b.setdefault("extra_first", []).append(raw("Path", "Path", "{", '  "%s": 1' % b["pathdecl"][0], "}"))
        elif x == "Protocol":
            b.setdefault("extra_first", []).append(raw("Protocol", "Protocol json-rpc-2.0"))
        elif x == "Query":
            b["m"].setdefault("extra", []).append(raw("Query", "Query", "{", '  "q2": 1', "}"))
        elif x in ("ReqBody", "ReqHeaders"):
            sp = b["m"]["req"]
            second = [raw("Body", "Body any"), raw("Body", "Body regex", "/zz+/"), raw("Body", "Body", "{", '  "second": 1', "}"),
                      raw("Body", "Body empty")][(i + len(d)) % 4]
            sp.setdefault("extra", []).append(second if x == "ReqBody" else raw("Headers", "Headers", "{", '  "h2": 1', "}"))
        elif x in ("RespBody", "RespHeaders"):
            for r in b["m"]["resps"]:
                if (x == "RespBody" and r["spec"]["form"] == "child") or (x == "RespHeaders" and r["headers"]):
                    second = [raw("Body", "Body any"), raw("Body", "Body regex", "/zz+/"), raw("Body", "Body", "{", '  "second": 1', "}"),
                              raw("Body", "Body empty")][(i + len(d)) % 4]
                    r["spec"].setdefault("extra", []).append(second if x == "RespBody" else raw("Headers", "Headers", "{", '  "h2": 1', "}"))
                    break
        else:
            return None
        return d, [], None
    if kind == "missing_param":
        if b["t"] in ("url", "rpc"):
            b["path"] = []
        else:
            b["name"] = ""
        return d, [], None
    if kind == "undefined":
        return d[:i - 1] + d[i:], [], None
    if kind == "undefined_new":
        if x == "type":
            nb = {"t": "type", "name": "@zu", "annot": "", "body": {"k": "obj", "n": "", "props": [{"key": "r", "vk": "ref", "vn": "@nonexistent"}], "allOf": []}}
        elif x == "enum":
            nb = {"t": "type", "name": "@zu", "annot": "", "body": {"k": "obj", "n": "", "props": [{"key": "e", "vk": "enum", "vn": "@noenum"}], "allOf": []}}
        elif x == "tag":
            # the undeclared name: preferably one that an untagged interaction written BEFORE got from its path (such a
            # tag exists in the catalog, but it was never declared)
            bad = "@notag"
            for ub in d:
                ms = [(ub["m"], ub["m"]["path"])] if ub["t"] == "method" else [(mm, ub["path"]) for mm in ub.get("methods", [])] if ub["t"] == "url" else []
                for mm, pth in ms:
                    if not mm["tags"] and not (ub["t"] == "url" and ub["tags"]) and pth and pth[0].isalpha() and ("@" + pth[0]) not in [t["name"] for t in d if t["t"] == "tag"]:
                        bad = "@" + pth[0]
            # preferably on a method inside a URL block that has URL-level Tags of its own (the method's list wins
            # and must be validated all the same)
            for bi, ub in enumerate(d):
                if ub["t"] == "url" and ub["tags"] and ub["methods"] and (i + len(d)) % 2:
                    ub["methods"][0]["tags"] = [bad]
                    return d, [bi + 1], None
            m = simple_method("GET", ["zu"])
            m["tags"] = [bad]
            nb = {"t": "method", "m": m}
        else:
            nb = {"t": "paste", "name": "@nomacro"}
        return d + [nb], [len(d) + 1], nb
    if kind == "second_info":
        nb = {"t": "info", "title": "Second", "version": "", "desc": ""}
        return d + [nb], [len(d) + 1], nb
    return None


def tag_use(doc, name):
    """how a tag is used: 'url_tags_shadowed' if it occurs only in URL-level Tags of URL blocks
    in which every method carries its own Tags (so the URL-level list is never consulted)"""
    direct = False
    shadowed_only = True
    for b in doc:
        ms = [b["m"]] if b["t"] == "method" else (b.get("methods") or [])
        for mm in ms:
            if name in (mm.get("tags") or []):
                direct = True
        if b["t"] == "url" and name in b["tags"]:
            if not all(mm["tags"] for mm in b["methods"]):
                shadowed_only = False
    return "url_tags_shadowed" if (not direct and shadowed_only) else "used"


def located(err, bs, sites, nfiles):
    """is the diagnostic inside the span of one of the site blocks (main file)?"""
    if err["file"] != "main.jst":
        return nfiles > 0      # in an included file: judged by the caller
    for s in sites:
        if 1 <= s <= len(bs) and bs[s - 1][0] <= err["index"] < bs[s - 1][1]:
            return True
    return False


def main(tier):
    chk = Check("C11", tier)
    rnd = random.Random(seed())
    docs = rel.valid_docs(chk, tier, [(700, 3), (600, 6)], [(8000, 3), (8000, 6), (3000, 9)])
    cases, meta = [], {}
    for n, m in enumerate(docs):
        f = m["tx"][0]["fault"]
        r = inject(m["doc"], f)
        if r is None:
            continue
        fd, extra_sites, appended = r
        sites = list(m["tx"][0]["fault_sites"])
        if f["f"] == "undefined":
            # the referenced block was removed: sites shift down past it
            sites = [s - 1 if s > f["i"] else s for s in sites]
        sites = sorted(set(sites + extra_sites))
        vias = ["direct"]
        if appended is not None and appended["t"] != "paste":
            vias += ["paste", "include"] if tier == "thorough" else [rnd.choice(["paste", "include"])]
        if f["f"] == "dup_name" and m["doc"][f["i"] - 1]["t"] in ("type", "enum", "server"):
            vias.append("paste_twice")
        for via in vias:
            files = {}
            blocks = fd
            vs = list(sites)
            if via == "paste_twice":
                # the duplicate arises from expanding one macro twice (directly and through another macro)
                orig = m["doc"][f["i"] - 1]
                rest = m["doc"][:f["i"] - 1] + m["doc"][f["i"]:]
                blocks = rest + [{"t": "paste", "name": "@fm"}, {"t": "macro", "name": "@fm", "items": [orig]},
                                 {"t": "macro", "name": "@fm2", "items": [{"t": "paste", "name": "@fm"}]}, {"t": "paste", "name": "@fm2"}]
                vs = list(range(len(rest) + 1, len(blocks) + 1))
            elif via == "paste":
                if appended["t"] == "tag":
                    continue
                blocks = fd[:-1] + [{"t": "paste", "name": "@fm"}, {"t": "macro", "name": "@fm", "items": [appended]}]
                vs = sites + [len(blocks), len(blocks) - 1]
            elif via == "include":
                blocks = fd[:-1] + [{"t": "include", "file": "fault.jst"}]
                files = {"fault.jst": apidoc.render([appended], header=False)[0]}
            try:
                text, bs, spans = apidoc.render(blocks)
            except Exception:
                continue
            cid = "f%d_%s" % (n, via)
            ff = {"main.jst": b64(text)}
            ff.update({k: b64(v) for k, v in files.items()})
            cases.append({"id": cid, "files": ff, "root": "main.jst"})
            meta[cid] = (m, f, via, text, files, bs, vs)
    # two faults at once: the document is rejected and the diagnostic lies in a site of one of them
    pairs = {}
    for n, m in enumerate(docs):
        tx = m["tx"][0]
        fa, fb = tx["fault"], tx.get("fault2")
        if not fb or fa == fb or "undefined" in (fa["f"], fb["f"]):
            continue                      # a removal shifts the indices the second fault refers to
        ra = inject(m["doc"], fa)
        if ra is None:
            continue
        try:
            rb = inject(ra[0], fb)
        except (ValueError, KeyError, IndexError):
            continue                      # the first fault destroyed what the second one refers to
        if rb is None:
            continue
        sites = sorted(set(list(tx["fault_sites"]) + list(tx["fault2_sites"]) + ra[1] + rb[1]))
        try:
            text, bs, spans = apidoc.render(rb[0])
        except Exception:
            continue
        cid = "ff%d" % n
        cases.append(rel.case(cid, text))
        pairs[cid] = (m, fa, fb, text, bs, sites)
    obs = harness("run", cases)
    for cid, (m, fa, fb, text, bs, sites) in pairs.items():
        o = obs[cid]
        chk.evaluations += 1
        chk.traces += 1
        chk.nontrivial.add(json.dumps([fa, fb, m["doc"]], sort_keys=True))
        la = fa["f"] + (":" + fa["x"] if fa["x"] else "")
        lb = fb["f"] + (":" + fb["x"] if fb["x"] else "")
        bad, what = None, ""
        if o["outcome"] != "error":
            bad = "faults %s and %s injected, but the document was: %s" % (la, lb, rel.describe(o))
            what = "not rejected"
        elif not located(o["err"], bs, sites, 0):
            e = o["err"]
            bad = "faults %s and %s rejected (%r) but the diagnostic at %s:%d (line %d) is outside the offending declarations %s" % (
                la, lb, e["msg"], e["file"], e["index"], e["line"], [bs[s - 1] for s in sites if 1 <= s <= len(bs)])
            what = "located elsewhere"
        if bad:
            sig = {"fault": la + "+" + lb, "via": "pair", "what": what, "block": "", "detail": "", "outcome": o["outcome"],
                   "msg": (o.get("err") or {}).get("msg", ""), "frames": ",".join(o.get("frames") or [])}
            # if the behaviour is that of a listed finding about ONE of the two faults, it is that finding
            import common
            for ff, lab in ((fa, la), (fb, lb)):
                bk = m["doc"][ff["i"] - 1]["t"] if ff["i"] else ""
                one = dict(sig, fault=lab, block=bk)
                if any(k.get("status", "open") == "open" and common.signature_matches(k, one) for k in chk.known):
                    sig = one
                    break
            chk.violation("%s | document:\n%s" % (bad, text[:1300]),
                          {"kind": "fault", "fault": [fa, fb], "via": "pair", "doc": m["doc"], "main": text, "files": {},
                           "sites": sites, "block_spans": bs, "observed": o, "signature": sig}, sig)
    chk.extra["fault_pairs"] = len(pairs)
    kinds = {}
    for cid, (m, f, via, text, files, bs, sites) in meta.items():
        o = obs[cid]
        chk.evaluations += 1
        chk.traces += 1
        chk.nontrivial.add(json.dumps([f, via, m["doc"]], sort_keys=True))
        label = f["f"] + (":" + f["x"] if f["x"] else "")
        kinds[label] = kinds.get(label, 0) + 1
        bad = None
        what = ""
        if o["outcome"] != "error":
            bad = "fault %s (via %s) injected, but the document was: %s" % (label, via, rel.describe(o))
            what = "not rejected"
        elif not located(o["err"], bs, sites, len(files)):
            e = o["err"]
            bad = "fault %s (via %s) rejected (%r) but the diagnostic at %s:%d (line %d) is outside the offending declaration(s) %s" % (
                label, via, e["msg"], e["file"], e["index"], e["line"], [bs[s - 1] for s in sites if 1 <= s <= len(bs)])
            what = "located elsewhere"
        if bad:
            bk = m["doc"][f["i"] - 1]["t"] if f["i"] else ""
            detail = ""
            if f["f"] == "undefined" and bk == "tag":
                detail = tag_use(m["doc"], m["doc"][f["i"] - 1]["name"])
            sig = {"fault": label, "via": via, "what": what, "block": bk, "detail": detail, "outcome": o["outcome"], "msg": (o.get("err") or {}).get("msg", ""), "frames": ",".join(o.get("frames") or [])}
            chk.violation("%s | document:\n%s" % (bad, text[:1300]),
                          {"kind": "fault", "fault": f, "via": via, "doc": m["doc"], "main": text, "files": files,
                           "sites": sites, "block_spans": bs, "observed": o, "signature": sig}, sig)
    chk.extra["faults_injected_by_kind"] = kinds
    # a second singleton child in hosts of every kind, the two copies with different texts
    hosts = {"info": ("INFO\n  Title \"T\"\n  Version 1\n", 1), "tag": ("TAG @zt\n", 1), "http_method": ("GET /zh\n", 1),
             "url_method": ("URL /zu\n  GET\n", 2), "rpc_method": ("URL /zr\n  Protocol json-rpc-2.0\n  Method zm\n", 2), "server": ("SERVER @zs\n  BaseUrl \"http://z\"\n", 1)}
    tails = {"info": "", "tag": "", "http_method": "  200 any\n", "url_method": "    200 any\n", "rpc_method": "    Result\n    {}\n", "server": ""}
    kcases, kmeta = [], {}
    for hn, (head, dep) in hosts.items():
        for form in ("bare", "parens", "mixed"):
            d1 = "  " * dep + "Description\n" + ("  " * (dep + 1) + "first text\n" if form != "parens" else "  " * dep + "(\n" + "  " * (dep + 1) + "first text\n" + "  " * dep + ")\n")
            d2 = "  " * dep + "Description\n" + ("  " * (dep + 1) + "second text\n" if form == "bare" else "  " * dep + "(\n" + "  " * (dep + 1) + "second text\n" + "  " * dep + ")\n")
            one = "JSIGHT 0.3\n" + head + d1 + tails[hn]
            two = "JSIGHT 0.3\n" + head + d1 + d2 + tails[hn]
            kcases += [rel.case("kd1_%s_%s" % (hn, form), one), rel.case("kd2_%s_%s" % (hn, form), two)]
            kmeta["kd2_%s_%s" % (hn, form)] = (hn, form, two, "kd1_%s_%s" % (hn, form))
    kobs = harness("run", kcases)
    for cid, (hn, form, text, oneid) in kmeta.items():
        if kobs[oneid]["outcome"] != "ok":
            continue                   # the host does not take a Description at all
        chk.evaluations += 1
        chk.traces += 1
        chk.nontrivial.add(cid)
        if kobs[cid]["outcome"] != "error":
            sig = {"fault": "dup_child:Description", "via": "kernel", "what": "not rejected", "block": hn, "detail": form, "outcome": kobs[cid]["outcome"], "msg": "", "frames": ""}
            chk.violation("a second Description in %s (%s) is accepted: %s | document:\n%s" % (hn, form, rel.describe(kobs[cid]), text),
                          {"kind": "fault", "fault": {"f": "dup_child", "i": 0, "x": "Description"}, "via": "kernel", "doc": [], "main": text, "files": {},
                           "sites": [1], "block_spans": [[0, len(text)]], "observed": kobs[cid], "signature": sig}, sig)
    # a second singleton child written after other children (a method in parentheses with a child of the same kind of its own)
    sk = {
        "second_url_path_after_method_with_path": "JSIGHT 0.3\nURL /zs/{x}/{y}/{z}\n  Path\n  {\n    \"x\": 1\n  }\n  GET\n  (\n    Path\n    {\n      \"y\": 1\n    }\n    200 any\n  )\n  Path\n  {\n    \"z\": 1\n  }\n",
        "second_url_path_after_two_methods": "JSIGHT 0.3\nURL /zs/{x}/{y}/{z}\n  Path\n  {\n    \"x\": 1\n  }\n  GET\n  (\n    Path\n    {\n      \"y\": 1\n    }\n    200 any\n  )\n  POST\n  (\n    200 any\n  )\n  Path\n  {\n    \"z\": 1\n  }\n",
        "second_method_query_after_request": "JSIGHT 0.3\nPOST /zs\n  Query\n  {\n    \"a\": 1\n  }\n  Request any\n  Query\n  {\n    \"b\": 1\n  }\n  200 any\n",
        "second_info_title_after_description": "JSIGHT 0.3\nINFO\n  Title \"A\"\n  Version 1\n  Description\n  (\n    text\n  )\n  Title \"B\"\n",
        "second_response_headers_after_body": "JSIGHT 0.3\nGET /zs\n  200\n    Headers\n    {\n      \"h\": 1\n    }\n    Body any\n    Headers\n    {\n      \"g\": 1\n    }\n",
        "second_protocol_after_method": "JSIGHT 0.3\nURL /zs\n  Protocol json-rpc-2.0\n  Method zm\n  (\n    Result\n    {}\n  )\n  Protocol json-rpc-2.0\n",
    }
    sobs = harness("run", [rel.case("sk_" + k, t) for k, t in sk.items()])
    for k, t in sk.items():
        o = sobs["sk_" + k]
        chk.evaluations += 1
        chk.traces += 1
        chk.nontrivial.add("second:" + k)
        if o["outcome"] != "error":
            sig = {"fault": "dup_child:" + k, "via": "kernel", "what": "not rejected", "block": "", "detail": "", "outcome": o["outcome"], "msg": "", "frames": ""}
            chk.violation("a second singleton child written after other children (%s) is accepted | document:\n%s" % (k, t),
                          {"kind": "fault", "fault": {"f": "dup_child", "i": 0, "x": k}, "via": "kernel", "doc": [], "main": t, "files": {}, "sites": [1],
                           "block_spans": [[0, len(t)]], "observed": o, "signature": sig}, sig)
    # Tags without a parameter / naming an undeclared tag, at every level, also where the URL-level list is never consulted (every
    # method has its own Tags, or the URL has no method: finding F-20, repaired)
    tk = {}
    for fault, par in (("missing_param", ""), ("undefined", " @znotag")):
        tk[(fault, "http_method", "used")] = "JSIGHT 0.3\nGET /zt\n  Tags%s\n  200 any\n" % par
        tk[(fault, "url_method", "used")] = "JSIGHT 0.3\nURL /zt\n  GET\n    Tags%s\n    200 any\n" % par
        tk[(fault, "rpc_method", "used")] = "JSIGHT 0.3\nURL /zt\n  Protocol json-rpc-2.0\n  Method zm\n    Tags%s\n    Result\n    {}\n" % par
        tk[(fault, "url_level_first", "used")] = "JSIGHT 0.3\nURL /zt\n  Tags%s\n  GET\n    200 any\n" % par
        tk[(fault, "url_level_last", "used")] = "JSIGHT 0.3\nTAG @zdecl\nURL /zt\n  GET\n    Tags @zdecl\n    200 any\n  POST\n    200 any\n  Tags%s\n" % par
        tk[(fault, "url_level_all_methods_tagged", "url_tags_shadowed")] = "JSIGHT 0.3\nTAG @zdecl\nURL /zt\n  Tags%s\n  GET\n    Tags @zdecl\n    200 any\n" % par
        tk[(fault, "url_level_no_method", "url_tags_shadowed")] = "JSIGHT 0.3\nURL /zt\n  Tags%s\n" % par
    tobs = harness("run", [rel.case("tk%d" % n, t) for n, t in enumerate(tk.values())])
    for n, ((fault, where, use), t) in enumerate(tk.items()):
        o = tobs["tk%d" % n]
        chk.evaluations += 1
        chk.traces += 1
        chk.nontrivial.add("tags:%s:%s" % (fault, where))
        if o["outcome"] != "error":
            sig = {"fault": fault, "via": "kernel", "what": "not rejected", "block": "tag", "detail": use, "outcome": o["outcome"], "msg": "", "frames": ""}
            chk.violation("a Tags directive %s (%s) is accepted | document:\n%s" % ("without a parameter" if fault == "missing_param" else "naming an undeclared tag", where, t),
                          {"kind": "fault", "fault": {"f": fault, "i": 0, "x": where}, "via": "kernel", "doc": [], "main": t, "files": {}, "sites": [1],
                           "block_spans": [[0, len(t)]], "observed": o, "signature": sig}, sig)
    # the directive that follows the text of a bare Description, its keyword directly followed by '#' or '//': a fault in
    # it is reported like anywhere else (the line is a directive line, not text)
    gk = {
        "second_description": "JSIGHT 0.3\nINFO\n  Title \"T\"\n  Version 1\n  Description\n    first\n  Description# again\n    second\n",
        "title_without_parameter": "JSIGHT 0.3\nINFO\n  Version 1\n  Description\n    text\n  Title# no parameter\n",
        "second_query": "JSIGHT 0.3\nGET /zg\n  Query\n  {\n    \"a\": 1\n  }\n  Description\n    text\n  Query# again\n  {\n    \"b\": 1\n  }\n  200 any\n",
        "request_undefined_type": "JSIGHT 0.3\nPOST /zg\n  Description\n    text\n  Request// note\n    Body @znosuchtype\n  200 any\n",
        "duplicate_method": "JSIGHT 0.3\nURL /zg\n  GET\n    200 any\n  Description\n    text\n  GET// again\n    200 any\n",
        "second_title_under_tag_description": "JSIGHT 0.3\nTAG @zt\n  Description\n    text\nTAG# no name\n",
    }
    gobs = harness("run", [rel.case("gk_" + k, t) for k, t in gk.items()] + [rel.case("gs_" + k, t.replace("# again", " # again").replace("# no", " # no").replace("// ", " // "))
                                                                              for k, t in gk.items()])
    for k, t in gk.items():
        a, b = gobs["gs_" + k], gobs["gk_" + k]
        if a["outcome"] != "error":
            continue               # with a blank before the comment the document is not rejected either: nothing to demand
        chk.evaluations += 1
        chk.traces += 1
        chk.nontrivial.add("glued:" + k)
        if b["outcome"] != "error":
            sig = {"fault": "glued:" + k, "via": "kernel", "what": "not rejected", "block": "", "detail": "", "outcome": b["outcome"], "msg": "", "frames": ""}
            chk.violation("a faulty directive after a bare Description, its keyword glued to a comment (%s): %s; with a blank before the comment: %s | document:\n%s" % (
                k, rel.describe(b), rel.describe(a), t),
                {"kind": "fault", "fault": {"f": "glued", "i": 0, "x": k}, "via": "kernel", "doc": [], "main": t, "files": {}, "sites": [1],
                 "block_spans": [[0, len(t)]], "observed": b, "signature": sig}, sig)
    import fixrel
    fixrel.c11(chk, tier)
    import pathspec
    pathspec.run(chk, tier, "C11")
    if meta:
        x = next(iter(meta.values()))
        chk.sample({"fault": x[1], "via": x[2], "document": x[3][:600]})
    chk.rule = ("(valid document, one applicable fault chosen by JSightApi!Tx from FaultChoices(doc), injection route "
                "direct/paste/include); pairs of independently chosen faults (rejected, located in a site of one of them); distinct = distinct triples")
    chk.assumptions += ["fault injection is performed by the renderer from TLC's fault descriptor"]
    return chk.finish()


def replay(path):
    rp = json.load(open(path))["replay"]
    if rp.get("kind") == "pathspec":
        import pathspec
        chk = Check("C11", "quick")
        pathspec.replay(chk, "C11", rp)
        return chk.finish()
    if rp.get("kind") == "fxfault":
        import fixrel
        return fixrel.replay("C11", rp)
    chk = Check("C11", "quick")
    chk.evaluations = 1
    ff = {"main.jst": b64(rp["main"])}
    ff.update({k: b64(v) for k, v in rp["files"].items()})
    o = harness("run", [{"id": "a", "files": ff, "root": "main.jst"}])["a"]
    if o["outcome"] != "error" or not located(o["err"], rp["block_spans"], rp["sites"], len(rp["files"])):
        chk.violation("reproduced: %s" % rel.describe(o), rp, rp.get("signature"))
    return chk.finish()
