"""C06 Context resolution: each directive lands under the nearest admitting parent.

TLC: closes the reachable graph of JSightTree (Walk = Decl in every state, for directive
sequences of any length), emits documents with the outcome the *meaning layer* (Decl fold)
predicts: one document per sampled (state, symbol) transition, all sequences up to a bound,
random long walks.  R: every document is rendered and run through the real scan stage; the
forest (parent of every directive) or the scan-stage verdict and its location is compared
with the prediction.  V: the symbol sequences of the repository's own fixtures, recorded
from the real scanner together with the real forest, are validated by TLC (TraceTree)."""
import json
import os

import common
import fixtures
import render
from common import Check, b64, harness, seed, tlc, tlc_ok

CONST_NONE = {"History": "FALSE", "MaxLen": "0", "EmitMode": '"none"', "SampleMod": "1", "SamplePick": "0", "ValidOnly": "FALSE", "MaxInc": "0", "OneKw": "FALSE"}


def flatten(forest):
    """real forest -> {(file, keyword begin): (file, keyword begin) of the parent or None}"""
    res = {}

    def rec(n, parent):
        key = (n.get("f") or "main.jst", n["b"])
        res[key] = parent
        for c in n["c"]:
            rec(c, key)
    for n in forest:
        rec(n, None)
    return res


def judge(doc, files, spans, want, o):
    """Compares the real observation o with the prediction `want` (v, at, par).
    spans[i] = (file, begin, end).  Returns None if they agree, else a description."""
    v = want["v"]
    if o["outcome"] in ("panic", "fatal", "timeout"):
        return "real code %s: %s" % (o["outcome"], o.get("panic", ""))
    scanned = "scan" in o["stages"]
    if v == "ok":
        if not scanned:
            e = o.get("err") or {}
            return "predicted placement of every directive, but the scan stage rejected: %r at %s:%s" % (
                e.get("msg"), e.get("file"), e.get("index"))
        real = flatten(o.get("forest") or [])
        begin2item = {spans[i][:2]: i for i in spans if doc[i - 1]["t"] == "kw"}
        for i, it in enumerate(doc, 1):
            if it["t"] != "kw":
                continue
            b = spans[i][:2]
            if b not in real:
                return "directive item %d (%s) is missing from the forest" % (i, it["k"])
            rp = real[b]
            rpi = 0 if rp is None else begin2item.get(rp, -2)
            if rpi != want["par"][i - 1]:
                return "directive item %d (%s): parent item %s, expected %s" % (i, it["k"], rpi, want["par"][i - 1])
        if len(real) != len(begin2item):
            return "forest has %d nodes, document has %d directives" % (len(real), len(begin2item))
        # the forest is rebuilt after MACRO/PASTE expansion (core/compile_core_paste.go): every directive
        # outside a MACRO must get the same parent again
        if "paste" in o["stages"]:
            after = flatten(o.get("pastes") or [])
            inmacro = set()
            for i, it in enumerate(doc, 1):
                if it["t"] == "kw":
                    p = want["par"][i - 1]
                    if it["k"] == "MACRO" or p in inmacro:
                        inmacro.add(i)
            for i, it in enumerate(doc, 1):
                if it["t"] != "kw" or i in inmacro:
                    continue
                b = spans[i][:2]
                if b not in after:
                    return "after expansion: directive item %d (%s) is missing from the forest" % (i, it["k"])
                rp = after[b]
                rpi = 0 if rp is None else begin2item.get(rp, -2)
                if rpi != want["par"][i - 1]:
                    return "after expansion: directive item %d (%s): parent item %s, expected %s" % (i, it["k"], rpi, want["par"][i - 1])
        return None
    if scanned:
        return "predicted %s at item %s, but the scan stage accepted the document" % (v, want["at"])
    e = o.get("err")
    if not e:
        return "predicted %s, observed outcome %s" % (v, o["outcome"])
    idx = (e["file"], e["index"])
    if v in ("rej_ctx", "err_close", "err_open", "err_jsight_inc"):
        if idx != spans[want["at"]][:2]:
            return "predicted %s of item %d at %s byte %d, diagnostic is at %s byte %d (%r)" % (
                v, want["at"], spans[want["at"]][0], spans[want["at"]][1], idx[0], idx[1], e["msg"])
    elif v == "err_eof":
        last = max((s[1] for s in spans.values() if s[0] == "main.jst"), default=0)
        if idx[0] != "main.jst" or idx[1] < last:
            return "predicted rejection at end of input (open parenthesis), diagnostic is at %s byte %d (%r)" % (idx[0], idx[1], e["msg"])
    elif v == "err_fe":
        f = spans[want["at"]][0]
        last = max((s[1] for i, s in spans.items() if s[0] == f and i != want["at"]), default=0)
        if idx[0] != f or idx[1] < last:
            return "predicted rejection at the end of the included file %s (open parenthesis), diagnostic is at %s byte %d (%r)" % (
                f, idx[0], idx[1], e["msg"])
    else:
        return "unexpected prediction %s" % v
    return None


def run_docs(chk, recs, tag):
    cases = []
    meta = {}
    for n, r in enumerate(recs):
        doc = r["doc"]
        # every third document with CRLF, every third with CR line ends (the placement rule does not know line ends)
        files, spans = render.render_tree_project(doc, nl=("\n", "\r\n", "\r")[n % 3] if tag != "r" else r.get("nl", "\n"))
        cid = "%s%d" % (tag, n)
        cases.append({"id": cid, "files": {f: b64(t) for f, t in files.items()}, "root": "main.jst", "want": ["forest", "pastes"]})
        meta[cid] = (doc, files, spans, r)
    obs = harness("run", cases)
    agree_impl = 0
    for cid, (doc, files, spans, r) in meta.items():
        o = obs[cid]
        data = b"".join(b"--- %s\n%s" % (f.encode(), t) for f, t in files.items()) if len(files) > 1 else files["main.jst"]
        chk.evaluations += 1
        chk.traces += 1
        chk.nontrivial.add(json.dumps(doc, sort_keys=True))
        bad = judge(doc, files, spans, r["out"], o)
        if judge(doc, files, spans, r["impl"], o) is None:
            agree_impl += 1
        if bad:
            sig = {"devs": ",".join(sorted(r["impl"]["devs"])) or "none",
                   "matches_impl": "yes" if judge(doc, files, spans, r["impl"], o) is None else "no"}
            chk.violation(bad + " | document: " + data.decode()[:300].replace("\n", "\\n"),
                          {"kind": "tree_doc", "doc": doc, "nl": ("\n", "\r\n", "\r")[int(cid[len(tag):]) % 3] if tag != "r" else r.get("nl", "\n"), "file": data.decode(), "files": {f: t.decode() for f, t in files.items()}, "expected": r["out"],
                           "expected_from": "JSightTree!Meaning(doc)", "observed": o, "signature": sig}, sig)
    return agree_impl, len(meta)


def main(tier, only_replay=None):
    chk = Check("C06", tier)
    thorough = tier == "thorough"
    sd = seed()
    # table conformance first: the spec's tables against the real functions
    fixtures.check_tables(chk)
    # 1. exhaustive closed graph + per-transition documents
    mod = 100 if thorough else 1500
    c = dict(CONST_NONE, EmitMode='"graph"', SampleMod=str(mod), SamplePick=str(sd % mod), MaxInc="2" if thorough else "1")
    r = tlc_ok(tlc("JSightTree", "Tree_graph.cfg", consts=c, timeout=3000), "JSightTree graph")
    chk.add_tlc(r)
    chk.extra["graph_states"] = r.states
    chk.extra["graph_transitions"] = r.generated
    chk.extra["graph_exhaustive"] = True
    recs = r.mbt
    chk.sample({"transition_doc": recs[0]["doc"], "predicted": recs[0]["out"]} if recs else "none")
    a1, n1 = run_docs(chk, recs, "g")
    # 2. all sequences up to a bound
    bound = 4 if thorough else 3
    c = dict(CONST_NONE, History="TRUE", MaxLen=str(bound), EmitMode='"docs"', MaxInc="1")
    r = tlc_ok(tlc("JSightTree", "Tree_docs.cfg", consts=c, timeout=3000), "JSightTree docs")
    chk.add_tlc(r)
    chk.extra["exhaustive_sequences_upto"] = bound
    a2, n2 = run_docs(chk, r.mbt, "d")
    # 3. random long walks
    nsim = 20000 if thorough else 1500
    c = dict(CONST_NONE, History="TRUE", MaxLen="40", EmitMode='"docs"', MaxInc="2")
    r = tlc_ok(tlc("JSightTree", "Tree_docs.cfg", consts=c, simulate=nsim, depth=45, tlc_seed=sd, workers=8 if thorough else 4,
                   timeout=3000), "JSightTree simulate")
    chk.add_tlc(r)
    if r.mbt:
        chk.sample({"random_walk_doc": [(i["t"], i["k"]) for i in r.mbt[-1]["doc"]], "predicted": r.mbt[-1]["out"]["v"]})
    a3, n3 = run_docs(chk, r.mbt, "s")
    # 3a. random walks in which "(", ")" and file boundaries are as likely as a keyword
    c = dict(CONST_NONE, History="TRUE", MaxLen="24", EmitMode='"docs"', MaxInc="2", OneKw="TRUE")
    r = tlc_ok(tlc("JSightTree", "Tree_docs.cfg", consts=c, simulate=nsim, depth=30, tlc_seed=sd + 2, workers=8 if thorough else 4,
                   timeout=3000), "JSightTree simulate (parenthesis-rich)")
    chk.add_tlc(r)
    a5, n5 = run_docs(chk, r.mbt, "q")
    a3, n3 = a3 + a5, n3 + n5
    # 3b. random walks that stay acceptable: long well-nested documents whose forest is rebuilt by the
    #     MACRO/PASTE expansion stage (same resolution code, second use)
    c = dict(CONST_NONE, History="TRUE", MaxLen="30", EmitMode='"docs"', ValidOnly="TRUE", MaxInc="2")
    r = tlc_ok(tlc("JSightTree", "Tree_docs.cfg", consts=c, simulate=nsim, depth=40, tlc_seed=sd + 1, workers=8 if thorough else 4,
                   timeout=3000), "JSightTree valid walks")
    chk.add_tlc(r)
    if r.mbt:
        chk.sample({"valid_walk_doc": [(i["t"], i["k"]) for i in r.mbt[-1]["doc"]], "predicted": r.mbt[-1]["out"]["v"]})
    a4, n4 = run_docs(chk, r.mbt, "v")
    a3, n3 = a3 + a4, n3 + n4
    chk.extra["impl_conformance"] = {"agree": a1 + a2 + a3, "checked": n1 + n2 + n3}
    # 4. V: fixtures recorded from the real code, validated by TLC
    # ... plus byte inputs enumerated by TLC (MCLex token sequences): whatever symbol sequence the real
    # scanner makes of them, the real tree builder must treat it as the declarative rule says
    r = tlc_ok(tlc("MCLex", "MCLex.cfg", consts={"MaxTokens": "3" if thorough else "2", "SampleMod": "20" if thorough else "1", "SamplePick": str(sd % 20 if thorough else 0)},
                   timeout=3000), "MCLex")
    chk.add_tlc(r)
    toks = [("tk:" + "-".join(map(str, m["seq"])), bytes(m["inp"])) for m in r.mbt]
    toks += [("jtk:" + "-".join(map(str, m["seq"])), b"URL /a\n" + bytes(m["inp"])) for m in r.mbt]
    if not thorough:
        toks = toks[sd % 7::7]
    fixtures.validate_tree_traces(chk, limit=None if thorough else 400, extra_inputs=toks)
    # 5. the placement rule is applied once more when PASTE is expanded: what a macro brings into an open parenthesis is
    #    placed like written lines - a method with a path of its own cannot leave the parenthesis.  Pairs (lines written
    #    in place, the same lines pasted from a macro): if the scan stage rejects the written lines for their context, the
    #    pasted ones must not be accepted
    import c07
    pp = [(nm, inl, mcr) for nm, inl, mcr in c07.twice_pairs() if nm.startswith(("paste_in_", "paste_ok_"))]
    pobs = harness("run", [{"id": "pi%d" % k, "files": {"main.jst": b64(inl)}, "root": "main.jst"} for k, (nm, inl, mcr) in enumerate(pp)] +
                   [{"id": "pm%d" % k, "files": {"main.jst": b64(mcr)}, "root": "main.jst"} for k, (nm, inl, mcr) in enumerate(pp)])
    for k, (nm, inl, mcr) in enumerate(pp):
        a, b = pobs["pi%d" % k], pobs["pm%d" % k]
        chk.evaluations += 1
        chk.traces += 1
        chk.nontrivial.add("paste:" + nm)
        if nm.startswith("paste_ok_") and a["outcome"] == "ok" and (b["outcome"] != "ok" or json.loads(a["json"]) != json.loads(b["json"])):
            sig = {"devs": "none", "matches_impl": "no", "what": "pasted lines land elsewhere"}
            chk.violation("lines that are accepted where they are written (%s) are not placed there when a macro brings them: %s | macro form:\n%s" % (
                nm, "rejected: %r" % b["err"]["msg"] if b["outcome"] == "error" else "another catalog", mcr),
                {"kind": "paste_pair", "name": nm, "inlined": inl, "macro_form": mcr, "signature": sig}, sig)
        if a["outcome"] == "error" and "scan" not in a["stages"] and b["outcome"] == "ok":
            sig = {"devs": "none", "matches_impl": "no", "what": "pasted lines leave an open parenthesis"}
            chk.violation("the lines written in place are rejected by the scan stage (%r) but the same lines pasted from a macro are accepted (%s) | macro form:\n%s" % (
                a["err"]["msg"], nm, mcr), {"kind": "paste_pair", "name": nm, "inlined": inl, "macro_form": mcr, "signature": sig}, sig)
    # 5a. where a directive lands is where the catalog shows it: children of the LATER of two sibling directives of one kind
    #     and one name (two responses with one code, written directly / in parentheses / through PASTE)
    for k, (form, text) in enumerate([
            ("direct", 'JSIGHT 0.3\nGET /zsame\n  200 any // first\n  200 // second\n    Headers\n    {\n      "zh": "v"\n    }\n    Body\n    {\n      "zb": 1\n    }\n'),
            ("parens", 'JSIGHT 0.3\nGET /zsame\n  404 regex // first\n    /a/\n  404 // second\n  (\n    Headers\n    {\n      "zh": "v"\n    }\n    Body any\n  )\n'),
            ("paste", 'JSIGHT 0.3\nMACRO @zhb\n(\n  Headers\n  {\n    "zh": "v"\n  }\n  Body any\n)\nGET /zsame\n  201 empty // first\n  201 // second\n    PASTE @zhb\n')]):
        o = harness("run", [{"id": "sc", "files": {"main.jst": b64(text)}, "root": "main.jst"}])["sc"]
        chk.evaluations += 1
        chk.traces += 1
        chk.nontrivial.add("same_code:" + form)
        bad = None
        if o["outcome"] != "ok":
            bad = "two responses with one code, the second with Headers and Body of its own (%s): %s" % (form, o["outcome"] + " " + str((o.get("err") or {}).get("msg")))
        else:
            rs = json.loads(o["json"])["interactions"]["http GET /zsame"]["responses"]
            if len(rs) != 2 or "headers" in rs[0] or "headers" not in rs[1] or rs[0].get("annotation") != "first":
                bad = "the Headers written under the second response (%s) are shown under %s" % (form, [("headers" in r) for r in rs])
        if bad:
            sig = {"devs": "none", "matches_impl": "no", "what": "catalog shows a directive under another parent"}
            chk.violation(bad + " | document:\n" + text, {"kind": "same_code", "file": text, "signature": sig}, sig)
    # 5b. a method whose path parameter is the empty quoted string has no path of its own: it stays under its URL
    for k, text in enumerate(['JSIGHT 0.3\nURL /zq\n  GET ""\n    200 any\n', 'JSIGHT 0.3\nURL /zq\n(\n  GET ""\n    200 any\n)\n',
                              'JSIGHT 0.3\nMACRO @zg\n(\n  GET ""\n    200 any\n)\nURL /zq\n(\n  PASTE @zg\n)\n']):
        o = harness("run", [{"id": "eq", "files": {"main.jst": b64(text)}, "root": "main.jst"}])["eq"]
        c0 = harness("run", [{"id": "eq0", "files": {"main.jst": b64(text.replace(' ""', ""))}, "root": "main.jst"}])["eq0"]
        chk.evaluations += 1
        chk.traces += 1
        chk.nontrivial.add("empty_path:%d" % k)
        if c0["outcome"] == "ok" and (o["outcome"] != "ok" or json.loads(o["json"]) != json.loads(c0["json"])):
            sig = {"devs": "none", "matches_impl": "no", "what": "empty path parameter"}
            chk.violation('a method written GET "" under a URL is not placed like GET without a parameter: %s | document:\n%s' % (
                o["outcome"] + " " + str((o.get("err") or {}).get("msg", "")), text), {"kind": "empty_path", "file": text, "signature": sig}, sig)
    # 6. a block that ends a context at the scan stage ends it at the expansion stage too: the directive written after a
    #    MACRO block (MACRO stands at top level only) has the same parent in both forests
    for k, (head, follower) in enumerate([("URL /zmb\n  GET\n    200 any\n", "POST\n  200 any\n"), ("URL /zmb\n  GET\n    200 any\n", "Tags @zt\n"),
                                          ("GET /zmb\n  200 any\n", "404 any\n"), ("TAG @zt\n", "Description\n  text\n")]):
        text = "JSIGHT 0.3\nTAG @zt\n" + head + "MACRO @zblock\n(\n  TYPE @zin any\n)\n" + follower
        o = harness("run", [{"id": "mb", "files": {"main.jst": b64(text)}, "root": "main.jst", "want": ["forest", "pastes"]}])["mb"]
        chk.evaluations += 1
        chk.traces += 1
        chk.nontrivial.add("macro_block:%d" % k)
        if "paste" not in o["stages"]:
            continue                 # rejected while scanning: the follower found no place - as the rule says
        fpos = text.encode().rfind(follower.split()[0].encode())
        pa, pb = flatten(o.get("forest") or []).get(("main.jst", fpos), "absent"), flatten(o.get("pastes") or []).get(("main.jst", fpos), "absent")
        if pa != pb:
            sig = {"devs": "none", "matches_impl": "no", "what": "placement differs between the scan stage and the expansion stage", "detail": "directive-after-a-macro-block"}
            chk.violation("the directive written after a MACRO block has parent %s after scanning and parent %s after the expansion stage | document:\n%s" % (pa, pb, text),
                          {"kind": "macro_block", "file": text, "follower_at": fpos, "signature": sig}, sig)
    chk.rule = ("documents = TLC-emitted symbol sequences (keyword kind, path flag, '(' , ')'): one per sampled "
                "(reachable state, symbol) pair of the closed graph, all sequences up to the bound, random walks "
                "to length 40; distinct = distinct symbol sequences; every one has >= 1 placement decision")
    chk.assumptions += [
        "renderer maps abstract items to bytes faithfully (minimal scan-valid form per kind)",
        "the scan stage has no state beyond (context chain, pending directive) - checked indirectly by random walks",
        "forest observed through the verif stage hook after scanProject",
    ]
    return chk.finish()


def replay(path):
    rp = json.load(open(path))["replay"]
    chk = Check("C06", "quick")
    if rp.get("kind") == "empty_path":
        o = harness("run", [{"id": "a", "files": {"main.jst": b64(rp["file"])}, "root": "main.jst"}, {"id": "b", "files": {"main.jst": b64(rp["file"].replace(' ""', ""))}, "root": "main.jst"}])
        chk.evaluations = 1
        if o["b"]["outcome"] == "ok" and (o["a"]["outcome"] != "ok" or json.loads(o["a"]["json"]) != json.loads(o["b"]["json"])):
            chk.violation("reproduced", rp, rp.get("signature"))
        return chk.finish()
    if rp.get("kind") == "same_code":
        o = harness("run", [{"id": "sc", "files": {"main.jst": b64(rp["file"])}, "root": "main.jst"}])["sc"]
        chk.evaluations = 1
        rs = json.loads(o["json"])["interactions"]["http GET /zsame"]["responses"] if o["outcome"] == "ok" else []
        if o["outcome"] != "ok" or len(rs) != 2 or "headers" in rs[0] or "headers" not in rs[1]:
            chk.violation("reproduced", rp, rp.get("signature"))
        return chk.finish()
    if rp.get("kind") == "macro_block":
        o = harness("run", [{"id": "mb", "files": {"main.jst": b64(rp["file"])}, "root": "main.jst", "want": ["forest", "pastes"]}])["mb"]
        chk.evaluations = 1
        key = ("main.jst", rp["follower_at"])
        if "paste" in o["stages"] and flatten(o.get("forest") or []).get(key, "absent") != flatten(o.get("pastes") or []).get(key, "absent"):
            chk.violation("reproduced", rp, rp.get("signature"))
        return chk.finish()
    if rp.get("kind") == "paste_pair":
        o = harness("run", [{"id": "a", "files": {"main.jst": b64(rp["inlined"])}, "root": "main.jst"},
                            {"id": "b", "files": {"main.jst": b64(rp["macro_form"])}, "root": "main.jst"}])
        chk.evaluations = 1
        if o["a"]["outcome"] == "error" and "scan" not in o["a"]["stages"] and o["b"]["outcome"] == "ok":
            chk.violation("reproduced", rp, rp.get("signature"))
        if rp["name"].startswith("paste_ok_") and o["a"]["outcome"] == "ok" and (o["b"]["outcome"] != "ok" or json.loads(o["a"]["json"]) != json.loads(o["b"]["json"])):
            chk.violation("reproduced", rp, rp.get("signature"))
        return chk.finish()
    run_docs(chk, [{"doc": rp["doc"], "out": rp["expected"], "nl": rp.get("nl", "\n"), "impl": {"v": "", "at": 0, "par": [], "devs": []}}], "r")
    return chk.finish()
