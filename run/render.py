"""Renderers: abstract documents emitted by TLC -> bytes.  Trusted base of the R binding;
every renderer returns a span map (item index -> byte offsets) so that observed error
locations and forest nodes can be projected back to abstract items."""

MIN_FORMS = {
    "JSIGHT": ("JSIGHT 0.3", None),
    "INFO": ("INFO", None),
    "Title": ('Title "T"', None),
    "Version": ("Version 1", None),
    "Description": ("Description", "    some text"),
    "SERVER": ("SERVER @s%d", None),
    "BaseUrl": ('BaseUrl "http://x"', None),
    "URL": ("URL /u%d", None),
    "Body": ("Body any", None),
    "Request": ("Request any", None),
    "HTTP-response-code": ("200 any", None),
    "Path": ("Path", '{\n  "id": 1\n}'),
    "Headers": ("Headers", '{\n  "h": 1\n}'),
    "Query": ("Query", '{\n  "q": 1\n}'),
    "TYPE": ("TYPE @t%d any", None),
    "ENUM": ("ENUM @e%d", "[1]"),
    "MACRO": ("MACRO @m%d", None),
    "PASTE": ("PASTE @p", None),
    "Protocol": ("Protocol json-rpc-2.0", None),
    "Method": ("Method foo%d", None),
    "Params": ("Params", "{}"),
    "Result": ("Result", "{}"),
    "TAG": ("TAG @g%d", None),
    "Tags": ("Tags @g", None),
}
HTTP = ("GET", "POST", "PUT", "PATCH", "DELETE")


def render_tree_doc(doc, nl="\n", indent=""):
    """doc: list of {"t": "kw"|"open"|"close", "k":..., "p":...}. "(" goes on its own line
    right after the keyword line and before the body, as the scanner requires.
    Returns (bytes, spans) with spans[i] = (begin, end) for item i (1-based like TLA+)."""
    out = []
    pos = 0
    spans = {}
    pending_body = None

    def emit(s):
        nonlocal pos
        out.append(s)
        pos += len(s.encode())

    def flush_body():
        nonlocal pending_body
        if pending_body is not None:
            emit(indent + pending_body.replace("\n", nl + indent) + nl)
            pending_body = None

    for i, it in enumerate(doc, 1):
        if it["t"] == "kw":
            flush_body()
            k = it["k"]
            if k in HTTP:
                line = k + (" /m%d" % i if it["p"] else "")
                body = None
            else:
                line, body = MIN_FORMS[k]
                if "%d" in line:
                    line = line % i
            emit(indent)
            b = pos
            emit(line + nl)
            spans[i] = (b, b + len(k if k != "HTTP-response-code" else "200"))
            pending_body = body
        elif it["t"] == "open":
            emit(indent)
            spans[i] = (pos, pos + 1)
            emit("(" + nl)
            flush_body()
        else:
            flush_body()
            emit(indent)
            spans[i] = (pos, pos + 1)
            emit(")" + nl)
    flush_body()
    return "".join(out).encode(), spans
