"""Renderers: abstract documents emitted by TLC -> bytes.  Trusted base of the R binding;
every renderer returns a span map (item index -> byte offsets) so that observed error
locations and forest nodes can be projected back to abstract items."""

MIN_FORMS = {
    "JSIGHT": ("JSIGHT 0.3", None),
    "INFO": ("INFO", None),
    "Title": ('Title "T"', None),
    "Version": ("Version 1", None),
    "Description": ("Description", "    some text"),
    "SERVER": ("SERVER @s%d", None),
    "BaseUrl": ('BaseUrl "http://x"', None),
    "URL": ("URL /u%d", None),
    "Body": ("Body any", None),
    "Request": ("Request any", None),
    "HTTP-response-code": ("200 any", None),
    "Path": ("Path", '{\n  "id": 1\n}'),
    "Headers": ("Headers", '{\n  "h": 1\n}'),
    "Query": ("Query", '{\n  "q": 1\n}'),
    "TYPE": ("TYPE @t%d any", None),
    "ENUM": ("ENUM @e%d", "[1]"),
    "MACRO": ("MACRO @m%d", None),
    "PASTE": ("PASTE @p", None),
    "Protocol": ("Protocol json-rpc-2.0", None),
    "Method": ("Method foo%d", None),
    "Params": ("Params", "{}"),
    "Result": ("Result", "{}"),
    "TAG": ("TAG @g%d", None),
    "Tags": ("Tags @g", None),
}
HTTP = ("GET", "POST", "PUT", "PATCH", "DELETE")


def render_tree_project(doc, nl="\n", indent=""):
    """doc: list of {"t": "kw"|"open"|"close"|"fb"|"fe", "k":..., "p":...}.  "(" goes on its own line
    right after the keyword line and before the body, as the scanner requires.  "fb" writes an
    INCLUDE line and continues in a fresh file inc<i>.jst, "fe" ends that file; a body stays in the
    file of its keyword.
    Returns (files, spans): files = {name: bytes} with main.jst the root, spans[i] = (file, begin, end)
    for item i (1-based like TLA+; for "fe": the file that ends, its length, its length)."""
    outs = {"main.jst": []}
    poss = {"main.jst": 0}
    stack = ["main.jst"]
    spans = {}
    pending_body = None        # (file, text)

    def emit(s):
        f = stack[-1]
        outs[f].append(s)
        poss[f] += len(s.encode())

    def flush_body():
        nonlocal pending_body
        if pending_body is not None:
            f, text = pending_body
            s = indent + text.replace("\n", nl + indent) + nl
            outs[f].append(s)
            poss[f] += len(s.encode())
            pending_body = None

    for i, it in enumerate(doc, 1):
        t = it["t"]
        if t == "kw":
            flush_body()
            k = it["k"]
            if k in HTTP:
                line = k + (" /m%d" % i if it["p"] else "")
                body = None
            else:
                line, body = MIN_FORMS[k]
                if "%d" in line:
                    line = line % i
            if it.get("line"):             # explicit spelling of the keyword line (e.g. MACRO / PASTE naming one macro)
                line = it["line"]
            emit(indent)
            b = poss[stack[-1]]
            emit(line + nl)
            spans[i] = (stack[-1], b, b + len(k if k != "HTTP-response-code" else "200"))
            pending_body = (stack[-1], body) if body is not None else None
        elif t == "open":
            emit(indent)
            spans[i] = (stack[-1], poss[stack[-1]], poss[stack[-1]] + 1)
            emit("(" + nl)
            flush_body()
        elif t == "close":
            flush_body()
            emit(indent)
            spans[i] = (stack[-1], poss[stack[-1]], poss[stack[-1]] + 1)
            emit(")" + nl)
        elif t == "fb":
            flush_body()           # the body belongs to the file of its keyword
            name = "inc%d.jst" % i
            emit(indent)
            spans[i] = (stack[-1], poss[stack[-1]], poss[stack[-1]] + 7)
            emit("INCLUDE " + name + nl)
            outs[name] = []
            poss[name] = 0
            stack.append(name)
        elif t == "fe":
            flush_body()
            f = stack.pop() if len(stack) > 1 else stack[-1]
            spans[i] = (f, poss[f], poss[f])
    flush_body()
    return {f: "".join(parts).encode() for f, parts in outs.items()}, spans


def render_tree_doc(doc, nl="\n", indent=""):
    """single-file documents (no "fb"/"fe"): (bytes, spans) with spans[i] = (begin, end)"""
    files, spans = render_tree_project(doc, nl, indent)
    assert list(files) == ["main.jst"], "render_tree_doc: the document has file boundaries"
    return files["main.jst"], {i: (b, e) for i, (f, b, e) in spans.items()}
