"""Paste graphs enumerated by TLC (spec/JSightMacro.tla), replayed into the real code."""
import json

import rel
from common import harness, seed, tlc, tlc_ok

ORDERS = ['{"@b", "@c", "@a"}', '{"@m", "@a", "@z"}']


def payload(m):
    n = m[1:]
    if n in ("b", "m"):
        return "ENUM @e%s\n  [\n    1\n  ]" % n, ("userEnums", "@e" + n)
    return "TYPE @t%s any" % n, ("userTypes", "@t" + n)


def render(g, top, flip):
    parts = ["JSIGHT 0.3"]
    tops = ["PASTE %s" % x for x in top]
    defs = []
    names = sorted(g) if not flip else sorted(g, reverse=True)
    for m in names:
        body = ["  " + payload(m)[0]] + ["  PASTE %s" % x for x in g[m]]
        defs.append("MACRO %s\n(\n%s\n)" % (m, "\n".join(body)))
    parts += (tops + defs) if flip else (defs + tops)
    return "\n".join(parts) + "\n"


def run(chk, tier, pid):
    thorough = tier == "thorough"
    sd = seed()
    total = 0
    for oi, defined in enumerate(ORDERS):
        names = json.loads("[" + defined[1:-1] + "]")
        targets = "{" + ", ".join('"%s"' % n for n in names + ["@u"]) + "}"
        mod = 12 if thorough else 50
        r = tlc_ok(tlc("JSightMacro", "JSightMacro.cfg", timeout=3000,
                       consts={"Defined": defined, "Targets": targets, "SampleMod": str(mod), "SamplePick": str((sd + oi) % mod)}),
                   "JSightMacro")
        chk.add_tlc(r)
        cases, meta = [], {}
        for n, m in enumerate(r.mbt):
            text = render(m["g"], m["top"], n % 2 == 1)
            cid = "mg%d_%d" % (oi, n)
            cases.append(rel.case(cid, text, timeout=20000))
            meta[cid] = (m, text)
        obs = harness("run", cases)
        for cid, (m, text) in meta.items():
            o = obs[cid]
            total += 1
            chk.evaluations += 1
            chk.traces += 1
            chk.nontrivial.add(json.dumps([m["g"], m["top"]], sort_keys=True))
            want = m["verdict"]
            bad = None
            if o["outcome"] in ("panic", "fatal", "timeout"):
                bad = "%s: %s" % (o["outcome"], o.get("panic", "")[:120])
            elif want.startswith("rejected") and o["outcome"] != "error":
                bad = "paste graph must be %s, observed %s" % (want, rel.describe(o))
            elif want == "accepted":
                if o["outcome"] != "ok":
                    bad = "acyclic paste graph without duplicates must be accepted, observed %s" % rel.describe(o)
                else:
                    cat = json.loads(o["json"])
                    have = sorted([("userTypes", k) for k in cat.get("userTypes", {})] + [("userEnums", k) for k in cat.get("userEnums", {})])
                    exp = sorted(payload(x)[1] for x in m["payloads"])
                    if have != exp:
                        bad = "expansion contributes %s, expected exactly the payloads of the macros reached once: %s" % (have, exp)
            if bad:
                sig = {"variant": "paste_graph", "what": want + "/" + o["outcome"], "frames": ",".join(o.get("frames") or [])}
                chk.violation("%s | graph %s top %s | document:\n%s" % (bad, json.dumps(m["g"]), m["top"], text),
                              {"kind": "paste_graph", "graph": m["g"], "top": m["top"], "file": text, "expected": want,
                               "expected_from": "JSightMacro!Verdict", "observed": o, "signature": sig}, sig)
        if meta:
            x = next(iter(meta.values()))
            chk.sample({"paste_graph": x[0]["g"], "top": x[0]["top"], "meaning": x[0]["verdict"]})
    chk.extra["paste_graphs_replayed"] = total
    return total
