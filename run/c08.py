"""C08 INCLUDE: textual inclusion, cycle-free, confined to the project directory.

The document and the block range to cut out are chosen by TLC (JSightApi!Tx); the multi-file
forms are built from it: one include, include in a sub-directory that includes a deeper file,
two includes from one place, the children of a URL in a file, one file included from two
places.  Two real runs (flattened vs multi-file): same verdict, same catalog.  Include cycles,
missing file, directory, unreadable file, JSIGHT in an included file and every rejected file
name must give a JApiError; every file access the library makes (verif hook) must stay under
the project directory and canary files next to it must not be touched.
The file-name validator is judged separately on all strings over {. / \\ a} (c08 names)."""
import copy
import os
import json
import random

import apidoc
import incgraph
import rel
import textfn
from common import Check, b64, harness, seed


def inc(f):
    return {"t": "include", "file": f}


def text_of(blocks, style=None):
    return apidoc.render(blocks, style, header=False)[0]


def file_style(rnd):
    """surface of one file: every file of a project may have its own line ends, indentation and trailing blanks
    (comments and quoting are C05's subject, with its own controls for finding F-29)"""
    return apidoc.Style(nl=rnd.choice(["\n", "\r\n", "\r"]), indent=rnd.choice(["", "  ", "\t"]), trailing=rnd.choice([True, False]), rnd=rnd)


def forms(doc, tx, rnd):
    """-> list of (name, main document blocks, {file: text})"""
    res = []
    fr, to = tx["range"]["from"], tx["range"]["to"]
    rng = doc[fr - 1:to]
    pre, post = doc[:fr - 1], doc[to:]
    res.append(("one", pre + [inc("inc1.jst")] + post, {"inc1.jst": text_of(rng)}))
    h = max(1, len(rng) // 2)
    res.append(("nested_dirs", pre + [inc("sub/inc1.jst")] + post,
                {"sub/inc1.jst": text_of(rng[:h] + [inc("deep/inc2.jst")]), "sub/deep/inc2.jst": text_of(rng[h:])}))
    res.append(("two_from_one_place", pre + [inc("a.jst"), inc("dir/b.jst")] + post,
                {"a.jst": text_of(rng[:h]), "dir/b.jst": text_of(rng[h:])}))
    # the same spelling "part.jst" used from two directories names two different files
    a, b = max(1, len(rng) // 3), max(2, 2 * len(rng) // 3)
    res.append(("same_name_in_two_dirs", pre + [inc("part.jst"), inc("sub/mid.jst")] + post,
                {"part.jst": text_of(rng[:a]), "sub/mid.jst": text_of(rng[a:b] + [inc("part.jst")]), "sub/part.jst": text_of(rng[b:])}))
    res.append(("with_empty_and_comment_files", pre + [inc("e.jst"), inc("inc1.jst"), inc("c.jst")] + post,
                {"inc1.jst": text_of(rng), "e.jst": "", "c.jst": "# only a comment\n\n"}))
    # every file with a surface of its own (line ends, indentation, comments, quoting)
    res.append(("nested_dirs_styled", pre + [inc("sub/inc1.jst")] + post,
                {"sub/inc1.jst": text_of(rng[:h] + [inc("deep/inc2.jst")], file_style(rnd)), "sub/deep/inc2.jst": text_of(rng[h:], file_style(rnd))}))
    res.append(("two_from_one_place_styled", pre + [inc("a.jst"), inc("dir/b.jst")] + post,
                {"a.jst": text_of(rng[:h], file_style(rnd)), "dir/b.jst": text_of(rng[h:], file_style(rnd))}))
    # MACRO and INCLUDE together: the definition of a macro in an included file, its PASTE in another one
    MACROABLE = {"info", "server", "type", "enum", "url", "method", "rpc"}
    if all(b["t"] in MACROABLE for b in rng):
        mac = {"t": "macro", "name": "@zim", "items": rng}
        pst = {"t": "paste", "name": "@zim"}
        # (compared with the same macro form written in one file: a macro form can be unacceptable for reasons of its own)
        res.append(("macro_defined_in_include", pre + [pst] + post + [inc("macros/defs.jst")], {"macros/defs.jst": text_of([mac])},
                    pre + [pst] + post + [mac]))
        res.append(("paste_in_include", [mac] + pre + [inc("uses.jst")] + post, {"uses.jst": text_of([pst])}, [mac] + pre + [pst] + post))
        res.append(("macro_and_paste_in_two_includes", pre + [inc("a/uses.jst")] + post + [inc("b/defs.jst")],
                    {"a/uses.jst": text_of([pst]), "b/defs.jst": text_of([mac])}, pre + [pst] + post + [mac]))
    for i, b in enumerate(doc):
        if b["t"] == "url" and b["methods"]:
            nb = copy.deepcopy(b)
            ms = nb["methods"]
            k = rnd.randrange(len(ms))
            nb["methods"], nb["extra"] = ms[:k], [inc("methods.jst")]
            res.append(("url_children", doc[:i] + [nb] + doc[i + 1:],
                        {"methods.jst": text_of([{"t": "bare_method", "m": m} for m in ms[k:]])}))
            break
    return res


GET_FILE = 'GET // shared\n  Path\n  {\n    "zid": 1\n  }\n  200 any\n'


def twice_form(doc):
    """one file included from two places (and its flattened equivalent)"""
    def url(p, extra):
        return {"t": "url", "path": [p, "{zid}"], "tags": [], "pathdecl": [], "methods": [], "extra": extra}
    raw = {"t": "raw", "lines": GET_FILE.rstrip("\n").split("\n"), "label": "GET"}
    flat = doc + [url("zi1", [raw]), url("zi2", [raw])]
    multi = doc + [url("zi1", [inc("shared/get.jst")]), url("zi2", [inc("shared/get.jst")])]
    return flat, multi, {"shared/get.jst": GET_FILE}


def twin_text(n, w):
    """one resource file made from a template: for n = 'a' / 'b' the files have the same layout byte for byte, only the
    names differ, so every body and every text sits at the same offsets in both"""
    return ('GET /tw%(n)s // note %(n)s\n  Description\n    text of %(w)s\n  Query "q%(n)s=1"\n  {\n    "q%(n)s": 1\n  }\n  200\n    Headers\n    {\n      "h%(n)s": "v"\n    }\n    Body\n    {\n      "b%(n)s": 1\n    }\n'
            'URL /rtw%(n)s\n  Protocol json-rpc-2.0\n  Method m%(n)s\n    Description\n    (\n      rpc text %(w)s\n    )\n    Params\n    {\n      "p%(n)s": 1\n    }\n    Result\n    {\n      "r%(n)s": 1\n    }\n'
            'TYPE @tw%(n)s\n{\n  "k%(n)s": 1\n}\nENUM @ew%(n)s\n[\n  "%(n)s"\n]\nTAG @gw%(n)s\n  Description\n    tag text %(w)s\nURL /ptw%(n)s/{i%(n)s}\n  Path\n  {\n    "i%(n)s": 1\n  }\n  GET\n    200 regex\n    /%(n)s+/\n') % {"n": n, "w": w}


def twin_projects():
    """-> list of (name, flattened text, main text, files)"""
    res = []
    for nm, (wa, wb) in (("twins", ("cats", "dogs")), ("twins_three", ("hens", "pigs"))):
        ta, tb = twin_text("a", wa), twin_text("b", wb)
        files = {"res/a.jst": ta, "res/b.jst": tb}
        main = "JSIGHT 0.3\nINCLUDE res/a.jst\nINCLUDE res/b.jst\n"
        if nm == "twins_three":
            files["res/c.jst"] = twin_text("c", "owls")
            main += "INCLUDE res/c.jst\n"
        res.append((nm, "JSIGHT 0.3\n" + "".join(files[k] for k in sorted(files)), main, files))
    # the file name written in double quotes like any other parameter: a name that needs none, a name with a blank,
    # a name in a subdirectory, a name with an escaped backslash-free quote-free body next to an annotation-like tail
    for k, (fname, written) in enumerate([("part.jst", '"part.jst"'), ("two words.jst", '"two words.jst"'), ("sub/p.jst", '"sub/p.jst"'), ("h#sh.jst", '"h#sh.jst"')]):
        body = "TYPE @zquoted%d any\nGET /zquoted%d\n  200 any\n" % (k, k)
        res.append(("quoted_file_name_%d" % k, "JSIGHT 0.3\n" + body + "TYPE @zafter any\n", "JSIGHT 0.3\nINCLUDE %s\nTYPE @zafter any\n" % written, {fname: body}))
    # what an included file leaves open stays open: a '###' block comment (opened between directives / on a directive line / at
    # the very beginning) that its file never closes (only the unclosed text is compared: closing it in the includer would split a
    # comment, not move complete directives)
    for k, body in enumerate(["TYPE @zopen1 any\n###\n  left open\n", "TYPE @zopen1 any ###\n  left open\n", "###\nTYPE @zhidden any\n"]):
        rest = "TYPE @zrest any\nGET /zrest\n  200 any\n"
        res.append(("unclosed_block_comment_%d" % k, "JSIGHT 0.3\n" + body + rest, "JSIGHT 0.3\nINCLUDE open.jst\n" + rest, {"open.jst": body}))
    # long chains of nested INCLUDEs of distinct files (depth, not count): every level adds one declaration and, at the
    # end, includes the next one; also as children of one method
    for depth in (8, 17, 24, 40):
        files, flat = {}, ["JSIGHT 0.3"]
        for k in range(1, depth + 1):
            body = "TYPE @zchain%d any\n" % k
            flat.append(body.rstrip("\n"))
            files["c/l%d.jst" % k] = body + ("INCLUDE l%d.jst\n" % (k + 1) if k < depth else "")
        res.append(("chain_of_%d_files" % depth, "\n".join(flat) + "\n", "JSIGHT 0.3\nINCLUDE c/l1.jst\n", files))
        files, flat = {}, ["JSIGHT 0.3", "GET /zchain", "  200 any"]
        for k in range(1, depth + 1):
            body = "  %d any\n" % (400 + k)
            flat.append(body.rstrip("\n"))
            files["r%d.jst" % k] = body + ("INCLUDE r%d.jst\n" % (k + 1) if k < depth else "")
        res.append(("chain_of_%d_files_of_children" % depth, "\n".join(flat) + "\n", "JSIGHT 0.3\nGET /zchain\n  200 any\nINCLUDE r1.jst\n", files))
    return res


def reject_cases(doc):
    """-> list of (name, main blocks, files, dirs, noread)"""
    t = "TYPE @zi any\n"
    res = [
        ("missing", doc + [inc("nofile.jst")], {}, [], []),
        ("directory", doc + [inc("adir")], {}, ["adir"], []),
        ("unreadable", doc + [inc("secret.jst")], {"secret.jst": t}, [], ["secret.jst"]),
        ("self_cycle", doc + [inc("main.jst")], {}, [], []),
        ("cycle2", doc + [inc("x.jst")], {"x.jst": "INCLUDE y.jst\n", "y.jst": "INCLUDE x.jst\n"}, [], []),
        ("cycle3_dirs", doc + [inc("d/x.jst")], {"d/x.jst": "INCLUDE e/y.jst\n", "d/e/y.jst": "INCLUDE z.jst\n",
                                                "d/e/z.jst": t + "INCLUDE y.jst\n"}, [], []),
        ("cycle_back_to_root", doc + [inc("x.jst")], {"x.jst": t + "INCLUDE main.jst\n"}, [], []),
        ("jsight_in_included", doc + [inc("j.jst")], {"j.jst": "JSIGHT 0.3\n" + t}, [], []),
        ("no_name", doc + [{"t": "raw", "lines": ["INCLUDE"], "label": "INCLUDE"}], {}, [], []),
        # a directory of the project that is a symbolic link to a directory outside it
        ("symlink_escape", doc + [inc("ln/canary.jst")], {}, [], [], {"ln": "../outside"}),
    ]
    for bad in ["/etc/passwd", "../outside/canary.jst", "./x.jst", "a/../../outside/canary.jst", "a\\\\x.jst",
                "sub/../x.jst", "..", "a/./x.jst", "a/.."]:
        res.append(("badname:" + bad, doc + [inc(bad)], {"x.jst": t, "a/x.jst": t}, ["a", "sub"], []))
    # the same kinds of names written in double quotes (the files exist relative to the including file)
    for bad in ["/x.jst", "/a/x.jst", "../outside/canary.jst", "a/../x.jst", "./x.jst", "a\\\\x.jst"]:
        res.append(("badname:quoted:" + bad, doc + [inc('"%s"' % bad)], {"x.jst": t, "a/x.jst": t}, ["a", "sub"], []))
    return res


def confined(o):
    """every path the library touched, relative to the project dir, must stay inside it"""
    for op, p in o.get("fileops") or []:
        if op == "read" and (p.startswith("..") or p.startswith("/")):
            return "%s of %r which is outside the project directory" % (op, p)
        if op == "read-resolves-to":
            return "a file outside the project directory was opened through a symbolic link: it resolves to %r" % p
    return None


def main(tier):
    chk = Check("C08", tier)
    rnd = random.Random(seed())
    textfn.check_incnames(chk, tier)
    docs = rel.valid_docs(chk, tier, [(450, 4), (350, 7)], [(5000, 4), (4000, 7), (2000, 9)])
    cases, meta, rej = [], {}, {}
    for n, m in enumerate(docs):
        d = m["doc"]
        base, _, _ = apidoc.render(d)
        cases.append(rel.case("b%d" % n, base))
        fl = forms(d, m["tx"][0], rnd)
        flat, multi, tf = twice_form(d)
        cases.append(rel.case("t%d" % n, apidoc.render(flat)[0]))
        for form in fl + [("same_file_twice", multi, tf)]:
            nm, main_blocks, files = form[:3]
            cid = "i%d_%s" % (n, nm)
            main_text = apidoc.render(main_blocks)[0]
            ff = {"main.jst": b64(main_text)}
            ff.update({k: b64(v) for k, v in files.items()})
            cases.append({"id": cid, "files": ff, "root": "main.jst", "outside": ["outside/canary.jst"]})
            baseid = "t%d" % n if nm == "same_file_twice" else "b%d" % n
            if len(form) > 3:             # a form with a single-file equivalent of its own
                baseid = "o%d_%s" % (n, nm)
                cases.append(rel.case(baseid, apidoc.render(form[3])[0]))
            meta[cid] = (baseid, nm, m, main_text, files)
            # the same project opened through other spellings of the root path
            if n % 3 == 0:
                for k, spelling in enumerate(["./main.jst", ".//main.jst", "sub/../main.jst" if any(x.startswith("sub/") for x in files) else "././main.jst"]):
                    rid = cid + "_root%d" % k
                    cases.append({"id": rid, "files": ff, "root": "main.jst", "rawroot": spelling})
                    meta[rid] = (baseid, nm + ":root=" + spelling, m, main_text, files)
        if n % (1 if tier == "thorough" else 10) == 0:
            for rc in reject_cases(d):
                nm, main_blocks, files, dirs, noread = rc[:5]
                cid = "x%d_%s" % (n, nm)
                main_text = apidoc.render(main_blocks)[0]
                ff = {"main.jst": b64(main_text)}
                ff.update({k: b64(v) for k, v in files.items()})
                cases.append({"id": cid, "files": ff, "root": "main.jst", "dirs": dirs, "noread": noread,
                              "outside": ["outside/canary.jst"], "symlinks": rc[5] if len(rc) > 5 else {}})
                rej[cid] = (nm, m, main_text, files)
    for nm, flat_text, main_text, files in twin_projects():
        cases.append(rel.case("twf_" + nm, flat_text))
        ff = {"main.jst": b64(main_text)}
        ff.update({k: b64(v) for k, v in files.items()})
        cases.append({"id": "twm_" + nm, "files": ff, "root": "main.jst"})
        meta["twm_" + nm] = ("twf_" + nm, nm, {"doc": []}, main_text, files)
    obs = harness("run", cases)
    for cid, (bid, nm, m, main_text, files) in meta.items():
        a, b = obs[bid], obs[cid]
        chk.evaluations += 1
        chk.traces += 1
        chk.nontrivial.add(nm + json.dumps(m["doc"], sort_keys=True))
        bad = None
        if rel.result_key(a) != rel.result_key(b):
            bad = "moving directives into included files changed the result: flattened %s, multi-file %s %s" % (
                rel.describe(a), rel.describe(b),
                rel.json_diff(a["json"], b["json"]) if a["outcome"] == b["outcome"] == "ok" else "")
        elif confined(b):
            bad = confined(b)
        if bad:
            sig = {"form": nm, "what": bad.split(":")[0][:60], "frames": ",".join(b.get("frames") or [])}
            chk.violation("%s (%s) | main file:\n%s\nfiles: %s" % (bad, nm, main_text[:900], json.dumps(files)[:600]),
                          {"kind": "include_pair", "form": nm, "doc": m["doc"], "main": main_text, "files": files,
                           "observed_flat": a, "observed_multi": b, "signature": sig}, sig)
    for cid, (nm, m, main_text, files) in rej.items():
        o = obs[cid]
        chk.evaluations += 1
        chk.traces += 1
        chk.nontrivial.add(nm + json.dumps(m["doc"], sort_keys=True))
        bad = None
        if o["outcome"] != "error":
            bad = "must be rejected with a diagnostic, observed: %s" % rel.describe(o)
        elif confined(o):
            bad = confined(o)
        if bad:
            sig = {"form": nm.split(":")[0], "what": o["outcome"], "frames": ",".join(o.get("frames") or []),
                   "name": nm.split(":", 1)[1] if ":" in nm else ""}
            chk.violation("%s: %s | main file tail:\n%s" % (nm, bad, main_text[-300:]),
                          {"kind": "include_reject", "form": nm, "doc": m["doc"], "main": main_text, "files": files,
                           "observed": o, "signature": sig}, sig)
    if meta:
        x = next(iter(meta.values()))
        chk.sample({"form": x[1], "main": x[3][:500], "files": {k: v[:200] for k, v in x[4].items()}})
    # include graphs enumerated by TLC (spec/JSightInclude.tla), replayed with the file-operation hook on
    incgraph.run(chk, tier, "C08")
    import fixrel
    gen = fixrel.from_texts([("generated-%d" % n, apidoc.render(m["doc"])[0]) for n, m in enumerate(docs) if n % (2 if tier == "thorough" else 4) == 0])
    fixrel.c08(chk, tier, extra=gen)
    chk.rule = ("pairs (flattened document, multi-file project) for forms one / nested_dirs / two_from_one_place / "
                "with_empty_and_comment_files / url_children / same_file_twice; rejection cases: missing, directory, "
                "unreadable, self/2/3-cycles, cycle back to the root, JSIGHT in included file, INCLUDE without name, 9 bad names; "
                "plus the exhaustive file-name table (see coverage.incname)")
    chk.assumptions += ["file accesses observed through the verif hook at os.Stat/os.ReadFile in core/include.go"]
    return chk.finish()


def replay(path):
    rp = json.load(open(path))["replay"]
    if rp.get("kind") in ("fxpair", "fxban"):
        import fixrel
        return fixrel.replay("C08", rp)
    chk = Check("C08", "quick")
    chk.evaluations = 1
    if rp["kind"] == "include_graph":
        incgraph.replay(chk, rp, "C08")
        return chk.finish()
    ff = {"main.jst": b64(rp["main"])}
    ff.update({k: b64(v) for k, v in rp["files"].items()})
    obs = harness("run", [{"id": "a", "files": ff, "root": "main.jst"}])
    o = obs["a"]
    if rp["kind"] == "include_reject":
        if o["outcome"] != "error":
            chk.violation("must be rejected, observed %s" % rel.describe(o), rp, rp.get("signature"))
    else:
        if rel.result_key(o) != rel.result_key(rp["observed_flat"]):
            chk.violation("multi-file result %s differs from flattened %s" % (rel.describe(o), rel.describe(rp["observed_flat"])), rp, rp.get("signature"))
    return chk.finish()
