"""Shared machinery for the /verif checks: harness build, TLC runs, crash-isolated
execution of the real code, evidence and verdict handling.

Verdict rule (DESIGN.md 2.4): a VIOLATION is only reported from behaviour observed on the
real code; anything else that goes wrong (TLC failure, dead harness, timeout of the
machinery itself) is exit 2 (inconclusive)."""
import base64
import atexit
import json
import os
import re
import shutil
import subprocess
import sys
import tempfile
import time
from concurrent.futures import ThreadPoolExecutor

VERIF = os.path.dirname(os.path.dirname(os.path.abspath(__file__)))
REPO = os.environ.get("VERIF_REPO", "/repo")
SPEC = os.path.join(VERIF, "spec")
BUILD = os.path.join(VERIF, ".build")
# runs against a scratch tree (mutant matrix, self-test) write their evidence elsewhere
EVID = os.environ.get("VERIF_EVIDENCE_DIR") or os.path.join(VERIF, "evidence")
# one harness binary per check process: concurrent checks (or checks against different trees, VERIF_REPO)
# never share a build output
VH = os.path.join(BUILD, "vh.%d" % os.getpid())
NCPU = os.cpu_count() or 4

GOENV = dict(os.environ, GOFLAGS="-mod=mod", GOPROXY="off", GOSUMDB="off", GOTOOLCHAIN="local",
             CGO_ENABLED=os.environ.get("CGO_ENABLED", "0"))


class Inconclusive(Exception):
    pass


def seed():
    try:
        return int(os.environ.get("VERIF_SEED", "1"))
    except ValueError:
        return 1


def b64(b):
    if isinstance(b, str):
        b = b.encode("utf-8", "surrogateescape")
    return base64.b64encode(b).decode()


def unb64(s):
    return base64.b64decode(s)


# --------------------------------------------------------------------------------------
# harness build


def _cleanup_build():
    for suffix in ("", "-race"):
        try:
            os.remove(VH + suffix)
        except OSError:
            pass
    shutil.rmtree(os.path.join(BUILD, "src.%d" % os.getpid()), ignore_errors=True)


def _sweep_stale():
    """removes build outputs of check processes that no longer exist (killed before their cleanup ran)"""
    try:
        names = os.listdir(BUILD)
    except OSError:
        return
    for nm in names:
        m = re.match(r"(?:vh|src)\.(\d+)(?:-race)?$", nm)
        if m and not os.path.exists("/proc/%s" % m.group(1)):
            p = os.path.join(BUILD, nm)
            if os.path.isdir(p):
                shutil.rmtree(p, ignore_errors=True)
            else:
                try:
                    os.remove(p)
                except OSError:
                    pass


def build_harness(race=False):
    """(Re)builds the Go harness against the working tree of the repository under test (/repo, or
    VERIF_REPO) with hooks enabled, from a private copy of harness/ so that nothing under /verif is rewritten."""
    os.makedirs(BUILD, exist_ok=True)
    _sweep_stale()
    atexit.register(_cleanup_build)
    hdir = os.path.join(BUILD, "src.%d" % os.getpid())
    shutil.rmtree(hdir, ignore_errors=True)
    os.makedirs(hdir)
    src = os.path.join(VERIF, "harness")
    for f in os.listdir(src):
        if f.endswith(".go") or f == "go.mod":
            shutil.copy(os.path.join(src, f), hdir)
    gosum = os.path.join(REPO, "go.sum")
    if os.path.exists(gosum):
        shutil.copy(gosum, os.path.join(hdir, "go.sum"))
    # the replace directive must point at the repo under test
    gomod = os.path.join(hdir, "go.mod")
    txt = open(gomod).read()
    new = re.sub(r"(replace github.com/jsightapi/jsight-api-go-library => ).*", r"\g<1>" + REPO, txt)
    open(gomod, "w").write(new)
    out = VH + ("-race" if race else "")
    env = dict(GOENV)
    cmd = ["go", "build", "-tags", "verif", "-o", out]
    if race:
        env["CGO_ENABLED"] = "1"
        cmd.insert(2, "-race")
    cmd.append(".")
    p = subprocess.run(cmd, cwd=hdir, env=env, capture_output=True, text=True)
    if p.returncode != 0:
        raise Inconclusive("harness build failed (does /repo still compile with -tags verif?):\n" + p.stderr[-3000:])
    return out


# --------------------------------------------------------------------------------------
# crash-isolated execution of harness batches


def _run_shard(binary, sub, lines, env=None):
    """Feeds NDJSON case lines to one harness process; restarts after a fatal crash or a
    timeout so that one bad case costs only itself. Returns list of observation dicts."""
    res = []
    i = 0
    while i < len(lines):
        p = subprocess.Popen([binary, sub], stdin=subprocess.PIPE, stdout=subprocess.PIPE,
                             stderr=subprocess.PIPE, env=env)
        try:
            out, err = p.communicate(("\n".join(lines[i:]) + "\n").encode(), timeout=3600)
        except subprocess.TimeoutExpired:
            p.kill()
            out, err = p.communicate()
        begun = None
        done = 0
        for ln in out.splitlines():
            if not ln.strip():
                continue
            try:
                o = json.loads(ln)
            except ValueError:
                continue
            if "begin" in o and len(o) == 1:
                begun = o["begin"]
                continue
            if "harness_error" in o:
                raise Inconclusive("harness error: " + o["harness_error"])
            res.append(o)
            done += 1
            begun = None
        if p.returncode == 0:
            i += done
            if done == 0 and i < len(lines):
                raise Inconclusive("harness produced no output")
            continue
        # non-zero exit: either exit(3) after a reported timeout, or a fatal crash
        if begun is not None:
            tail = err.decode("utf-8", "replace")
            kind = "fatal"
            m = re.search(r"(fatal error: [^\n]*|runtime: goroutine stack exceeds[^\n]*|panic: [^\n]*)", tail)
            frames = re.findall(r"(github.com/jsightapi/jsight-api-go-library[^\s(]*)\(", tail)[:6]
            res.append({"id": begun, "outcome": kind, "panic": m.group(1) if m else tail[-300:],
                        "frames": frames, "stages": [], "fileops": []})
            done += 1
        elif done == 0:
            raise Inconclusive("harness died without output: " + err.decode("utf-8", "replace")[-500:])
        i += done
    return res


def harness(sub, cases, nproc=None, race=False, env=None):
    """Runs cases (dicts with an 'id') through harness subcommand `sub` on nproc processes."""
    if not cases:
        return {}
    binary = VH + ("-race" if race else "")
    nproc = nproc or NCPU
    lines = [json.dumps(c) for c in cases]
    n = max(1, min(nproc, (len(lines) + 7) // 8))
    shards = [lines[k::n] for k in range(n)]
    with ThreadPoolExecutor(max_workers=n) as ex:
        outs = list(ex.map(lambda s: _run_shard(binary, sub, s, env), shards))
    res = {}
    for o in outs:
        for r in o:
            res[r["id"]] = r
    missing = [c["id"] for c in cases if c["id"] not in res]
    if missing:
        raise Inconclusive("harness lost %d cases, first %s" % (len(missing), missing[0]))
    return res


# --------------------------------------------------------------------------------------
# TLC


class TLCResult:
    def __init__(self):
        self.rc = None
        self.out = ""
        self.states = 0        # distinct states
        self.generated = 0     # states generated (transitions examined)
        self.diameter = 0
        self.mbt = []          # decoded MBT records
        self.violated = None   # name of violated invariant / property, if any
        self.error = None      # other error text
        self.wall = 0.0
        self.coverage = {}


def tlc(module, cfg, workers=None, simulate=None, depth=None, tlc_seed=None, timeout=900,
        extra=None, dfs=False, files=None, coverage=False, consts=None, deadlock=True):
    """Runs TLC on spec/<module>.tla with spec/<cfg> in a scratch copy of spec/.
    `files` maps file names to contents to be placed next to the spec (trace inputs).
    `consts` maps names to TLA+ expressions, appended to a copy of the cfg as CONSTANTS."""
    t0 = time.time()
    work = tempfile.mkdtemp(prefix="vtlc")
    try:
        for f in os.listdir(SPEC):
            if f.endswith((".tla", ".cfg")):
                shutil.copy(os.path.join(SPEC, f), work)
        for name, content in (files or {}).items():
            mode = "wb" if isinstance(content, bytes) else "w"
            with open(os.path.join(work, name), mode) as fh:
                fh.write(content)
        if consts:
            with open(os.path.join(work, cfg), "a") as fh:
                fh.write("\nCONSTANTS\n")
                for k, v in consts.items():
                    fh.write("  %s = %s\n" % (k, v))
        cmd = ["tlc", "-config", cfg, "-metadir", os.path.join(work, "meta"), "-noGenerateSpecTE"]
        if simulate is not None:
            cmd += ["-simulate", "num=%d" % simulate]
            if depth:
                cmd += ["-depth", str(depth)]
            workers = workers or 1
        cmd += ["-workers", str(workers or NCPU)]
        if tlc_seed is not None:
            cmd += ["-seed", str(tlc_seed)]
        if coverage:
            cmd += ["-coverage", "1"]
        if not deadlock:
            cmd += ["-deadlock"]
        cmd += list(extra or [])
        cmd.append(module + ".tla")
        env = dict(os.environ)
        jopts = "-Xss256m"
        if dfs:
            jopts += " -Dtlc2.tool.queue.IStateQueue=StateDeque"
        env["JAVA_TOOL_OPTIONS"] = (env.get("JAVA_TOOL_OPTIONS", "") + " " + jopts).strip()
        try:
            p = subprocess.run(cmd, cwd=work, env=env, capture_output=True, timeout=timeout)
        except subprocess.TimeoutExpired:
            subprocess.run(["pkill", "-f", "metadir " + os.path.join(work, "meta")], capture_output=True)
            raise Inconclusive("TLC timed out after %ds on %s/%s" % (timeout, module, cfg))
        r = TLCResult()
        r.rc = p.returncode
        r.out = p.stdout.decode("utf-8", "replace")
        r.wall = time.time() - t0
        _parse_tlc(r)
        return r
    finally:
        shutil.rmtree(work, ignore_errors=True)


_MBT = re.compile(r'^"MBT (.*)"$')


def _parse_tlc(r):
    for ln in r.out.splitlines():
        if ln.startswith('"MBT '):
            try:
                inner = json.loads(ln)          # the outer TLA+ string
                r.mbt.append(json.loads(inner[4:]))
            except ValueError:
                r.error = "undecodable MBT line: " + ln[:200]
            continue
        m = re.match(r"(\d+) states generated, (\d+) distinct states found", ln)
        if m:
            r.generated = int(m.group(1))
            r.states = int(m.group(2))
        m = re.match(r"The depth of the complete state graph search is (\d+)", ln)
        if m:
            r.diameter = int(m.group(1))
        m = re.match(r"Error: Invariant (\S+) is violated", ln)
        if m:
            r.violated = m.group(1)
        m = re.match(r"Error: Action property (\S+) is violated", ln)
        if m:
            r.violated = m.group(1)
        if ln.startswith("Error: Temporal properties were violated"):
            r.violated = "temporal"
        if ln.startswith("Error: Deadlock reached"):
            r.violated = "deadlock"
        m = re.match(r"Error: (.*)", ln)
        if m and r.violated is None and r.error is None:
            if "Invariant" not in ln and "violated" not in ln:
                r.error = ln
    m = re.search(r"The number of states generated: (\d+)", r.out)
    if m and not r.generated:  # simulation mode
        r.generated = int(m.group(1))
        r.states = r.states or r.generated
    if r.rc not in (0, 12, 13) and r.violated is None and r.error is None:
        # 12 = safety violation, 13 = liveness violation
        r.error = "TLC exit %s: %s" % (r.rc, r.out[-800:])


def tlc_ok(r, what):
    """Raises Inconclusive unless the TLC run finished without violation or error."""
    if r.error:
        raise Inconclusive("TLC error in %s: %s" % (what, r.error))
    if r.violated:
        raise Inconclusive("specification-level counterexample in %s (%s); this is a prediction about the "
                           "code, not a verdict - see TLC output:\n%s" % (what, r.violated, r.out[-2500:]))
    return r


# --------------------------------------------------------------------------------------
# evidence / verdicts / known findings


class Check:
    """Collects what a check run covered and decides exit code."""

    def __init__(self, pid, tier):
        self.pid = pid
        self.tier = tier
        self.t0 = time.time()
        self.states = 0
        self.transitions = 0
        self.traces = 0
        self.evaluations = 0
        self.nontrivial = set()
        self.samples = []
        self.violations = []      # (summary, replay dict)
        self.known_hits = {}
        self.assumptions = []
        self.extra = {}
        self.rule = ""
        self.known = load_known(pid)
        self.vclasses = {}

    def add_tlc(self, r):
        self.states += r.states
        self.transitions += r.generated

    def sample(self, s, limit=6):
        if len(self.samples) < limit:
            self.samples.append(s)

    def violation(self, summary, replay, signature=None):
        """Records a violation observed on the real code unless it matches a listed known
        finding (by signature)."""
        for k in self.known:
            if k.get("status", "open") != "open":
                continue
            if signature is not None and signature_matches(k, signature):
                self.known_hits.setdefault(k["id"], [k, 0])
                self.known_hits[k["id"]][1] += 1
                return False
        self.violations.append((summary, replay))
        self.vclasses[re.sub(r'[0-9]+', 'N', summary.split(' | ')[0])[:160]] = self.vclasses.get(re.sub(r'[0-9]+', 'N', summary.split(' | ')[0])[:160], 0) + 1
        return True

    def finish(self):
        wall = time.time() - self.t0
        os.makedirs(EVID, exist_ok=True)
        rdir = os.path.join(EVID, "replays", self.pid)
        shutil.rmtree(rdir, ignore_errors=True)
        for kid, (k, n) in sorted(self.known_hits.items()):
            print("KNOWN-FINDING: property=%s %s [%s, %d witnesses this run]" % (self.pid, k["what_fails"], kid, n))
        paths = []
        percls = {}
        kept = []
        for summary, replay in self.violations:      # a few replays of every class, 60 in total
            c = re.sub(r'[0-9]+', 'N', summary.split(' | ')[0])[:160]
            if percls.get(c, 0) < 3 and len(kept) < 60:
                percls[c] = percls.get(c, 0) + 1
                kept.append((summary, replay))
        for i, (summary, replay) in enumerate(kept):
            os.makedirs(rdir, exist_ok=True)
            path = os.path.join(rdir, "%d.json" % i)
            with open(path, "w") as fh:
                json.dump({"property": self.pid, "summary": summary, "replay": replay}, fh, indent=1, default=str)
            paths.append(path)
            print("VIOLATION property=%s replay=%s" % (self.pid, path))
            print("  " + summary[:600])
        for c, n in sorted(self.vclasses.items(), key=lambda x: -x[1])[:25]:
            print("  violation class x%d: %s" % (n, c))
        cov = {
            "states": self.states,
            "transitions": self.transitions,
            "traces_validated_against_impl": self.traces,
            "samples": self.samples or ["(none)"],
            "evaluations": self.evaluations,
            "distinct_nontrivial": len(self.nontrivial) if not isinstance(self.nontrivial, int) else self.nontrivial,
            "rule": self.rule,
        }
        cov.update(self.extra)
        ev = {
            "property_id": self.pid,
            "tier": self.tier,
            "seed": seed(),
            "level": "model_checking",
            "coverage": cov,
            "assumptions": self.assumptions,
            "wall_s": round(wall, 2),
            "violations": len(self.violations),
            "known_findings_hit": {k: v[1] for k, v in self.known_hits.items()},
        }
        with open(os.path.join(EVID, self.pid + ".json"), "w") as fh:
            json.dump(ev, fh, indent=1, default=str)
        print("%s %s: states=%d transitions=%d traces_vs_impl=%d evaluations=%d violations=%d wall=%.1fs" % (
            self.pid, self.tier, self.states, self.transitions, self.traces, self.evaluations,
            len(self.violations), wall))
        return 1 if self.violations else 0


def load_known(pid):
    p = os.path.join(VERIF, "KNOWN_FINDINGS.json")
    if not os.path.exists(p):
        return []
    with open(p) as fh:
        data = json.load(fh)
    return [k for k in data.get("findings", []) if pid in k.get("properties", [k.get("property")])]


def signature_matches(k, sig):
    """A finding lists `match`: a dict of field -> regex; all must match the signature dict
    the check computed for the witness (failure mode, call site, input class)."""
    alts = list(k.get("match_any") or [])
    if k.get("match"):
        alts.append(k["match"])
    for m in alts:
        if m and all(sig.get(f) is not None and re.search(rx, str(sig.get(f))) for f, rx in m.items()):
            return True
    return False


def main_wrapper(fn):
    try:
        rc = fn()
    except Inconclusive as e:
        print("INCONCLUSIVE: %s" % e)
        sys.exit(2)
    except Exception:          # a defect of the machinery itself is never a verdict about the code
        import traceback
        traceback.print_exc()
        print("INCONCLUSIVE: internal error of the check (see the traceback)")
        sys.exit(2)
    sys.exit(rc)
