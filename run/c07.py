"""C07 MACRO/PASTE: pasting equals writing the body in place; recursion is rejected.

Documents and the block range to be moved into a macro are chosen by TLC (JSightApi!Tx).
Inline(doc) is the generated document itself; the macro forms are built from it:
top-level macro (defined before or after use), macro pasting a macro, an unused macro,
child-level macros (methods of a URL, responses of a method, children of INFO / SERVER).
Two real runs are compared (accepted macro form => same catalog as the inlined form).
Undefined PASTE, duplicate MACRO and paste cycles of length 1..n must be rejected with a
diagnostic within the deadline (no crash, no stack overflow)."""
import copy
import json
import random

import apidoc
import rel
from common import Check, harness, seed

MACROABLE = {"info", "server", "type", "enum", "url", "method", "rpc"}


def macro(name, items):
    return {"t": "macro", "name": name, "items": items}


def paste(name):
    return {"t": "paste", "name": name}


def variants(doc, tx, rnd):
    """-> list of (variant name, macro form of the document)"""
    res = []
    fr, to, defat = tx["range"]["from"], tx["range"]["to"], tx["range"]["defat"]
    rng = doc[fr - 1:to]
    if all(b["t"] in MACROABLE for b in rng):
        rest = doc[:fr - 1] + [paste("@m1")] + doc[to:]
        pos = min(defat, len(rest))
        res.append(("top", rest[:pos] + [macro("@m1", rng)] + rest[pos:]))
        res.append(("nested", rest[:pos] + [macro("@m1", [paste("@m2")])] + rest[pos:] + [macro("@m2", rng)]))
        res.append(("twice_nested", [macro("@m3", [paste("@m2")])] + rest[:pos] + [macro("@m1", [paste("@m3")])] + rest[pos:]
                    + [macro("@m2", rng)]))
        res.append(("unused", doc[:pos] + [macro("@mu", rng)] + doc[pos:]))
    # child-level macros
    for i, b in enumerate(doc):
        if b["t"] == "url" and b["methods"]:
            nb = copy.deepcopy(b)
            ms = nb["methods"]
            k = rnd.randrange(len(ms))
            nb["methods"], nb["extra"] = ms[:k], [paste("@mc")]
            items = [{"t": "bare_method", "m": m} for m in ms[k:]]
            res.append(("url_children", doc[:i] + [nb] + doc[i + 1:] + [macro("@mc", items)]))
            break
    # URL-level Tags / Path in a macro pasted AFTER the methods (the last method closed by a parenthesis)
    for i, b in enumerate(doc):
        if b["t"] == "url" and b["methods"] and (b["tags"] or b["pathdecl"]):
            nb = copy.deepcopy(b)
            items = []
            if nb["tags"]:
                items.append({"t": "raw", "lines": ["Tags " + " ".join(nb["tags"])], "label": "Tags"})
            if nb["pathdecl"]:
                names = nb["pathdecl"]
                items.append({"t": "raw", "label": "Path", "lines": ["Path", "{"] + [
                    '  "%s": 1%s' % (x, "," if k < len(names) - 1 else "") for k, x in enumerate(names)] + ["}"]})
            nb["tags"], nb["pathdecl"], nb["late"], nb["extra"] = [], [], True, [paste("@mt")]
            res.append(("url_tail", doc[:i] + [nb] + doc[i + 1:] + [macro("@mt", items)]))
            break
    for i, b in enumerate(doc):
        m = b["m"] if b["t"] == "method" else (b["methods"][-1] if b["t"] == "url" and b["methods"] else None)
        if m and m["resps"]:
            nb = copy.deepcopy(b)
            nm = nb["m"] if b["t"] == "method" else nb["methods"][-1]
            items = [{"t": "resp", "r": r} for r in nm["resps"]]
            nm["resps"] = []
            nm["extra"] = [paste("@mr")]
            res.append(("method_children", [macro("@mr", items)] + doc[:i] + [nb] + doc[i + 1:]))
            break
    for i, b in enumerate(doc):
        if b["t"] == "info" and b["title"]:
            nb = dict(b, title="", extra=[paste("@mi")])
            res.append(("info_children", doc[:i] + [nb] + doc[i + 1:] +
                        [macro("@mi", [{"t": "raw", "lines": ['Title "%s"' % b["title"]], "label": "Title"}])]))
            break
    for i, b in enumerate(doc):
        if b["t"] == "server":
            nb = dict(b, extra=[paste("@ms")])
            raw = {"t": "raw", "lines": ['BaseUrl "%s"' % b["base"]], "label": "BaseUrl"}
            nb2 = copy.deepcopy(nb)
            res.append(("server_children", doc[:i] + [dict(nb2, base=None)] + doc[i + 1:] + [macro("@ms", [raw])]))
            break
    return res


def twice_pairs():
    """one macro pasted at two places that are related (same method, URLs with a common parameterised prefix, same
    project): (name, inlined text, macro text).  Pasting twice equals writing the body twice."""
    def ind(lines, n):
        return "".join(("  " * n + x if x else "") + "\n" for x in lines)
    payloads = {
        "path_decl": (["Path", "{", '  "zp": 1', "}"], "url2"),
        "description": (["Description", "  pasted text"], "method"),
        "response": (["200 any"], "method"),
        "query": (["Query", "{", '  "zq": 1', "}"], "method"),
        "headers": (["Headers", "{", '  "zh": "v"', "}"], "response"),
        "type": (["TYPE @ztw any"], "top"),
        "server": (["SERVER @zsv", '  BaseUrl "http://z"'], "top"),
        "get_method": (["GET", "  200 any"], "url_same"),
    }
    res = []
    two = ("JSIGHT 0.3\nMACRO @zmix\n(\n  TYPE @zlow any\n)\nMACRO @zMix\n(\n  TYPE @zup any\n)\nPASTE @zMix\nPASTE @zmix\n",
           "JSIGHT 0.3\nTYPE @zup any\nTYPE @zlow any\n")
    res.append(("names_differ_in_case", two[1], two[0]))
    for nm, (body, where) in payloads.items():
        mac = "MACRO @ztw\n(\n" + ind(body, 1) + ")\n"

        def doc(a, b):
            if where == "url2":
                return ("URL /ztw/{zp}\n" + a(1) + "  GET\n    200 any\nURL /ztw/{zp}/more\n" + b(1) + "  GET\n    200 any\n")
            if where == "method":
                return "GET /ztw\n" + a(1) + b(1) + ("" if nm == "response" else "  201 any\n")
            if where == "response":
                return "GET /ztw\n  201 any\n" + a(2) + b(2)
            if where == "url_same":
                return "URL /ztw\n" + a(1) + b(1)
            return a(0) + b(0)
        inl = "JSIGHT 0.3\n" + doc(lambda n: ind(body, n), lambda n: ind(body, n))
        mcr = "JSIGHT 0.3\n" + mac + doc(lambda n: ind(["PASTE @ztw"], n), lambda n: ind(["PASTE @ztw"], n))
        once = "JSIGHT 0.3\n" + mac + doc(lambda n: ind(["PASTE @ztw"], n), lambda n: "")
        once_inl = "JSIGHT 0.3\n" + doc(lambda n: ind(body, n), lambda n: "")
        res.append((nm + "_twice", inl, mcr))
        res.append((nm + "_once", once_inl, once))
    # one macro pasted into two DIFFERENT hosts (every region of the macro text is read once per PASTE): bodies of several
    # lines, in every line-end convention
    hosts = {
        "desc4": ["Description", "  First line of the text.", "    Second line, deeper.", "", "  Third line after an empty one.", "  Fourth and last line."],
        "desc_paren": ["Description", "(", "  Text in parentheses,", "  on two lines and a half", ")"],
        "query_notes": ['Query "q=1&r=two"', "{", '  "zq": 1, // first note', '  "zr": "x" /* a note', "     on two lines */", "}"],
        "request": ["Request", "  Headers", "  {", '    "X-Z": "v" // {optional: true}', "  }", "  Body", "  {", '    "zb": [1, 2, 3],', '    "zc": {"zd": null}', "  }"],
        "resp_enum": ["201", "{", '  "e": "a" // {enum: ["a", "b"]}', "}"],
        "resp_regex": ["202 regex", "  /^ab+c$/"],
        "resp_headers": ["203", "  Headers", "  {", '    "X-Y": 1', "  }", "  Body any"],
    }
    for nm, body in hosts.items():
        mac = "MACRO @ztw\n(\n" + ind(body, 1) + ")\n"
        inl = "JSIGHT 0.3\nGET /ztw/a // first\n" + ind(body, 1) + "  200 any\nPOST /ztw/b\n" + ind(body, 1) + "  200 any\nURL /ztw/c\n  PUT\n" + ind(body, 2) + "    200 any\n"
        mcr = ("JSIGHT 0.3\n" + mac + "GET /ztw/a // first\n  PASTE @ztw\n  200 any\nPOST /ztw/b\n  PASTE @ztw\n  200 any\n"
               "URL /ztw/c\n  PUT\n    PASTE @ztw\n    200 any\n")
        for conv, nl in (("lf", "\n"), ("crlf", "\r\n"), ("cr", "\r")):
            res.append(("%s_three_hosts_%s" % (nm, conv), inl.replace("\n", nl), mcr.replace("\n", nl)))
    # a PASTE as the last line under a directive that admits the pasted lines but not many others (a JSON-RPC Method
    # after its Params / Result, a TAG, a response, an INFO): both forms are acceptable and mean the same
    okhosts = {
        "rpc_method": ("URL /zrpc\n  Protocol json-rpc-2.0\n  Method zm\n    Params\n    {\n      \"p\": 1\n    }\n    Result\n    {\n      \"r\": 1\n    }\n", 2,
                       ["Description", "  text of the method"]),
        "tag": ("TAG @zt // Tag\n", 1, ["Description", "  text of the tag"]),
        "tag_nested": ("TAG @zt\n  TAG @zinner\n", 2, ["Description", "  text of the inner tag"]),
        "info": ("INFO\n  Title \"T\"\n  Version 1\n", 1, ["Description", "  text of the api"]),
        "server": ("SERVER @zs\n  BaseUrl \"http://z\"\n", 1, ["Description", "  text of the server"]),
        "response": ("GET /zr\n  200\n", 2, ["Headers", "{", '  "h": "v"', "}", "Body any"]),
        "request": ("POST /zq\n  200 any\n  Request\n", 2, ["Headers", "{", '  "h": "v"', "}", "Body", "{", '  "b": 1', "}"]),
    }
    for hn, (head, dep, body) in okhosts.items():
        tailtxt = "GET /zafter\n  200 any\n"
        inl = "JSIGHT 0.3\n" + head + ind(body, dep) + tailtxt
        mcr = "JSIGHT 0.3\nMACRO @zok\n(\n" + ind(body, 1) + ")\n" + head + ind(["PASTE @zok"], dep) + tailtxt
        res.append(("paste_ok_%s" % hn, inl, mcr))
    # a PASTE inside EXPLICIT parentheses (of a URL, of a method, of a method in the parentheses of a URL, of a MACRO that is
    # pasted): what the macro brings is placed by the same rule as written lines - a method with a path of its own cannot
    # leave the parenthesis, so the inlined form is rejected and the macro form must not be accepted
    bodies = {"method_with_path": ["GET /zown/path", "  200 any"], "method_without_path": ["POST", "  200 any"],
              "two_methods_one_with_path": ["PUT", "  200 any", "DELETE /zown/{zi}", "  200 any"], "response": ["201 any"],
              "path_decl": ["Path", "{", '  "zi": 1', "}"], "type_decl": ["TYPE @zinner any"]}
    parens = {
        "url_parens": (["URL /zpar/{zi}", "("], ["  GET", "    200 any", ")"]),
        "method_parens": (["GET /zpar/{zi}", "("], ["  200 any", ")"]),
        "url_then_method_parens": (["URL /zpar/{zi}", "(", "  GET", "  ("], ["    200 any", "  )", ")"]),
        "url_parens_after_child": (["URL /zpar/{zi}", "(", "  PATCH", "    200 any"], [")"]),
    }
    for bn, body in bodies.items():
        for pn, (head, tail) in parens.items():
            dep = 2 if pn == "url_then_method_parens" else 1
            mac = "MACRO @zpm\n(\n" + ind(body, 1) + ")\n"
            inl = "JSIGHT 0.3\n" + "\n".join(head) + "\n" + ind(body, dep) + "\n".join(tail) + "\n"
            mcr = "JSIGHT 0.3\n" + mac + "\n".join(head) + "\n" + ind(["PASTE @zpm"], dep) + "\n".join(tail) + "\n"
            res.append(("paste_in_%s_%s" % (pn, bn), inl, mcr))
            # ... and through a second macro
            mcr2 = "JSIGHT 0.3\n" + mac + "MACRO @zouter\n(\n  PASTE @zpm\n)\n" + "\n".join(head) + "\n" + ind(["PASTE @zouter"], dep) + "\n".join(tail) + "\n"
            res.append(("paste_in_%s_%s_nested" % (pn, bn), inl, mcr2))
    return res


def reject_cases(doc, rnd):
    """-> list of (name, document) that must be rejected"""
    t1 = {"t": "type", "name": "@zq", "annot": "", "body": {"k": "int", "n": "", "props": [], "allOf": []}}
    res = [("undefined_paste", doc + [paste("@nope")]),
           # names are compared exactly: a PASTE whose name differs from the MACRO's in letter case names nothing
           ("paste_other_case", doc + [macro("@zcase", [t1]), paste("@Zcase")]),
           ("paste_other_case_upper", doc + [macro("@ZCASE", [t1]), paste("@zcase")]),
           ("duplicate_macro", doc + [macro("@dm", [t1]), macro("@dm", [dict(t1, name="@zq2")])]),
           ("paste_without_name", doc + [{"t": "raw", "lines": ["PASTE"], "label": "PASTE"}])]
    for total in (3, 4, 5):
        for a in range(total):
            for b in range(a + 1, total):
                ms = [macro("@dm" if i in (a, b) else "@zu%d" % i, [dict(t1, name="@zq%d" % i)]) for i in range(total)]
                res.append(("duplicate_macro_%d_of_%d_%d" % (total, a, b), doc + ms))
                res.append(("duplicate_macro_%d_of_%d_%d_pasted" % (total, a, b), [paste("@dm")] + doc + ms))
    for n in (1, 2, 3, 4):
        ms = [macro("@c%d" % i, [paste("@c%d" % (i % n + 1))]) for i in range(1, n + 1)]
        res.append(("cycle%d_unused" % n, doc + ms))
        res.append(("cycle%d_pasted" % n, doc + [paste("@c1")] + ms))
        # a cycle entered through a non-cyclic macro, with payload next to the paste
        ms2 = [macro("@e0", [t1, paste("@c%d" % n)])] + ms
        res.append(("cycle%d_entered" % n, [paste("@e0")] + doc + ms2))
    return res


def main(tier):
    chk = Check("C07", tier)
    rnd = random.Random(seed())
    docs = rel.valid_docs(chk, tier, [(500, 4), (400, 7)], [(5000, 4), (5000, 7), (2000, 9)])
    cases, meta, rej = [], {}, {}
    for n, m in enumerate(docs):
        d = m["doc"]
        base, _, _ = apidoc.render(d)
        cases.append(rel.case("b%d" % n, base))
        for nm, md in variants(d, m["tx"][0], rnd):
            try:
                text, _, _ = apidoc.render(md)
            except Exception as e:     # renderer cannot express the variant (e.g. server without base)
                continue
            cid = "m%d_%s" % (n, nm)
            cases.append(rel.case(cid, text, timeout=15000))
            meta[cid] = ("b%d" % n, nm, m, base, text)
        if n % (1 if tier == "thorough" else 8) == 0:
            for nm, rd in reject_cases(d, rnd):
                text, _, _ = apidoc.render(rd)
                cid = "x%d_%s" % (n, nm)
                cases.append(rel.case(cid, text, timeout=15000))
                rej[cid] = (nm, m, text)
    obs = harness("run", cases)
    accepted = 0
    rejected_forms = {}
    for cid, (bid, nm, m, base, text) in meta.items():
        a, b = obs[bid], obs[cid]
        chk.evaluations += 1
        chk.traces += 1
        bad = None
        if b["outcome"] in ("panic", "fatal", "timeout"):
            bad = "macro form: %s" % rel.describe(b)
        elif b["outcome"] == "ok":
            accepted += 1
            chk.nontrivial.add(cid.split("_", 1)[1] + json.dumps(m["doc"], sort_keys=True))
            if a["outcome"] != "ok":
                bad = "macro form accepted but the inlined document is not: %s" % rel.describe(a)
            elif json.loads(a["json"]) != json.loads(b["json"]):
                bad = "catalog of the macro form differs from the inlined document: %s" % rel.json_diff(a["json"], b["json"])
        else:
            rejected_forms[nm] = rejected_forms.get(nm, 0) + 1
        if bad:
            sig = {"variant": nm, "what": bad.split(":")[0][:60], "frames": ",".join(b.get("frames") or [])}
            chk.violation("%s (%s) | macro form:\n%s" % (bad, nm, text[:1500]),
                          {"kind": "macro_pair", "variant": nm, "doc": m["doc"], "inlined": base, "macro_form": text,
                           "observed_inlined": a, "observed_macro": b, "signature": sig}, sig)
    for cid, (nm, m, text) in rej.items():
        o = obs[cid]
        chk.evaluations += 1
        chk.traces += 1
        chk.nontrivial.add(nm + json.dumps(m["doc"], sort_keys=True))
        if o["outcome"] != "error":
            sig = {"variant": nm.rstrip("0123456789"), "what": o["outcome"], "frames": ",".join(o.get("frames") or []),
                   "panic": o.get("panic", "")[:80]}
            chk.violation("%s must be rejected with a diagnostic in bounded time, observed: %s | document:\n%s" % (
                nm, rel.describe(o), text[-700:]),
                {"kind": "macro_reject", "variant": nm, "doc": m["doc"], "file": text, "observed": o, "signature": sig}, sig)
    tw = twice_pairs()
    tobs = harness("run", [rel.case("ti%d" % k, a) for k, (_, a, _) in enumerate(tw)] + [rel.case("tm%d" % k, b) for k, (_, _, b) in enumerate(tw)])
    for k, (nm, inl, mcr) in enumerate(tw):
        a, b = tobs["ti%d" % k], tobs["tm%d" % k]
        chk.evaluations += 1
        chk.traces += 1
        chk.nontrivial.add(mcr)
        bad = None
        if b["outcome"] in ("panic", "fatal", "timeout"):
            bad = "macro form: %s" % rel.describe(b)
        elif b["outcome"] == "ok":
            if a["outcome"] != "ok":
                bad = "macro form accepted but the inlined document is not: %s" % rel.describe(a)
            elif json.loads(a["json"]) != json.loads(b["json"]):
                bad = "catalog of the macro form differs from the inlined document: %s" % rel.json_diff(a["json"], b["json"])
        if bad:
            sig = {"variant": nm, "what": bad.split(":")[0][:60], "frames": ",".join(b.get("frames") or [])}
            chk.violation("%s (%s) | macro form:\n%s" % (bad, nm, mcr[:1500]),
                          {"kind": "macro_pair", "variant": nm, "doc": [], "inlined": inl, "macro_form": mcr,
                           "observed_inlined": a, "observed_macro": b, "signature": sig}, sig)
    chk.extra["pasted_twice_pairs"] = {nm: (tobs["ti%d" % k]["outcome"], tobs["tm%d" % k]["outcome"]) for k, (nm, _, _) in enumerate(tw)}
    import macrograph
    macrograph.run(chk, tier, "C07")
    import fixrel
    fixrel.c07(chk, tier)
    import treemacro
    treemacro.run(chk, tier)
    chk.extra["macro_forms_accepted"] = accepted
    chk.extra["macro_forms_rejected_by_kind"] = rejected_forms
    if meta:
        x = next(iter(meta.values()))
        chk.sample({"variant": x[1], "macro_form": x[4][:800]})
    chk.rule = ("pairs (inlined document, macro form) for forms top / nested / twice_nested / unused / url_children / "
                "method_children / url_tail / info_children / server_children; tree documents of JSightTree with a balanced run of items moved "
                "into a macro (expanded forest = placement rule on the inlined document); plus documents with undefined PASTE, duplicate MACRO, "
                "paste cycles of length 1..4 (unused, pasted, entered through another macro); non-trivial = macro form accepted "
                "(so the catalogs were compared) or a rejection case")
    chk.assumptions += ["a macro body is rendered in explicit parentheses", "catalogs compared as JSON values (object key "
                        "order is not part of 'the same catalog')"]
    return chk.finish()


def replay(path):
    rp = json.load(open(path))["replay"]
    if rp.get("kind") in ("fxpair", "fxban"):
        import fixrel
        return fixrel.replay("C07", rp)
    chk = Check("C07", "quick")
    chk.evaluations = 1
    if rp["kind"] == "macro_pair":
        obs = harness("run", [rel.case("a", rp["inlined"]), rel.case("b", rp["macro_form"], timeout=15000)])
        a, b = obs["a"], obs["b"]
        if b["outcome"] in ("panic", "fatal", "timeout") or (b["outcome"] == "ok" and (a["outcome"] != "ok" or json.loads(a["json"]) != json.loads(b["json"]))):
            chk.violation("macro form %s vs inlined %s" % (rel.describe(b), rel.describe(a)), rp, rp.get("signature"))
    elif rp["kind"] == "tree_macro":
        import treemacro
        treemacro.replay(chk, rp)
    elif rp["kind"] == "paste_graph":
        o = harness("run", [rel.case("a", rp["file"], timeout=20000)])["a"]
        if o["outcome"] in ("panic", "fatal", "timeout") or (rp["expected"].startswith("rejected") and o["outcome"] != "error"):
            chk.violation("reproduced: expected %s, observed %s" % (rp["expected"], rel.describe(o)), rp, rp.get("signature"))
    else:
        obs = harness("run", [rel.case("a", rp["file"], timeout=15000)])
        if obs["a"]["outcome"] != "error":
            chk.violation("must be rejected, observed %s" % rel.describe(obs["a"]), rp, rp.get("signature"))
    return chk.finish()
