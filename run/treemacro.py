"""C07 on tree documents: moving a run of directives into a MACRO and pasting it where it stood.

The documents are symbol sequences emitted by TLC from spec/JSightTree.tla (random walks that stay
acceptable and unrestricted ones, so also documents the scan stage must reject); TLC's meaning
layer (JSightTree!Meaning = fold of the declarative placement rule) gives, for the INLINED
document, the verdict and the parent of every directive.  The macro form puts a parenthesis-
balanced run of items into `MACRO @zm ( ... )` at the top of the file and `PASTE @zm` in its
place.  The real expansion stage (core/compile_core_paste.go) rebuilds the forest; the property
says that what it builds is what writing the body in place means:

  * the macro form passes the expansion stage  =>  the inlined document is acceptable to the
    placement rule, and every directive (pasted or not) has the parent the rule gives it;
  * the macro form never does better than the inlined document (one direction only: a macro body
    can be unacceptable as a MACRO child although it is fine where it is pasted)."""
import json
import random

import c06
import render
from common import b64, harness, seed, tlc, tlc_ok

FORBIDDEN = {"JSIGHT", "MACRO", "PASTE"}


def pick_range(doc, rnd):
    """a parenthesis-balanced run doc[a:b] (0-based, b exclusive) that starts with a keyword, contains
    no JSIGHT / MACRO / PASTE and does not start right after a keyword whose '(' it would steal"""
    n = len(doc)
    starts = [i for i, it in enumerate(doc) if it["t"] == "kw" and it["k"] not in FORBIDDEN]
    rnd.shuffle(starts)
    for a in starts[:6]:
        depth = 0
        ends = []
        for j in range(a, n):
            it = doc[j]
            if it["t"] == "kw" and it["k"] in FORBIDDEN:
                break
            if it["t"] == "open":
                depth += 1
            elif it["t"] == "close":
                depth -= 1
                if depth < 0:
                    break
            if depth == 0 and not (j + 1 < n and doc[j + 1]["t"] == "open"):
                ends.append(j + 1)
        if ends:
            return a, rnd.choice(ends)
    return None


def macro_form(doc, a, b):
    """-> (new doc, origin) with origin[new index (1-based)] = original index (1-based) or 0 for added items"""
    kw = lambda k: {"t": "kw", "k": k, "p": False, "line": k + " @zm"}
    new = [kw("MACRO"), {"t": "open", "k": "", "p": False}] + doc[a:b] + [{"t": "close", "k": "", "p": False}] + \
        doc[:a] + [kw("PASTE")] + doc[b:]
    origin = [0, 0] + list(range(a + 1, b + 1)) + [0] + list(range(1, a + 1)) + [0] + list(range(b + 1, len(doc) + 1))
    return new, origin


def render_macro_form(new):
    files, spans = render.render_tree_project(new)
    return files["main.jst"], spans


def flatten_without_macro(forest, macro_key):
    res = {}

    def rec(n, parent):
        key = (n.get("f") or "main.jst", n["b"])
        if key == macro_key and parent is None:
            return                      # the definition itself (its body also hangs under it)
        res[key] = parent
        for c in n["c"]:
            rec(c, key)
    for n in forest:
        rec(n, None)
    return res


def build(chk, tier, share=1.0):
    """-> (cases, meta): the macro forms of TLC's tree documents (share: fraction of the walks used)"""
    thorough = tier == "thorough"
    sd = seed()
    rnd = random.Random(sd * 7 + 3)
    recs = []
    nsim = max(50, int((6000 if thorough else 500) * share))
    for valid_only, maxlen, s, onekw in (("TRUE", "24", sd + 11, "FALSE"), ("FALSE", "14", sd + 12, "FALSE"), ("FALSE", "12", sd + 13, "TRUE")):
        c = dict(c06.CONST_NONE, History="TRUE", MaxLen=maxlen, EmitMode='"docs"', ValidOnly=valid_only, OneKw=onekw)
        r = tlc_ok(tlc("JSightTree", "Tree_docs.cfg", consts=c, simulate=nsim, depth=int(maxlen) + 8, tlc_seed=s,
                       workers=8 if thorough else 4, timeout=3000), "JSightTree walks for macro forms")
        chk.add_tlc(r)
        recs += r.mbt
    cases, meta = [], {}
    for n, rec in enumerate(recs):
        doc = rec["doc"]
        if any(it["t"] == "kw" and it["k"] in ("MACRO", "PASTE") for it in doc):
            # a PASTE inside the body of a macro that is never pasted is never expanded, and C07's inlined document has
            # no MACRO definitions at all: documents with macros of their own are not used
            continue
        pr = pick_range(doc, rnd)
        if not pr:
            continue
        a, b = pr
        new, origin = macro_form(doc, a, b)
        data, spans = render_macro_form(new)
        cid = "tm%d" % n
        cases.append({"id": cid, "files": {"main.jst": b64(data)}, "root": "main.jst", "want": ["pastes"]})
        meta[cid] = (doc, rec["out"], new, origin, data, spans, (a, b))
    return cases, meta


def run(chk, tier):
    cases, meta = build(chk, tier)
    obs = harness("run", cases)
    passed = compared = 0
    for cid, (doc, want, new, origin, data, spans, rng) in meta.items():
        o = obs[cid]
        chk.evaluations += 1
        chk.traces += 1
        if o["outcome"] in ("panic", "fatal", "timeout"):
            sig = {"variant": "tree_macro", "what": o["outcome"], "frames": ",".join(o.get("frames") or [])}
            chk.violation("tree macro form: %s %s | macro form:\n%s" % (o["outcome"], o.get("panic", ""), data.decode()[:900]),
                          {"kind": "tree_macro", "doc": doc, "range": rng, "file": data.decode(), "expected": want, "observed": o,
                           "signature": sig}, sig)
            continue
        if "paste" not in o["stages"]:
            continue                    # rejected by the scan or the expansion stage: no claim in this direction
        passed += 1
        chk.nontrivial.add(json.dumps([doc, rng]))
        bad = None
        if want["v"] != "ok":
            bad = "the macro form passes the expansion stage although the inlined document is rejected by the placement rule (%s at item %s)" % (
                want["v"], want["at"])
        else:
            compared += 1
            macro_key = spans[1][:2]
            real = flatten_without_macro(o.get("pastes") or [], macro_key)
            new2key = {i: spans[i][:2] for i in spans if new[i - 1]["t"] == "kw"}
            orig2key = {origin[i - 1]: k for i, k in new2key.items() if origin[i - 1]}
            key2orig = {k: oi for oi, k in orig2key.items()}
            # MACRO definitions and what is written inside them are not part of the expanded forest
            inmacro = set()
            for oi, it in enumerate(doc, 1):
                if it["t"] == "kw" and (it["k"] == "MACRO" or want["par"][oi - 1] in inmacro):
                    inmacro.add(oi)
            for oi, it in enumerate(doc, 1):
                if it["t"] != "kw" or oi in inmacro:
                    continue
                k = orig2key[oi]
                if k not in real:
                    bad = "after expansion: directive item %d (%s) is missing from the forest" % (oi, it["k"])
                    break
                rp = real[k]
                rpi = 0 if rp is None else key2orig.get(rp, -2)
                if rpi != want["par"][oi - 1]:
                    bad = "after expansion: directive item %d (%s) has parent item %s, written in place it has %s" % (
                        oi, it["k"], rpi, want["par"][oi - 1])
                    break
        if bad:
            sig = {"variant": "tree_macro", "what": bad.split(":")[0][:60]}
            chk.violation("%s | items %d..%d moved into the macro | macro form:\n%s" % (bad, rng[0] + 1, rng[1], data.decode()[:1200]),
                          {"kind": "tree_macro", "doc": doc, "range": rng, "file": data.decode(), "expected": want, "observed": o,
                           "signature": sig}, sig)
    chk.extra["tree_macro_forms"] = {"built": len(meta), "passed_expansion": passed, "forests_compared": compared}


def replay(chk, rp):
    o = harness("run", [{"id": "a", "files": {"main.jst": b64(rp["file"].encode())}, "root": "main.jst", "want": ["pastes"]}])["a"]
    if o["outcome"] in ("panic", "fatal", "timeout") or ("paste" in o["stages"] and rp["expected"]["v"] != "ok"):
        chk.violation("reproduced on the stored macro form", rp, rp.get("signature"))
    else:
        print("now: stages", o["stages"], o["outcome"])
