"""C05 Surface syntax is immaterial.

Documents come from the JSightApi generator (TLC); each is rendered canonically and in
several rewritten forms (comments and blank lines before directive lines, indentation,
trailing blanks, LF/CRLF/CR, quoting of quote-free parameters, explicit parentheses around
children).  Two real runs are compared: verdict and catalog JSON must be identical.
The lexical part (trivia as stuttering of the scanner's transition function) is checked on
the JSightLex specification by C14/C05-lex (see c14.py)."""
import json
import random

import apidoc
import rel
from common import Check, harness, seed

REWRITES = ["comments", "blank", "indent", "trailing", "crlf", "cr", "quote", "parens", "all"]


def style(name, rnd):
    S = apidoc.Style
    if name == "comments":
        return S(comments=0.6, rnd=rnd)
    if name == "blank":
        return S(blank=0.6, rnd=rnd)
    if name == "indent":
        return S(indent=rnd.choice(["", " ", "    ", "\t", "        "]))
    if name == "trailing":
        return S(trailing=True)
    if name == "crlf":
        return S(nl="\r\n")
    if name == "cr":
        return S(nl="\r")
    if name == "quote":
        return S(quote=0.7, rnd=rnd)
    if name == "parens":
        return S(parens=0.7, rnd=rnd)
    return S(nl=rnd.choice(["\n", "\r\n"]), indent=rnd.choice(["", "   ", "\t"]), comments=0.3, blank=0.3,
             trailing=rnd.choice([True, False]), quote=0.4, parens=0.4, rnd=rnd)


def main(tier):
    chk = Check("C05", tier)
    rnd = random.Random(seed())
    docs = rel.valid_docs(chk, tier, [(500, 3), (500, 6)], [(5000, 3), (5000, 6), (3000, 9)])
    cases, meta = [], {}
    for n, m in enumerate(docs):
        base, _, _ = apidoc.render(m["doc"])
        cases.append(rel.case("b%d" % n, base))
        names = REWRITES if tier == "thorough" else rnd.sample(REWRITES, 4)
        for nm in names:
            text, _, _ = apidoc.render(m["doc"], style(nm, random.Random(rnd.random())))
            if text == base:
                continue
            cid = "v%d_%s" % (n, nm)
            cases.append(rel.case(cid, text))
            meta[cid] = ("b%d" % n, nm, m, base, text)
    obs = harness("run", cases)
    for cid, (bid, nm, m, base, text) in meta.items():
        a, b = obs[bid], obs[cid]
        chk.evaluations += 1
        chk.traces += 1
        chk.nontrivial.add(cid.split("_", 1)[1] + json.dumps(m["doc"], sort_keys=True))
        if rel.result_key(a) != rel.result_key(b):
            d = rel.json_diff(a["json"], b["json"]) if a["outcome"] == b["outcome"] == "ok" else None
            sig = {"rewrite": nm, "base": a["outcome"], "variant": b["outcome"],
                   "msg": (b.get("err") or {}).get("msg", "") + b.get("panic", "")}
            chk.violation("rewriting '%s' changed the result: canonical %s, rewritten %s %s | rewritten document:\n%s" % (
                nm, rel.describe(a), rel.describe(b), d or "", text[:1200]),
                {"kind": "pair", "rewrite": nm, "doc": m["doc"], "base": base, "variant": text,
                 "observed_base": a, "observed_variant": b, "signature": sig}, sig)
    if docs:
        chk.sample({"doc": docs[0]["doc"], "rewritings": REWRITES})
    chk.rule = ("pairs (canonical rendering, rewritten rendering) of TLC-generated valid API documents; rewritings: "
                + ", ".join(REWRITES) + "; distinct = distinct (document, rewriting) pairs whose text differs")
    chk.assumptions += ["eligible positions for comments/blank lines = before a directive keyword line that does not follow "
                        "bare Description text; single-line description texts", "both runs are real runs; nothing about the "
                        "common value is assumed"]
    return chk.finish()


def replay(path):
    rp = json.load(open(path))["replay"]
    chk = Check("C05", "quick")
    obs = harness("run", [rel.case("a", rp["base"]), rel.case("b", rp["variant"])])
    chk.evaluations = 1
    if rel.result_key(obs["a"]) != rel.result_key(obs["b"]):
        chk.violation("rewriting changed the result: %s vs %s" % (rel.describe(obs["a"]), rel.describe(obs["b"])), rp, rp.get("signature"))
    return chk.finish()
