"""C05 Surface syntax is immaterial.

Documents come from the JSightApi generator (TLC); each is rendered canonically and in
several rewritten forms (comments and blank lines before directive lines, indentation,
trailing blanks, LF/CRLF/CR, quoting of quote-free parameters, explicit parentheses around
children).  Two real runs are compared: verdict and catalog JSON must be identical.
The lexical part (trivia as stuttering of the scanner's transition function) is checked on
the JSightLex specification by C14/C05-lex (see c14.py)."""
import json
import random
import re

import apidoc
import rel
from common import Check, harness, seed

REWRITES = ["comments", "blank", "indent", "trailing", "crlf", "cr", "quote", "parens", "tabs", "all"]


def style(name, rnd):
    S = apidoc.Style
    if name == "comments":
        return S(comments=0.6, rnd=rnd)
    if name == "blank":
        return S(blank=0.6, rnd=rnd)
    if name == "indent":
        return S(indent=rnd.choice(["", " ", "    ", "\t", "        "]))
    if name == "trailing":
        return S(trailing=True)
    if name == "crlf":
        return S(nl="\r\n")
    if name == "cr":
        return S(nl="\r")
    if name == "quote":
        return S(quote=0.7, rnd=rnd)
    if name == "parens":
        return S(parens=0.7, rnd=rnd)
    if name == "tabs":
        return S(tabs_between=True)
    return S(nl=rnd.choice(["\n", "\r\n"]), indent=rnd.choice(["", "   ", "\t"]), comments=0.3, blank=0.3,
             trailing=rnd.choice([True, False]), quote=0.4, parens=0.4, rnd=rnd)


def lex_view(data, o):
    """types and texts of a real lexeme stream; free text without the blanks / line ends around it"""
    res = []
    for t, b, e in o.get("lex") or []:
        txt = data[b:e + 1] if e >= b else b""
        if t == 5:
            txt = txt.strip(b" \t\r\n")
        if t in (3, 8):
            # the schema library counts comment lines that follow a body as part of it (F-29): compare the
            # body without them
            txt = re.split(rb"[\r\n][ \t]*#", txt, 1)[0].rstrip(b" \t\r\n")
        res.append((t, txt))
    return res


def lexical_pairs(chk, tier):
    """C05, lexical part: spec/LexPair.tla enumerates (input, rewritten input) pairs where the machine is
    between directives / at the end of a directive line, checks the identity on the machine, and the
    pairs are replayed on the real scanner."""
    from common import b64, tlc, tlc_ok
    thorough = tier == "thorough"
    sd = seed()
    plans = [(2, 1 if thorough else 4), (3, 12 if thorough else 300)]
    total = 0
    for maxtok, mod in plans:
        r = tlc_ok(tlc("LexPair", "LexPair.cfg", consts={"MaxTokens": str(maxtok), "SampleMod": str(mod), "SamplePick": str(sd % mod)},
                       timeout=3000), "LexPair")
        chk.add_tlc(r)
        spec_bad = [m for m in r.mbt if not m["same"]]
        chk.extra["lexpair_machine_counterexamples_%d_tokens" % maxtok] = len(spec_bad)
        cases, meta = [], {}
        for n, m in enumerate(r.mbt):
            base, var = bytes(m["base"]), bytes(m["variant"])
            cases.append({"id": "b%d" % n, "b64": b64(base)})
            cases.append({"id": "v%d" % n, "b64": b64(var)})
            meta[n] = (m["kind"], base, var, m["same"])
        obs = harness("lex", cases)
        for n, (kind, base, var, same) in meta.items():
            a, b = obs["b%d" % n], obs["v%d" % n]
            total += 1
            chk.evaluations += 1
            chk.traces += 1
            if n < 3000:
                chk.nontrivial.add(("lex", base, var))
            bad = None
            if a.get("panic") or b.get("panic"):
                continue          # crashes are C01's
            if (a["err_idx"] >= 0) != (b["err_idx"] >= 0):
                bad = "the scanner %s the original and %s the rewritten input" % (
                    "rejects" if a["err_idx"] >= 0 else "reads", "rejects" if b["err_idx"] >= 0 else "reads")
            elif a["err_idx"] < 0 and lex_view(base, a) != lex_view(var, b):
                bad = "lexeme types/texts differ: %s vs %s" % (lex_view(base, a)[:6], lex_view(var, b)[:6])
            if bad:
                sig = {"rewrite": "lexical-" + kind, "base": "lex", "variant": "lex", "msg": "", "detail": ""}
                # what was inserted, and does it directly follow a schema / enum body?
                i = 0
                while i < min(len(base), len(var)) and base[i] == var[i]:
                    i += 1
                j = 0
                while j < min(len(base), len(var)) - i and base[len(base) - 1 - j] == var[len(var) - 1 - j]:
                    j += 1
                ins = var[i:len(var) - j].strip(b" \t\r\n")
                after_body = any(t in (3, 8) and e < i and not base[e + 1:i].strip(b" \t\r\n") for t, b0, e in a.get("lex") or [])
                if after_body and (ins == b"#" or (ins.startswith(b"##") and not ins.startswith(b"###"))):
                    sig["rewrite"] = "all"          # same finding as at document level (F-29)
                    sig["detail"] = "only-empty-or-double-hash-comment-lines"
                chk.violation("rewriting (%s) of %r into %r: %s" % (kind, base, var, bad),
                              {"kind": "lexpair", "rewrite": kind, "base": base.decode("latin1"), "variant": var.decode("latin1"),
                               "machine_says_same": same, "signature": sig}, sig)
    chk.extra["lexical_pairs_replayed"] = total


def quoted_parameter_pairs(chk):
    """quoting a parameter that needs no quotes, for the directives that take more than one parameter: each parameter quoted
    alone and all of them, against the bare spelling (two real runs)"""
    heads = {
        "query_format_example": ("GET /zq\n  Query %s %s\n  {\n    \"page\": 1\n  }\n  200 any\n", ["noFormat", "page=1"]),
        "query_example_format": ("GET /zq\n  Query %s %s\n  {\n    \"page\": 1\n  }\n  200 any\n", ["page=1", "htmlFormEncoded"]),
        "type_name_notation": ("TYPE %s %s\nGET /zq\n  200 any\n", ["@zt", "any"]),
        "type_name_regex": ("TYPE %s %s\n  /a+/\nGET /zq\n  200 any\n", ["@zt", "regex"]),
        "body_type": ("TYPE @zt\n{}\nPOST /zq\n  Request\n    Body %s\n  200 %s\n", ["@zt", "[@zt]"]),
        "server_and_base": ("SERVER %s\n  BaseUrl %s\nGET /zq\n  200 any\n", ["@zs", "https://z.example/api"]),
        "tags_list": ("TAG @za\nTAG @zb\nGET /zq\n  Tags %s %s\n  200 any\n", ["@za", "@zb"]),
        "rpc": ("URL %s\n  Protocol %s\n  Method zm\n    Result\n    {}\n", ["/zrpc", "json-rpc-2.0"]),
        "method_path_annotated": ("%s %s // note\n  200 any\n", ["GET", "/zq/{id}"]),
    }
    cases, meta = [], {}
    for nm, (tpl, pars) in heads.items():
        base = "JSIGHT 0.3\n" + tpl % tuple(pars)
        cases.append(rel.case("qp_%s_b" % nm, base))
        for mask in range(1, 1 << len(pars)):
            if nm == "method_path_annotated" and mask & 1:
                continue               # (the first placeholder there is the keyword)
            q = ['"%s"' % p if mask >> i & 1 else p for i, p in enumerate(pars)]
            cid = "qp_%s_%d" % (nm, mask)
            cases.append(rel.case(cid, "JSIGHT 0.3\n" + tpl % tuple(q)))
            meta[cid] = ("qp_%s_b" % nm, nm, base, "JSIGHT 0.3\n" + tpl % tuple(q))
    from common import b64
    incf = {"inc.jst": b64("TYPE @zinc any\n")}
    ib, iq = "JSIGHT 0.3\nINCLUDE inc.jst\nGET /zq\n  200 any\n", 'JSIGHT 0.3\nINCLUDE "inc.jst"\nGET /zq\n  200 any\n'
    cases.append({"id": "qp_include_b", "files": dict(incf, **{"main.jst": b64(ib)}), "root": "main.jst"})
    cases.append({"id": "qp_include_1", "files": dict(incf, **{"main.jst": b64(iq)}), "root": "main.jst"})
    meta["qp_include_1"] = ("qp_include_b", "include_file_name", ib, iq)
    obs = harness("run", cases)
    for cid, (bid, nm, base, text) in meta.items():
        a, b = obs[bid], obs[cid]
        chk.evaluations += 1
        chk.traces += 1
        chk.nontrivial.add(cid)
        if a["outcome"] == "ok" and rel.result_key(a) != rel.result_key(b):
            sig = {"rewrite": "quote", "base": a["outcome"], "variant": b["outcome"], "msg": (b.get("err") or {}).get("msg", ""), "detail": nm}
            chk.violation("rewriting 'quote' changed the result: bare %s, quoted %s | quoted document:\n%s" % (rel.describe(a), rel.describe(b), text),
                          {"kind": "pair", "rewrite": "quote", "doc": [], "base": base, "variant": text, "signature": sig,
                           "files": {"inc.jst": "TYPE @zinc any\n"} if nm == "include_file_name" else {}}, sig)


def main(tier):
    chk = Check("C05", tier)
    rnd = random.Random(seed())
    docs = rel.valid_docs(chk, tier, [(500, 3), (500, 6)], [(5000, 3), (5000, 6), (3000, 9)])
    cases, meta = [], {}
    for n, m in enumerate(docs):
        base, _, _ = apidoc.render(m["doc"])
        cases.append(rel.case("b%d" % n, base))
        names = REWRITES if tier == "thorough" else rnd.sample(REWRITES, 4)
        for nm in names:
            text, _, _ = apidoc.render(m["doc"], style(nm, random.Random(rnd.random())))
            if text == base:
                continue
            cid = "v%d_%s" % (n, nm)
            cases.append(rel.case(cid, text))
            meta[cid] = ("b%d" % n, nm, m, base, text)
    # the same rewritings on documents that use MACRO / PASTE (the expansion stage rebuilds the forest from the scanned
    # one: what is immaterial when scanning must be immaterial there too)
    import c07
    for n, m in enumerate(docs):
        if n % (1 if tier == "thorough" else 2):
            continue
        vs = [v for v in c07.variants(m["doc"], m["tx"][0], rnd) if v[0] in ("top", "nested", "url_children", "method_children")]
        if not vs:
            continue
        vn, md = rnd.choice(vs)
        try:
            mbase, _, _ = apidoc.render(md)
        except Exception:
            continue
        cases.append(rel.case("mb%d" % n, mbase))
        for nm in (["parens", "all", "comments"] if tier == "thorough" else ["parens", rnd.choice(["all", "comments", "cr", "blank"])]):
            text, _, _ = apidoc.render(md, style(nm, random.Random(rnd.random())))
            if text == mbase:
                continue
            cid = "mv%d_%s" % (n, nm)
            cases.append(rel.case(cid, text))
            meta[cid] = ("mb%d" % n, nm, dict(m, doc=md), mbase, text)
    obs = harness("run", cases)
    # control runs for mismatching comment insertions: the same text with every '#'-only and '##...' comment
    # line replaced by '# c'.  If the control agrees with the canonical run, the difference is due to those
    # comment spellings alone (finding F-29: a comment directly after a body is read by the schema library).
    ctl = {}
    for cid, (bid, nm, m, base, text) in meta.items():
        if rel.result_key(obs[bid]) != rel.result_key(obs[cid]) and nm in ("comments", "all"):
            ctext = re.sub(r"(?m)^([ \t]*)(#|##[^#\r\n]*)[ \t]*(\r?)$", r"\1# c\3", text)
            if ctext != text:
                ctl[cid] = rel.case("c" + cid, ctext)
    cobs = harness("run", list(ctl.values())) if ctl else {}
    for cid, (bid, nm, m, base, text) in meta.items():
        a, b = obs[bid], obs[cid]
        chk.evaluations += 1
        chk.traces += 1
        chk.nontrivial.add(cid.split("_", 1)[1] + json.dumps(m["doc"], sort_keys=True))
        if cid.startswith("mv") and a["outcome"] != "ok":
            # a macro form can be unacceptable for a reason that explicit parentheses remove (a path-bearing method
            # after an un-parenthesised URL block inside the macro body cannot leave the macro's parenthesis)
            continue
        if rel.result_key(a) != rel.result_key(b):
            d = rel.json_diff(a["json"], b["json"]) if a["outcome"] == b["outcome"] == "ok" else None
            sig = {"rewrite": nm, "base": a["outcome"], "variant": b["outcome"],
                   "msg": (b.get("err") or {}).get("msg", "") + b.get("panic", ""), "detail": ""}
            if cid in ctl and rel.result_key(cobs["c" + cid]) == rel.result_key(a):
                sig["detail"] = "only-empty-or-double-hash-comment-lines"
            chk.violation("rewriting '%s' changed the result: canonical %s, rewritten %s %s | rewritten document:\n%s" % (
                nm, rel.describe(a), rel.describe(b), d or "", text[:1200]),
                {"kind": "pair", "rewrite": nm, "doc": m["doc"], "base": base, "variant": text,
                 "observed_base": a, "observed_variant": b, "signature": sig}, sig)
    quoted_parameter_pairs(chk)
    lexical_pairs(chk, tier)
    import fixrel
    fixrel.c05(chk, tier)
    if docs:
        chk.sample({"doc": docs[0]["doc"], "rewritings": REWRITES})
    chk.rule = ("pairs (canonical rendering, rewritten rendering) of TLC-generated valid API documents; rewritings: "
                + ", ".join(REWRITES) + "; distinct = distinct (document, rewriting) pairs whose text differs")
    chk.assumptions += ["eligible positions for comments/blank lines = before a directive keyword line that does not follow "
                        "bare Description text; single-line description texts", "both runs are real runs; nothing about the "
                        "common value is assumed"]
    return chk.finish()


def replay(path):
    rp = json.load(open(path))["replay"]
    if rp.get("kind") in ("fxpair", "fxban"):
        import fixrel
        return fixrel.replay("C05", rp)
    chk = Check("C05", "quick")
    if rp["kind"] == "lexpair":
        from common import b64
        base, var = rp["base"].encode("latin1"), rp["variant"].encode("latin1")
        o = harness("lex", [{"id": "a", "b64": b64(base)}, {"id": "b", "b64": b64(var)}])
        chk.evaluations = 1
        if (o["a"]["err_idx"] >= 0) != (o["b"]["err_idx"] >= 0) or (o["a"]["err_idx"] < 0 and lex_view(base, o["a"]) != lex_view(var, o["b"])):
            chk.violation("reproduced", rp, rp.get("signature"))
        return chk.finish()
    from common import b64
    more = {k: b64(v) for k, v in (rp.get("files") or {}).items()}        # the files an INCLUDE of the pair names
    mk = lambda cid, text: {"id": cid, "files": dict(more, **{"main.jst": b64(text)}), "root": "main.jst"} if more else rel.case(cid, text)
    obs = harness("run", [mk("a", rp["base"]), mk("b", rp["variant"])])
    chk.evaluations = 1
    if rel.result_key(obs["a"]) != rel.result_key(obs["b"]):
        chk.violation("rewriting changed the result: %s vs %s" % (rel.describe(obs["a"]), rel.describe(obs["b"])), rp, rp.get("signature"))
    return chk.finish()
