"""C13 Path parameters: each {name} is bound to the one schema property declared for it.

TLC (JSightApi) generates path trees (shared prefixes, parameters at any depth, Path under URL
or under a method, declared once for a prefix and used by longer paths); the meaning layer's
PathVars (the {name} segments with a declared property at that prefix, in path order) is
compared with interactions[*].pathVariables of the real catalog.  Faulty variants - a Path
property matching no segment, a parameter declared twice for one prefix, an empty or repeated
{name} in one path, a Path body that is not a flat object - must be rejected."""
import copy
import json
import random

import apidoc
import c04
import rel
from common import Check, b64, harness, seed

FEATS = '{"url","method","pathdecl","methoddecl","type"}'


def raw(label, *lines):
    return {"t": "raw", "lines": list(lines), "label": label}


def reject_variants(doc):
    res = []
    for i, b in enumerate(doc):
        if b["t"] == "url" and any(s.startswith("{") for s in b["path"]):
            p = "".join("/" + s for s in b["path"])
            par = [s[1:-1] for s in b["path"] if s.startswith("{")]
            d0 = copy.deepcopy(doc)
            d0[i]["pathdecl"] = []
            for m in d0[i]["methods"]:
                m["pathdecl"] = []
            # property that matches no segment
            d1 = copy.deepcopy(d0)
            d1[i]["extra_first"] = [raw("Path", "Path", "{", '  "%s": 1,' % par[0], '  "nosuchsegment": 1', "}")]
            res.append(("unused_property", d1))
            for nm, rule in (("unused_property_optional", "{optional: true}"), ("unused_property_nullable", "{nullable: true}"), ("unused_property_note", "not in the path")):
                d1b = copy.deepcopy(d0)
                d1b[i]["extra_first"] = [raw("Path", "Path", "{", '  "%s": 1,' % par[0], '  "nosuchsegment": 1 // %s' % rule, "}")]
                res.append((nm, d1b))
            # the same parameter declared twice for one prefix (URL level and again in a longer URL)
            d2 = copy.deepcopy(d0)
            d2[i]["extra_first"] = [raw("Path", "Path", "{", '  "%s": 1' % par[0], "}")]
            d2.append({"t": "url", "path": b["path"] + ["zlonger"], "tags": [], "pathdecl": [], "methods": [],
                       "extra_first": [raw("Path", "Path", "{", '  "%s": 1' % par[0], "}")]})
            res.append(("declared_twice", d2))
            # a second Path directive of the URL block, written after a method that has a Path directive of its own
            if len(par) >= 2:
                d2b = copy.deepcopy(d0)
                d2b[i]["extra_first"] = [raw("Path", "Path", "{", '  "%s": 1' % par[0], "}"),
                                         raw("GET", "PATCH", "(", "  Path", "  {", '    "%s": 1' % par[1], "  }", "  200 any", ")"),
                                         raw("Path", "Path", "{", '  "zlate": 1', "}")]
                res.append(("second_path_after_a_method_with_its_own", d2b))
            # not a flat object
            d3 = copy.deepcopy(d0)
            d3[i]["extra_first"] = [raw("Path", "Path", "{", '  "%s": {' % par[0], '    "deep": 1', "  }", "}")]
            res.append(("nested_object", d3))
            if len(par) >= 1:
                d3b = copy.deepcopy(d0)
                d3b[i]["extra_first"] = [raw("Path", "Path", "{", '  "%s": {' % par[0], '    "deep": 1', "  },", '  "zarr": [1, 2],', '  "zobj": {', '    "x": 1', "  }", "}")]
                res.append(("nested_objects_and_arrays", d3b))
            d4 = copy.deepcopy(d0)
            d4[i]["extra_first"] = [raw("Path", "Path", "[", "  1", "]")]
            res.append(("array_body", d4))
            d5 = copy.deepcopy(d0)
            d5[i]["extra_first"] = [raw("Path", "Path", "{}")]
            res.append(("empty_object", d5))
            # a property of the Path body whose type is not scalar
            d7 = copy.deepcopy(d0)
            d7[i]["extra_first"] = [raw("Path", "Path", "{", '  "%s": @zobj' % par[0], "}")]
            d7.append(raw("TYPE", "TYPE @zobj", "{", '  "deep": 1', "}"))
            res.append(("prop_object_type", d7))
            d8 = copy.deepcopy(d0)
            d8[i]["extra_first"] = [raw("Path", "Path", "{", '  "%s": @zarr' % par[0], "}")]
            d8.append(raw("TYPE", "TYPE @zarr", "[", "  1", "]"))
            res.append(("prop_array_type", d8))
            d9 = copy.deepcopy(d0)
            d9[i]["extra_first"] = [raw("Path", "Path", "{", '  "%s": @znone' % par[0], "}")]
            res.append(("prop_undefined_type", d9))
            # an "or" rule: every alternative must be a scalar, wherever it stands in the list
            for nm, alts in (("prop_or_object_second", '["integer", "@zobj"]'), ("prop_or_object_first", '["@zobj", "integer"]'),
                             ("prop_or_object_last_of_three", '["string", "integer", "@zobj"]')):
                dd = copy.deepcopy(d0)
                dd[i]["extra_first"] = [raw("Path", "Path", "{", '  "%s": 1 // {or: %s}' % (par[0], alts), "}")]
                dd.append(raw("TYPE", "TYPE @zobj", "{", '  "deep": 1', "}"))
                res.append((nm, dd))
            # the body is a reference to a type that is not an object (one per kind of non-object type)
            for nm, tdef in (("ref_regex_type", ["TYPE @zpv regex", "/ab+/"]), ("ref_any_type", ["TYPE @zpv any"]),
                             ("ref_scalar_type", ["TYPE @zpv", "1"]), ("ref_array_type", ["TYPE @zpv", "[1]"]),
                             ("ref_undefined_type", []), ("ref_chain_to_regex", ["TYPE @zpv", "@zpw", "TYPE @zpw regex", "/ab+/"])):
                d6 = copy.deepcopy(d0)
                d6[i]["extra_first"] = [raw("Path", "Path", "@zpv")]
                if tdef:
                    d6.append(raw("TYPE", *tdef))
                res.append((nm, d6))
            break
    m = {"verb": "GET", "annot": "", "desc": "", "tags": [], "query": "", "reqHeaders": False, "pathdecl": [],
         "req": {"form": "none", "b": {"k": "none", "n": "", "props": [], "allOf": []}},
         "resps": [{"code": "200", "annot": "", "spec": {"form": "param", "b": {"k": "any", "n": "", "props": [], "allOf": []}}, "headers": False}]}
    res.append(("empty_name", doc + [{"t": "method", "m": dict(m, path=["ze", "{}"])}]))
    res.append(("repeated_name", doc + [{"t": "method", "m": dict(m, path=["zr", "{id}", "x", "{id}"])}]))
    return res


def shortcut_forms(doc):
    """The Path body written inline, as a reference to an object type, and as a reference to a type that
    is itself only a reference: the three forms must give the same path variables."""
    for i, b in enumerate(doc):
        if b["t"] == "url" and any(s.startswith("{") for s in b["path"]) and b["methods"]:
            par = [s[1:-1] for s in b["path"] if s.startswith("{")]
            d0 = copy.deepcopy(doc)
            d0[i]["pathdecl"] = []
            for m in d0[i]["methods"]:
                m["pathdecl"] = []
            body = ["{"] + ['  "%s": 1%s' % (p, "," if k < len(par) - 1 else "") for k, p in enumerate(par)] + ["}"]
            inline = copy.deepcopy(d0)
            inline[i]["extra_first"] = [raw("Path", "Path", *body)]
            one = copy.deepcopy(d0)
            one[i]["extra_first"] = [raw("Path", "Path", "@zpv")]
            one.append(raw("TYPE", "TYPE @zpv", *body))
            two = copy.deepcopy(d0)
            two[i]["extra_first"] = [raw("Path", "Path", "@zpw")]
            two += [raw("TYPE", "TYPE @zpw", "@zpv"), raw("TYPE", "TYPE @zpv", *body)]
            three = copy.deepcopy(d0)
            three[i]["extra_first"] = [raw("Path", "Path", "@zpx")]
            three += [raw("TYPE", "TYPE @zpv", *body), raw("TYPE", "TYPE @zpx", "@zpw"), raw("TYPE", "TYPE @zpw", "@zpv")]
            return [("inline", inline), ("shortcut", one), ("shortcut_chain2", two), ("shortcut_chain3", three)]
    return []


# variants whose fault sits in the one Path directive that reject_variants() writes at the head of a URL block
SINGLE_SITE = ("unused_property", "unused_property_optional", "unused_property_nullable", "unused_property_note", "nested_object", "array_body", "empty_object", "prop_object_type", "prop_array_type",
               "prop_undefined_type", "prop_or_object_second", "prop_or_object_first", "prop_or_object_last_of_three", "ref_regex_type", "ref_any_type", "ref_scalar_type", "ref_array_type",
               "ref_undefined_type", "ref_chain_to_regex")


def located_variants(doc):
    """-> (name, text, begin, end): faulty documents with the byte range of the Path directive at fault (keyword
    to the end of its body); a second, correct URL block with its own Path follows, so that the faulty
    Path is never the last one of the project"""
    tail = {"t": "url", "path": ["zlast", "{zl}"], "tags": [], "pathdecl": ["zl"], "methods": [
        {"verb": "GET", "annot": "", "desc": "", "tags": [], "query": "", "reqHeaders": False, "pathdecl": [],
         "req": {"form": "none", "b": {"k": "none", "n": "", "props": [], "allOf": []}},
         "resps": [{"code": "200", "annot": "", "spec": {"form": "param", "b": {"k": "any", "n": "", "props": [], "allOf": []}}, "headers": False}]}]}
    res = []
    # no other Path declaration in the document: a second declaration of the same parameter elsewhere would be a
    # fault of its own, with its own place
    doc = copy.deepcopy(doc)
    for b in doc:
        if b["t"] == "url":
            b["pathdecl"] = []
            for mm in b["methods"]:
                mm["pathdecl"] = []
        elif b["t"] == "method":
            b["m"]["pathdecl"] = []
    for nm, rd in reject_variants(doc):
        if nm not in SINGLE_SITE:
            continue
        rd = rd + [tail]
        text, bs, spans = apidoc.render(rd)
        # the faulty Path is the first Path directive of the first URL block that has a parameter
        for k, b in enumerate(rd):
            if b["t"] == "url" and b.get("extra_first"):
                lo, hi = bs[k]
                kw = text.encode().find(b"Path", lo, hi)
                first = b["extra_first"][0]["lines"]
                end = text.encode().find(first[-1].encode(), kw, hi) + len(first[-1].encode())
                res.append((nm, text, kw, end))
                break
    return res


def main(tier):
    chk = Check("C13", tier)
    thorough = tier == "thorough"
    docs = []
    for i, (n, mb) in enumerate([(12000, 3), (12000, 5)] if thorough else [(1200, 3), (1200, 5)]):
        docs += c04.gen_docs(chk, n, mb, seed() * 100 + 40 + i, features=FEATS, workers=8 if thorough else 4)
    cases, meta, rej, shorts = [], {}, {}, {}
    withvars = 0
    for n, m in enumerate(docs):
        if not m["valid"]:
            continue
        d = m["doc"]
        text = apidoc.render(d)[0]
        cid = "p%d" % n
        cases.append(rel.case(cid, text))
        meta[cid] = (m, text)
        # the same declarations written as names of types (directly, through an alias, with an inherited property)
        t2 = apidoc.render(d, apidoc.Style(pathref=1.0, rnd=random.Random(n)))[0]
        if t2 != text:
            cases.append(rel.case("q%d" % n, t2))
            meta["q%d" % n] = (m, t2)
        # the declared properties carry rules and notes (optional, bounds, enum, or, nullable ...): bound all the same
        t3 = apidoc.render(d, apidoc.Style(pathrules=0.7, pathref=0.5 if n % 2 else 0.0, rnd=random.Random(n + 7)))[0]
        if t3 not in (text, t2):
            cases.append(rel.case("r%d" % n, t3))
            meta["r%d" % n] = (m, t3)
        if n % (2 if thorough else 6) == 0:
            for nm, rd in reject_variants(d):
                rid = "x%d_%s" % (n, nm)
                t = apidoc.render(rd)[0]
                cases.append(rel.case(rid, t))
                rej[rid] = (nm, m, t)
            forms = shortcut_forms(d)
            for nm, fd in forms:
                t = apidoc.render(fd)[0]
                cases.append(rel.case("s%d_%s" % (n, nm), t))
            if forms:
                shorts[n] = [(nm, apidoc.render(fd)[0]) for nm, fd in forms]
    # prefixes that differ only in letter case are different prefixes
    casecases = {}
    simple = {"verb": "GET", "annot": "", "desc": "", "tags": [], "query": "", "reqHeaders": False, "pathdecl": [],
              "req": {"form": "none", "b": {"k": "none", "n": "", "props": [], "allOf": []}},
              "resps": [{"code": "200", "annot": "", "spec": {"form": "param", "b": {"k": "any", "n": "", "props": [], "allOf": []}}, "headers": False}]}

    def urlb(path, decl):
        return {"t": "url", "path": path, "tags": [], "pathdecl": decl, "methods": [copy.deepcopy(simple)]}
    for k, (a, b, declb) in enumerate([(["zcase", "{zi}"], ["ZCASE", "{zi}", "x"], []), (["zcase", "{zi}"], ["Zcase", "{zi}"], ["zi"]),
                                       (["zCase", "{zi}", "y"], ["zcase", "{zi}", "y"], []), (["v1", "Users", "{zi}"], ["v1", "users", "{zi}"], ["zi"])]):
        d = (docs[k]["doc"] if k < len(docs) and docs[k]["valid"] else []) + [urlb(a, ["zi"]), urlb(b, declb)]
        text = apidoc.render(d)[0]
        cases.append(rel.case("cs%d" % k, text))
        casecases["cs%d" % k] = (text, "http GET /" + "/".join(a), ["zi"], "http GET /" + "/".join(b), declb)
    # one Path directive that feeds interactions with different numbers of parameters, in both orders of declaration
    long_url = {"t": "url", "path": ["zm", "{zy}", "{zz}"], "tags": [], "pathdecl": ["zy", "zz"], "methods": [copy.deepcopy(simple)]}
    short_m = {"t": "method", "m": dict(copy.deepcopy(simple), path=["zm", "{zy}"])}
    mid_m = {"t": "method", "m": dict(copy.deepcopy(simple), verb="PUT", path=["zm", "{zy}", "{zz}", "more"])}
    for k, blocks in enumerate([[short_m, long_url, mid_m], [long_url, short_m, mid_m], [mid_m, short_m, long_url], [long_url, mid_m, short_m]]):
        text = apidoc.render(blocks)[0]
        cases.append(rel.case("sh%d" % k, text))
        casecases["sh%d" % k] = (text, "http GET /zm/{zy}", ["zy"], "http GET /zm/{zy}/{zz}", ["zy", "zz"])
        casecases["sh%db" % k] = (text, "http PUT /zm/{zy}/{zz}/more", ["zy", "zz"], "http GET /zm/{zy}", ["zy"])
    # Path bodies of every form in ONE project, in both orders: by reference (direct, through an alias), inline, inline
    # with an inherited property, by reference to a type that inherits
    tdefs = 'TYPE @zb\n{\n  "y": 1\n}\nTYPE @zp\n{\n  "w": 1\n}\nTYPE @zal\n  @zp\nTYPE @zinh\n{ // {allOf: "@zb"}\n  "v": 1\n}\n'
    ublocks = [('URL /q1/{w}\n  Path\n    @zp\n  GET\n    200 any\n', "http GET /q1/{w}", ["w"]),
               ('URL /q2/{w}\n  Path\n    @zal\n  GET\n    200 any\n', "http GET /q2/{w}", ["w"]),
               ('URL /r/{y}/{z}\n  Path\n  { // {allOf: "@zb"}\n    "z": 1\n  }\n  POST\n    200 any\n', "http POST /r/{y}/{z}", ["y", "z"]),
               ('URL /s/{y}/{v}\n  Path\n    @zinh\n  PUT\n    200 any\n', "http PUT /s/{y}/{v}", ["y", "v"]),
               ('URL /t/{k}\n  Path\n  {\n    "k": 1\n  }\n  DELETE\n    200 any\n', "http DELETE /t/{k}", ["k"])]
    import itertools
    for k, (x, y) in enumerate(itertools.permutations(range(len(ublocks)), 2)):
        text = "JSIGHT 0.3\n" + (tdefs if k % 2 else "") + ublocks[x][0] + ublocks[y][0] + ("" if k % 2 else tdefs)
        cases.append(rel.case("mx%d" % k, text))
        casecases["mx%d" % k] = (text, ublocks[x][1], ublocks[x][2], ublocks[y][1], ublocks[y][2])
    # parameters whose name is a key shortcut: {@slug} in the path, @slug: "x" in the Path body
    ks = 'TYPE @zslug\n  "s"\n'
    for k, (body, iid, want) in enumerate([
            ('URL /zks/{@zslug}/toys/{toy}\n  Path\n  {\n    @zslug: "x",\n    "toy": 2\n  }\n  GET\n    200 any\n', "http GET /zks/{@zslug}/toys/{toy}", ["@zslug", "toy"]),
            ('GET /zks/{toy}/{@zslug}\n  Path\n  {\n    "toy": 2,\n    @zslug: "x"\n  }\n  200 any\n', "http GET /zks/{toy}/{@zslug}", ["toy", "@zslug"]),
            ('URL /zks/{@zslug}\n  Path\n  {\n    @zslug: "x"\n  }\n  GET\n    200 any\n  POST /zks/{@zslug}/more\n    200 any\n', "http POST /zks/{@zslug}/more", ["@zslug"])]):
        text = "JSIGHT 0.3\n" + (ks + body if k % 2 else body + ks)
        cases.append(rel.case("ks%d" % k, text))
        casecases["ks%d" % k] = (text, iid, want, iid, want)
    for k, body in enumerate(['GET /zks/{id}\n  Path\n  {\n    "id": 1,\n    @zslug: "x"\n  }\n  200 any\n',
                              'URL /zks/{id}\n  Path\n  {\n    @zslug: "x",\n    "id": 1\n  }\n  GET\n    200 any\n']):
        t = "JSIGHT 0.3\n" + ks + body
        cases.append(rel.case("xks%d" % k, t))
        rej["xks%d" % k] = ("unused_property_key_shortcut", {"doc": ["ks%d" % k]}, t)
    # a JSON-RPC URL is a path too: an empty {} or a {name} written twice is rejected
    for k, p in enumerate(["/zrp/{v}/rpc/{v}", "/zrp/{}/rpc", "/zrp/{a}/{b}/{a}"]):
        for proto, tail in (("rpc", "  Protocol json-rpc-2.0\n  Method zm\n    Result\n    {}\n"), ("http", "  GET\n    200 any\n")):
            t = "JSIGHT 0.3\nURL %s\n%s" % (p, tail)
            cases.append(rel.case("xrp%d%s" % (k, proto), t))
            rej["xrp%d%s" % (k, proto)] = ("faulty_parameters_in_%s_url" % proto, {"doc": ["rp%d%s" % (k, proto)]}, t)
    # one file with a method and its Path directive included under two (three) URL blocks: each inclusion binds the
    # parameter of ITS path
    item = '  GET\n    Path\n    {\n      "id": 1\n    }\n    200 any\n'
    for k, urls in enumerate([["zcats", "zdogs"], ["zcats", "zdogs", "zowls"]]):
        main_t = "JSIGHT 0.3\n" + "".join("URL /%s/{id}\nINCLUDE parts/item.jst\n" % u for u in urls)
        cases.append({"id": "tw%d" % k, "files": {"main.jst": b64(main_t), "parts/item.jst": b64(item)}, "root": "main.jst"})
        casecases["tw%d" % k] = (main_t + "--- parts/item.jst\n" + item, "http GET /%s/{id}" % urls[0], ["id"], "http GET /%s/{id}" % urls[-1], ["id"])
    obs = harness("run", cases)
    for cid, (text, ia, va, ib, vb) in casecases.items():
        o = obs[cid.rstrip("b")]
        chk.evaluations += 1
        chk.traces += 1
        chk.nontrivial.add(text)
        bad = None
        if o["outcome"] != "ok":
            bad = "%s are not accepted: %s" % ("two paths that differ in letter case" if cid.startswith("cs") else "paths sharing one Path directive", rel.describe(o))
        else:
            have = {i["id"]: i["pathvars"] for i in apidoc.project(o["json"])[0]["interactions"]}
            for iid, want in ((ia, va), (ib, vb)):
                if have.get(iid) != want:
                    bad = "pathVariables of %s: %s, declared for exactly this prefix: %s" % (iid, have.get(iid), want)
        if bad:
            sig = {"what": "letter case"}
            chk.violation(bad + " | document:\n" + text[-600:], {"kind": "path_case", "file": text, "observed": o, "signature": sig}, sig)
    for cid, (m, text) in meta.items():
        o = obs[cid]
        chk.evaluations += 1
        chk.traces += 1
        chk.nontrivial.add(json.dumps(m["doc"], sort_keys=True))
        want = {i["id"]: i["pathvars"] for i in m["cat"][0]["interactions"]}
        if any(want.values()):
            withvars += 1
        bad = None
        if o["outcome"] != "ok":
            bad = "valid document not accepted: %s" % rel.describe(o)
        else:
            got, _, _ = apidoc.project(o["json"])
            have = {i["id"]: i["pathvars"] for i in got["interactions"]}
            if have != want:
                k = next(k for k in set(want) | set(have) if want.get(k) != have.get(k))
                bad = "pathVariables of %s: expected %s, observed %s" % (k, want.get(k), have.get(k))
        if bad:
            sig = {"what": bad.split(":")[0][:40]}
            chk.violation(bad + " | document:\n" + text[:1500], {"kind": "path_doc", "doc": m["doc"], "file": text,
                          "expected": want, "observed": o, "signature": sig}, sig)
    for rid, (nm, m, t) in rej.items():
        o = obs[rid]
        chk.evaluations += 1
        chk.traces += 1
        chk.nontrivial.add(nm + json.dumps(m["doc"], sort_keys=True))
        if o["outcome"] != "error":
            sig = {"what": "not rejected", "variant": nm, "outcome": o["outcome"]}
            chk.violation("%s must be rejected, observed %s | document:\n%s" % (nm, rel.describe(o), t[:1200]),
                          {"kind": "path_reject", "variant": nm, "file": t, "observed": o, "signature": sig}, sig)
    # a Path body that is not flat, in a URL whose parameters no HTTP interaction binds (no method under it / only methods
    # elsewhere): rejected like anywhere else.  Inline objects and arrays are checked when the Path is read; a property that
    # REFERS to an object / array type only when some interaction binds it (finding F-50)
    ub = {}
    ubt = 'JSIGHT 0.3\nTYPE @zobj\n{\n  "a": 1\n}\nTYPE @zarr\n[1]\n'
    for vn, val in (("inline_object", '{"a": 1}'), ("inline_array", "[1]"), ("object_type", "@zobj"), ("array_type", "@zarr"), ("or_object", "@zobj | @zarr")):
        pb = '  Path\n  {\n    "id": %s\n  }\n' % val
        ub[(vn, "no_method")] = ubt + "URL /zu/{id}\n" + pb
        ub[(vn, "methods_elsewhere")] = ubt + "URL /zu/{id}\n" + pb + "GET /zelse\n  200 any\n"
        ub[(vn, "bound")] = ubt + "URL /zu/{id}\n" + pb + "  GET\n    200 any\n"
        ub[(vn, "bound_by_a_longer_path")] = ubt + "URL /zu/{id}\n" + pb + "GET /zu/{id}/more\n  200 any\n"
    uobs = harness("run", [rel.case("ub%d" % k, t) for k, t in enumerate(ub.values())])
    for k, ((vn, where), t) in enumerate(ub.items()):
        o = uobs["ub%d" % k]
        chk.evaluations += 1
        chk.traces += 1
        chk.nontrivial.add("unbound:%s:%s" % (vn, where))
        if o["outcome"] != "error":
            nm = ("unbound_prop_" if where in ("no_method", "methods_elsewhere") else "bound_prop_") + vn
            sig = {"what": "not rejected", "variant": nm, "outcome": o["outcome"]}
            chk.violation("%s (%s) must be rejected, observed %s | document:\n%s" % (nm, where, rel.describe(o), t),
                          {"kind": "path_reject", "variant": nm, "file": t, "observed": o, "signature": sig}, sig)
    for n, forms in shorts.items():
        base = obs["s%d_inline" % n]
        chk.evaluations += 1
        if base["outcome"] != "ok":
            continue                    # the inline form is not acceptable for its own reasons (e.g. a parameter declared twice)
        bv = {i["id"]: i["pathvars"] for i in apidoc.project(base["json"])[0]["interactions"]}
        for nm, t in forms[1:]:
            o = obs["s%d_%s" % (n, nm)]
            chk.traces += 1
            chk.nontrivial.add(nm + t)
            bad = None
            if o["outcome"] != "ok":
                bad = "Path body by reference (%s) not accepted although the inline form is: %s" % (nm, rel.describe(o))
            else:
                hv = {i["id"]: i["pathvars"] for i in apidoc.project(o["json"])[0]["interactions"]}
                if hv != bv:
                    k = next(k for k in set(bv) | set(hv) if bv.get(k) != hv.get(k))
                    bad = "pathVariables of %s with the Path body by reference (%s): %s, inline: %s" % (k, nm, hv.get(k), bv.get(k))
            if bad:
                sig = {"what": "shortcut", "variant": nm}
                chk.violation(bad + " | document:\n" + t[:1500], {"kind": "path_shortcut", "variant": nm, "file": t,
                              "inline": forms[0][1], "observed": o, "signature": sig}, sig)
    import pathspec
    pathspec.run(chk, tier, "C13")
    chk.extra["shortcut_form_groups"] = len(shorts)
    chk.extra["documents_with_declared_path_variables"] = withvars
    if meta:
        x = next(iter(meta.values()))
        chk.sample({"doc": x[0]["doc"], "expected_pathvars": {i["id"]: i["pathvars"] for i in x[0]["cat"][0]["interactions"]}})
    chk.rule = ("valid TLC-generated path trees; for each interaction the list of bound parameter names in path order; plus 7 "
                "faulty variants per sampled document (7 shapes + 6 references to non-object types) and 3 by-reference forms of the Path body")
    chk.assumptions += ["declared schemas are integers; 'each with the declared schema' is checked on the key only"]
    return chk.finish()


def replay(path):
    rp = json.load(open(path))["replay"]
    chk = Check("C13", "quick")
    if rp.get("kind") == "pathspec":
        import pathspec
        pathspec.replay(chk, "C13", rp)
        return chk.finish()
    chk.evaluations = 1
    o = harness("run", [rel.case("a", rp["file"])])["a"]
    print("now:", rel.describe(o))
    return chk.finish()
