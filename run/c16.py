"""C16 Concurrency: independent parses and concurrent reads do not interfere.

TLC: OrderedMap (threads, RWMutex, the method bodies as micro-steps under the lock):
mutual exclusion, order = keys without duplicates at quiescent points, no lost update,
a running Each never sees a half-written entry, deadlock freedom, termination; the same
module with Locked = FALSE must be rejected (non-vacuity).
V: histories recorded from the REAL generated collections (Servers, UserTypes, UserRules,
Tags, Directives) under 4-8 goroutines with invoke/return stamped by one atomic counter are
validated by TLC (TraceMap): accepted iff linearisable against the atomic ordered map with
the logged results, the final iteration order and size.
Whole library: N documents validated/serialised concurrently and one catalog serialised by
many goroutines; every result compared with the solo result (real vs real).
Data races: the same drivers built with -race; a report whose stacks lie in this module or
in its calls into the schema library is a violation (sensor: Go race detector; TLA+ has no
notion of the Go memory model)."""
import json
import os
import random
import re
import subprocess

import apidoc
import c04
import common
import rel
from common import Check, Inconclusive, b64, harness, seed, tlc, tlc_ok

KINDS = ["Servers", "UserTypes", "UserRules", "Tags", "Directives"]


def history_lines(o):
    """one recorded history -> uniform trace records (all fields on every event)"""
    out = []
    for e in o["events"]:
        out.append({"e": e["e"], "t": e.get("t", 0), "op": e.get("op", ""), "k": e.get("k", ""), "v": e.get("v", 0), "r": e.get("r", "")})
    out.append({"e": "final", "t": 0, "op": "", "k": "", "v": o["len"], "r": o["final"]})
    return out


def validate_histories(chk, obs_list, label):
    """feeds histories to TraceMap in batches; returns list of rejected histories"""
    rejected = []
    batch = 12
    for i in range(0, len(obs_list), batch):
        group = obs_list[i:i + batch]
        lines = []
        bounds = []
        for o in group:
            start = len(lines)
            lines += history_lines(o)
            bounds.append((start + 1, len(lines), o))
        nd = "\n".join(json.dumps(x) for x in lines) + "\n"
        r = tlc("TraceMap", "TraceMap.cfg", workers=1, dfs=True, files={"map_trace.ndjson": nd}, timeout=900)
        chk.add_tlc(r)
        if r.error:
            raise Inconclusive("TraceMap: " + r.error)
        if r.violated == "NotDone":
            chk.traces += len(group)       # the whole batch was consumed: all histories accepted
            continue
        if r.violated:
            raise Inconclusive("TraceMap: unexpected violation %s\n%s" % (r.violated, r.out[-1500:]))
        hw = r.mbt[-1]["highwater"] if r.mbt else 0
        for a, b, o in bounds:
            if a <= hw <= b or (hw > b and False):
                rejected.append((o, hw - a, lines[a - 1:b]))
            elif hw > b:
                chk.traces += 1
        # histories after the rejected one were not examined in this batch: re-run them alone
        rest = [o for a, b, o in bounds if a > hw]
        if rest:
            rejected += validate_histories(chk, rest, label)
    return rejected


def race_reports(stderr):
    reps = re.split(r"={18}\n", stderr)
    return [r for r in reps if "WARNING: DATA RACE" in r]


def main(tier):
    chk = Check("C16", tier)
    thorough = tier == "thorough"
    sd = seed()
    rnd = random.Random(sd)
    # --- design level -------------------------------------------------------------------
    r = tlc_ok(tlc("OrderedMap", "OrderedMap.cfg", timeout=3000), "OrderedMap")
    chk.add_tlc(r)
    chk.extra["ordered_map_states"] = r.states
    if thorough:
        # 2 threads x 3 operations each, all operations; 3 threads x 2 operations over SetToTop / Update / Each
        for cfg in ("OrderedMap_deep.cfg", "OrderedMap_deep3.cfg"):
            rd = tlc_ok(tlc("OrderedMap", cfg, timeout=6000), "OrderedMap " + cfg)
            chk.add_tlc(rd)
            chk.extra["ordered_map_states_" + cfg.split(".")[0]] = rd.states
    r2 = tlc_ok(tlc("OrderedMap", "OrderedMap_live.cfg", timeout=600), "OrderedMap liveness")
    chk.add_tlc(r2)
    neg = tlc("OrderedMap", "OrderedMap_unlocked.cfg", timeout=600)
    if not neg.violated:
        raise Inconclusive("the unlocked variant of OrderedMap was not rejected: the invariants are vacuous")
    chk.extra["negative_config_rejected_by"] = neg.violated
    # --- real histories, validated by TLC -------------------------------------------------
    cases = []
    nh = 40 if thorough else 8
    for kind in KINDS:
        for i in range(nh):
            g = rnd.choice([3, 4, 6, 8])
            cases.append({"id": "%s_%d" % (kind, i), "kind": kind, "goroutines": g, "rounds": rnd.choice([3, 5, 8]),
                          "ops": 3 if g >= 6 else 5, "keys": ["k1", "k2", "k3"][:rnd.choice([2, 3])], "seed": sd * 1000 + i})
    # one writer inserting new keys (on top / at the end) while two readers serialise the collection: no key twice,
    # no inserted key missing
    stress_cases = [{"id": "stress_%s_%d" % (kind, i), "kind": kind, "stress": 400 if thorough else 150, "seed": sd + i}
                    for kind in ("Servers", "Tags", "UserRules") for i in range(6 if thorough else 3)]       # the kinds whose adapter can be serialised
    sobs = harness("omap", stress_cases)
    for c in stress_cases:
        o = sobs[c["id"]]
        chk.evaluations += 1
        chk.traces += 1
        chk.nontrivial.add(c["id"])
        if o.get("panic") or o.get("dup_reads") or o.get("missing_reads"):
            sig = {"what": "serialisation during insertions", "kind": o["kind"]}
            chk.violation("collection %s serialised while new keys are inserted: %d of %d serialisations with a key twice, %d with an inserted key missing (%s) %s" % (
                o["kind"], o.get("dup_reads", 0), o.get("reads", 0), o.get("missing_reads", 0), o.get("example", ""), o.get("panic", "")),
                {"kind": "omap_stress", "case": c, "observed": o, "signature": sig}, sig)
    chk.extra["serialisations_during_insertions"] = sum(sobs[c["id"]].get("reads", 0) for c in stress_cases)
    # "no update is lost": goroutines incrementing two existing keys through Update, next to readers
    ccases = [{"id": "counter_%s_%d" % (kind, i), "kind": kind, "goroutines": g, "counter": 3000 if thorough else 1500, "seed": sd + i}
              for kind in KINDS for i, g in enumerate((2, 4, 8))]
    ccases += [{"id": "stringset_%d" % i, "kind": "StringSet", "goroutines": g, "counter": 400, "seed": sd + i} for i, g in enumerate((2, 4, 8, 16))]
    cobs = harness("omap", ccases)
    for c in ccases:
        o = cobs[c["id"]]
        chk.evaluations += 1
        chk.traces += 1
        chk.nontrivial.add(c["id"])
        if o.get("outcome") == "fatal":
            sig = {"what": "fatal", "kind": c["kind"]}
            chk.violation("collection %s under concurrent use: the process died: %s" % (c["kind"], o.get("panic", "")[:300]),
                          {"kind": "omap_counter", "case": c, "observed": o, "signature": sig}, sig)
            continue
        if o.get("panic") or o.get("lost_updates") or o.get("dup_reads"):
            sig = {"what": "lost update", "kind": o["kind"]}
            chk.violation("collection %s: %d of %d updates are lost (%s) %s" % (o["kind"], o.get("lost_updates", 0), o.get("reads", 0), o.get("example", ""), o.get("panic", "")),
                          {"kind": "omap_counter", "case": c, "observed": o, "signature": sig}, sig)
    chk.extra["updates_counted"] = sum(cobs[c["id"]].get("reads", 0) for c in ccases)
    obs = harness("omap", cases)
    hist = [obs[c["id"]] for c in cases]
    for o in hist:
        chk.evaluations += 1
        chk.nontrivial.add(o["id"] + str(len(o["events"])))
        if o.get("panic"):
            chk.violation("collection %s panicked under concurrent use: %s" % (o["kind"], o["panic"]),
                          {"kind": "omap_panic", "observed": o}, {"what": "panic", "kind": o["kind"]})
    rejected = validate_histories(chk, [o for o in hist if not o.get("panic")], "omap")
    for o, pos, lines in rejected:
        sig = {"what": "not linearisable", "kind": o["kind"]}
        chk.violation("history of %s is not linearisable (TraceMap stuck at event %d: %s)" % (
            o["kind"], pos, json.dumps(lines[max(0, pos - 3):pos + 2])[:500]),
            {"kind": "omap_history", "collection": o["kind"], "events": lines, "stuck_at": pos, "signature": sig}, sig)
    overl = sum(1 for o in hist for a, b in zip(o["events"], o["events"][1:]) if a["e"] == "inv" and b["e"] == "inv")
    chk.extra["histories"] = len(hist)
    chk.extra["events"] = sum(len(o["events"]) for o in hist)
    chk.extra["overlapping_invocations"] = overl
    chk.sample({"history": hist[0]["events"][:12], "collection": hist[0]["kind"]})
    # --- whole library ---------------------------------------------------------------------
    docs = c04.gen_docs(chk, 1500 if thorough else 300, 6, sd * 100 + 61, workers=8 if thorough else 4)
    texts = [apidoc.render(m["doc"])[0] for m in docs if m["valid"]]
    fx = [f for f in __import__("fixtures").fixture_files() if "err" not in os.path.basename(f)]
    rnd.shuffle(fx)
    for f in fx[:(200 if thorough else 40)]:
        data = open(f, "rb").read()
        if b"INCLUDE" not in data:
            texts.append(data.decode("utf-8", "surrogateescape"))
    groups = []
    for g in range(0, len(texts), 16):
        groups.append({"id": "w%d" % g, "cases": [rel.case("c%d" % (g + j), t) for j, t in enumerate(texts[g:g + 16])],
                       "reps": 4 if thorough else 2, "readers": 8, "writers": 3 if g % 48 == 0 else 0})
    # projects with INCLUDE whose first validations in this process happen at the same moment (6 goroutines per
    # project), then concurrently again
    import c08
    inc_cases = []
    for n, m in enumerate([x for x in docs if x["valid"]][:(400 if thorough else 60)]):
        fl = [f for f in c08.forms(m["doc"], m["tx"][0], rnd) if len(f) == 3 and f[2]]
        if not fl:
            continue
        nm, blocks, files = fl[n % len(fl)]
        ff = {"main.jst": b64(apidoc.render(blocks)[0])}
        ff.update({k: b64(v) for k, v in files.items()})
        inc_cases.append({"id": "ci%d" % n, "files": ff, "root": "main.jst"})
    for g in range(0, len(inc_cases), 8):
        groups.append({"id": "wi%d" % g, "cases": inc_cases[g:g + 8], "reps": 2, "readers": 0, "cold": 6})
    chk.extra["include_projects_first_validated_concurrently"] = len(inc_cases)
    # one option VALUE shared by all projects of a group; the last project of the group adds a second banning option of
    # its own, which must stay its own
    for g in range(0, min(len(texts), 64 if thorough else 24), 8):
        cs = [dict(rel.case("so%d" % (g + j), t), shared_ban=True) for j, t in enumerate(texts[g:g + 8])]
        if len(cs) < 2:
            continue
        cs[-1]["banned2"] = ["GET", "POST", "PUT", "PATCH", "DELETE", "URL", "TYPE", "INFO", "SERVER", "TAG", "ENUM"]
        groups.append({"id": "ws%d" % g, "cases": cs, "reps": 3, "readers": 0, "shared_ban": ["INCLUDE"]})
    # projects made from ONE byte slice held in memory (kit.NewJApiFromFile): first validated by 6 goroutines at the same
    # moment, then again in turn and next to each other.  Documents with what the library rewrites when it reads:
    # escapes in quoted parameters, CRLF line ends in descriptions, runs of blanks in annotations
    import c03
    import c07
    memtexts = [t for k, t in c03.special_docs() if k in ("quoted_escapes",)]
    memtexts += [mcr for nm, inl, mcr in c07.twice_pairs() if "three_hosts" in nm]
    memtexts += [t.replace("\n", "\r\n") for t in texts[:6]] + texts[6:12]
    memtexts.append('JSIGHT 0.3\nINFO\n  Title "a \\"b\\" \\\\ c"\n  Version "\\\\1"\n  Description\n    l1\r\n    l2\r\n    l3\r\n    l4\nGET "/p\\\\q" //  two   blanks \t tab\n  200 any\n')
    for g in range(0, len(memtexts), 8):
        groups.append({"id": "wm%d" % g, "cases": [dict(rel.case("cm%d" % (g + j), t), mem=True) for j, t in enumerate(memtexts[g:g + 8])],
                       "reps": 3, "readers": 0, "cold": 6})
    chk.extra["projects_from_one_byte_slice_in_memory"] = len(memtexts)
    # types whose many properties carry rules, inherited once, twice (a chain) and into an array item: the rules of the
    # heirs are first looked up by name by 16 goroutines at the same moment
    def ruled(n):
        return "".join('  "p%d": %d%s // {min: 1, max: %d, optional: true}\n' % (i, 5, "," if i < n - 1 else "", 9 + i) for i in range(n))
    ruletexts = []
    for n in (3, 40, 250):
        ruletexts.append('JSIGHT 0.3\nTYPE @zbase\n{\n%s}\nTYPE @zheir\n{ // {allOf: "@zbase"}\n  "own": 1 // {min: 0}\n}\nGET /zx\n  200 @zheir\n' % ruled(n))
        ruletexts.append('JSIGHT 0.3\nTYPE @zbase\n{\n%s}\nTYPE @zmid\n{ // {allOf: "@zbase"}\n  "m": "s" // {minLength: 1}\n}\nTYPE @zheir\n{ // {allOf: "@zmid"}\n  "own": 1\n}\n'
                         'TYPE @zarr\n{\n  "items": [\n    { // {allOf: "@zbase"}\n      "nk": 1 // {nullable: true}\n    }\n  ]\n}\nGET /zx\n  200 @zheir\n' % ruled(n))
    groups.insert(0, {"id": "wr0", "cases": [rel.case("cr%d" % j, t) for j, t in enumerate(ruletexts)], "reps": 2, "readers": 16})
    obs4 = harness("conc", groups)
    for g in groups:
        o = obs4[g["id"]]
        if o.get("outcome") == "fatal":
            if "concurrent map" not in o.get("panic", ""):
                raise Inconclusive("the process died while running group %s: %s" % (g["id"], o.get("panic", "")[:300]))
            chk.evaluations += 1
            sig = {"kind": "concurrent", "what": "process died", "readers": "True"}
            chk.violation("projects and catalogs used from several goroutines (group %s): the process died: %s; frames %s" % (g["id"], o.get("panic", "")[:200], o.get("frames")),
                          {"kind": "conc_fatal", "group": g, "signature": sig}, sig)
            continue
        chk.evaluations += o["runs"]
        chk.traces += o["runs"]
        for d in o["diffs"]:
            dd = json.loads(d)
            what = "concurrent run differs"
            if dd.get("solo") == "ok" and dd.get("concurrent") == "ok" and "solo_json" in dd and \
                    rel.strip_examples(dd["solo_json"]) == rel.strip_examples(dd["conc_json"]):
                what = "example-only"
            sig = {"kind": "concurrent", "what": what, "readers": str(bool(dd.get("readers")))}
            dd.pop("solo_json", None)
            dd.pop("conc_json", None)
            chk.violation("result under concurrency differs from the solo result (%s): %s" % (what, json.dumps(dd)[:500]),
                          {"kind": "conc", "diff": dd, "signature": sig}, sig)
    # --- data races (Go race detector as the sensor) ---------------------------------------
    try:
        common.build_harness(race=True)
        race_ok = True
    except Inconclusive as e:
        race_ok = False
        chk.extra["race_detector"] = "unavailable: %s" % str(e)[:200]
    if race_ok:
        env = dict(os.environ, GORACE="halt_on_error=0")
        inp = "\n".join(json.dumps(c) for c in cases[:(60 if thorough else 15)]) + "\n"
        p = subprocess.run([common.VH + "-race", "omap"], input=inp.encode(), capture_output=True, env=env, timeout=1800)
        reps = race_reports(p.stderr.decode("utf-8", "replace"))
        inp2 = "\n".join(json.dumps(g) for g in groups[:(12 if thorough else 3)] + [g for g in groups if g["id"].startswith("wm")][:(6 if thorough else 2)]) + "\n"
        p2 = subprocess.run([common.VH + "-race", "conc"], input=inp2.encode(), capture_output=True, env=env, timeout=1800)
        reps += race_reports(p2.stderr.decode("utf-8", "replace"))
        chk.extra["race_reports"] = len(reps)
        seen = set()
        for rep in reps:
            frames = re.findall(r"^\s+(\S+\(\))\n\s+(\S+):\d+", rep, re.M)
            mine = [f for f, path in frames if "jsight" in f or "jsight" in path]
            top = ",".join(f for f, _ in frames[:3])
            if not mine or top in seen:
                continue
            seen.add(top)
            where = "schema-library-example-pool" if ("example" in rep and "jsight-schema-go-library" in rep) else "other"
            sig = {"kind": "race", "what": where, "frames": top}
            chk.violation("data race reported by the Go race detector: %s" % top,
                          {"kind": "race", "report": rep[:3000], "signature": sig}, sig)
    chk.rule = ("OrderedMap: exhaustive TLC (3 threads x 1 op, 8 operations, 2 keys; thorough adds 2 threads x 3 ops with all operations and 3 threads x 2 ops over SetToTop/Update/Each); recorded histories: "
                "5 collection types x seeded programs with 3-8 goroutines, rounds separated by barriers; whole library: groups of 16 "
                "documents concurrently + 8 concurrent readers of one catalog; race detector on the same drivers")
    chk.assumptions += ["invoke/return order from one atomic counter taken before the call and after its return",
                        "UserSchemas is generated as an *unsafe* map on purpose and is not driven concurrently",
                        "the data-race clause is decided by the Go race detector, not by TLC"]
    return chk.finish()


def replay(path):
    rp = json.load(open(path))["replay"]
    chk = Check("C16", "quick")
    chk.evaluations = 1
    if rp["kind"] == "omap_history":
        nd = "\n".join(json.dumps(x) for x in rp["events"]) + "\n"
        r = tlc("TraceMap", "TraceMap.cfg", workers=1, dfs=True, files={"map_trace.ndjson": nd}, timeout=900)
        if r.violated != "NotDone":
            chk.violation("recorded history is still rejected by TraceMap", rp, rp.get("signature"))
    return chk.finish()
