"""C10 Declaration order is free: permuting top-level declarations only permutes the catalog.

Documents from the JSightApi generator (TLC), with forward references, enums used inside
referenced types, allOf, tags used before TAG.  Each document is run in its generated order
and in permuted orders (all n! for n <= 5 in the thorough tier, seeded samples otherwise).
Two real runs: same verdict; every catalog entry (the complete JSON value under its key,
including inherited properties, usedUserTypes, examples) identical; key order of each
collection = the same permutation of the declarations."""
import itertools
import json
import random

import apidoc
import rel
from common import Check, harness, seed

COLLS = ["servers", "userTypes", "userEnums", "interactions"]


def entries(js):
    val = json.loads(js)
    res = {}
    for c in COLLS + ["tags"]:
        for k, v in (val.get(c) or {}).items():
            res[(c, k)] = v
    res[("info", "")] = val.get("info")
    return res


def order_of(js, coll):
    return list((json.loads(js).get(coll) or {}).keys())


def strip_used(x):
    if isinstance(x, dict):
        return {k: strip_used(v) for k, v in x.items() if k != "usedUserTypes"}
    if isinstance(x, list):
        return [strip_used(v) for v in x]
    return x


def allof_depth(doc):
    tt = {b["name"]: b["body"] for b in doc if b["t"] == "type" and "body" in b}

    def dep(n, seen=()):
        b = tt.get(n)
        if not b or n in seen:
            return 0
        nested = [p["vn"] for p in b["props"] if p["vk"] == "nobj"]     # a nested object's own allOf is an edge too
        return max([1 + dep(x, seen + (n,)) for x in list(b["allOf"]) + nested] + [0])
    return max([dep(n) for n in tt] + [0])


def compare_perm(a, b, doc, perm):
    """a: original result, b: permuted result -> description of the first difference"""
    if a["outcome"] != b["outcome"]:
        return "verdict changed: original %s, permuted %s" % (rel.describe(a), rel.describe(b))
    if a["outcome"] != "ok":
        return None
    ea, eb = entries(a["json"]), entries(b["json"])
    for k in ea:
        if k not in eb:
            return "entry %s/%s disappeared after reordering" % k
        if k[0] == "tags":
            # a tag's list of interactions follows the order of the interactions
            x, y = dict(ea[k]), dict(eb[k])
            gx = {g["protocol"]: sorted(g["interactions"]) for g in x.pop("interactionGroups")}
            gy = {g["protocol"]: sorted(g["interactions"]) for g in y.pop("interactionGroups")}
            if x != y or gx != gy:
                return "tag %s changed: %s vs %s" % (k[1], json.dumps(ea[k])[:300], json.dumps(eb[k])[:300])
        elif ea[k] != eb[k]:
            only = ""
            if strip_used(ea[k]) == strip_used(eb[k]):
                only = " [only usedUserTypes differ]"
            return "content of entry %s/%s changed%s: %s" % (k[0], k[1], only, apidoc.first_diff(ea[k], eb[k], k[1]))
    for k in eb:
        if k not in ea:
            return "entry %s/%s appeared after reordering" % k
    return None


def main(tier):
    chk = Check("C10", tier)
    rnd = random.Random(seed())
    docs = rel.valid_docs(chk, tier, [(600, 4), (400, 6)], [(5000, 3), (5000, 5), (3000, 7)])
    # type graphs with allOf chains and references (denser than in whole-API documents)
    docs += rel.valid_docs(chk, tier, [(1500, 5)], [(20000, 5), (10000, 6)], features='{"type","enum","allof","nested","skey"}')
    cases, meta = [], {}
    for n, m in enumerate(docs):
        d = m["doc"]
        if len(d) < 2:
            continue
        base, _, _ = apidoc.render(d)
        cases.append(rel.case("b%d" % n, base))
        idx = list(range(len(d)))
        if tier == "thorough" and len(d) <= 5:
            perms = [p for p in itertools.permutations(idx) if list(p) != idx]
        else:
            perms = []
            for _ in range(4):
                p = idx[:]
                rnd.shuffle(p)
                if p != idx and p not in perms:
                    perms.append(p)
            rev = idx[::-1]
            if rev not in perms and rev != idx:
                perms.append(rev)
        for j, p in enumerate(perms):
            text, _, _ = apidoc.render([d[i] for i in p])
            cid = "p%d_%d" % (n, j)
            cases.append(rel.case(cid, text))
            meta[cid] = ("b%d" % n, list(p), m, base, text)
    # documents with one fault that no ordering can cure (two declarations that clash): rejected in every order
    import c11
    faulty = {}
    for n, m in enumerate(docs):
        tx = (m.get("tx") or [{}])[0]
        f = tx.get("fault")
        if not f or f["f"] not in ("similar_path", "dup_url", "dup_method", "dup_name"):
            continue
        try:
            r = c11.inject(m["doc"], f)
        except Exception:
            r = None
        if r is None:
            continue
        fd = r[0]
        idx = list(range(len(fd)))
        perms = [idx, idx[::-1]]
        for _ in range(3):
            p = idx[:]
            rnd.shuffle(p)
            if p not in perms:
                perms.append(p)
        for j, p in enumerate(perms):
            try:
                text, _, _ = apidoc.render([fd[i] for i in p])
            except Exception:
                continue
            cid = "fp%d_%d" % (n, j)
            cases.append(rel.case(cid, text))
            faulty[cid] = (f, p, text)
    # documents that are NOT valid (Valid(doc) = FALSE for a reason that no ordering cures: undefined or unusable references,
    # clashes): never turned into accepted ones by reordering
    import c04
    inv = [m for m in c04.gen_docs(chk, 3000 if tier == "thorough" else 500, 5, seed() * 100 + 11, workers=4) if not m["valid"] and len(m["doc"]) >= 2]
    for n, m in enumerate(inv):
        d = m["doc"]
        try:
            base = apidoc.render(d)[0]
        except Exception:
            continue
        cases.append(rel.case("ib%d" % n, base))
        idx = list(range(len(d)))
        perms = [idx[::-1], idx[1:] + idx[:1]]
        p3 = idx[:]
        rnd.shuffle(p3)
        perms.append(p3)
        for j, p in enumerate(perms):
            if p == idx:
                continue
            try:
                text = apidoc.render([d[i] for i in p])[0]
            except Exception:
                continue
            cid = "ip%d_%d" % (n, j)
            cases.append(rel.case(cid, text))
            meta[cid] = ("ib%d" % n, list(p), m, base, text)
    # a type of every notation used as the body of a request / response, declared before and after its use
    for k, (nm, decl) in enumerate([("any", ["TYPE @zop any"]), ("empty", ["TYPE @zop empty"]), ("regex", ["TYPE @zop regex", "  /a+/"]),
                                    ("jsight", ["TYPE @zop", "{", '  "a": 1', "}"]), ("alias", ["TYPE @zop", "  @zop2", "TYPE @zop2 any"])]):
        for u, use in enumerate([["GET /zuse", "  200 @zop"], ["POST /zuse", "  Request @zop", "  200 any"], ["PUT /zuse", "  Request", "    Body @zop", "  200", "    Body @zop"],
                                 ["GET /zuse", "  200 [@zop]"]]):
            a = "JSIGHT 0.3\n" + "\n".join(decl + use) + "\n"
            b = "JSIGHT 0.3\n" + "\n".join(use + decl) + "\n"
            cases.append(rel.case("ob%d_%d" % (k, u), a))
            cases.append(rel.case("op%d_%d" % (k, u), b))
            meta["op%d_%d" % (k, u)] = ("ob%d_%d" % (k, u), [1, 0], {"doc": [{"t": "raw"}]}, a, b)
    ok1 = "GET /zk1\n  200 any\n"
    ok2 = "POST /zk2\n  Request any\n  201 any\n"
    okrpc = "URL /zkr\n  Protocol json-rpc-2.0\n  Method zm\n    Result\n    {}\n"
    kernels = {
        "request_headers_not_object": ["TYPE @zlist\n[\n  1\n]\n", ok1, "PUT /zk3\n  Request\n    Headers\n      @zlist\n    Body any\n  200 any\n", okrpc],
        "response_headers_not_object": ["TYPE @zlist\n[\n  1\n]\n", ok1, ok2, "GET /zk3\n  200\n    Headers\n      @zlist\n    Body any\n"],
        "response_headers_scalar": [ok1, "TYPE @zs\n  \"str\"\n", "GET /zk3\n  200\n    Headers\n      @zs\n    Body any\n", okrpc],
        "response_without_body": [ok1, ok2, "GET /zk3\n  200\n    Headers\n    {\n      \"h\": 1\n    }\n"],
        "undefined_type_in_late_method": [ok1, ok2, "GET /zk3\n  200 @znosuch\n", "TYPE @zused any\n"],
        "path_property_unused": [ok1, "GET /zk3/{a}\n  Path\n  {\n    \"a\": 1,\n    \"b\": 2\n  }\n  200 any\n", ok2],
        "undeclared_tag": [ok1, "GET /zk3\n  Tags @znotag\n  200 any\n", ok2, "TAG @zother\n"],
        "parameter_described_twice_inline_and_by_type": ["TYPE @zfp\n{\n  \"id\": 1,\n  \"fid\": 2\n}\n", "URL /zc/{id}\n  Path\n  {\n    \"id\": 1\n  }\n  GET\n    200 any\n",
                                                         "GET /zc/{id}/friends/{fid}\n  Path\n    @zfp\n  200 any\n"],
        "parameter_described_twice_by_two_types": ["TYPE @zfp\n{\n  \"id\": 1,\n  \"fid\": 2\n}\nTYPE @zfq\n{\n  \"id\": \"s\"\n}\n", "URL /zc/{id}\n  Path\n    @zfq\n  GET\n    200 any\n",
                                                   "GET /zc/{id}/friends/{fid}\n  Path\n    @zfp\n  200 any\n", ok1],
        "rpc_params_undefined": [ok1, "URL /zkq\n  Protocol json-rpc-2.0\n  Method zq\n    Params\n      @znosuch\n    Result\n    {}\n", ok2],
    }
    kern = {}
    for kn, blocks in kernels.items():
        for j, p in enumerate(itertools.permutations(range(len(blocks)))):
            cid = "kn_%s_%d" % (kn, j)
            text = "JSIGHT 0.3\n" + "".join(blocks[i] for i in p)
            cases.append(rel.case(cid, text))
            kern[cid] = (kn, list(p), text)
    obs = harness("run", cases)
    for cid, (kn, p, text) in kern.items():
        o = obs[cid]
        chk.evaluations += 1
        chk.traces += 1
        chk.nontrivial.add(cid)
        if o["outcome"] == "ok":
            sig = {"what": "fault accepted in one order", "allof_depth": "0", "msg": kn}
            chk.violation("blocks with one fault (%s) in the order %s are accepted; in other orders they are rejected | document:\n%s" % (kn, p, text),
                          {"kind": "perm_faulty", "fault": {"f": kn}, "perm": p, "variant": text, "observed_variant": o, "signature": sig}, sig)
    for cid, (f, p, text) in faulty.items():
        o = obs[cid]
        chk.evaluations += 1
        chk.traces += 1
        chk.nontrivial.add(text)
        if o["outcome"] == "ok":
            sig = {"what": "clash accepted in one order", "allof_depth": "0", "msg": f["f"]}
            chk.violation("reordering top-level declarations %s: two clashing declarations (%s) are rejected in other orders but accepted in this one | document:\n%s" % (
                p, f["f"], text[:1200]), {"kind": "perm_faulty", "fault": f, "perm": p, "variant": text, "observed_variant": o, "signature": sig}, sig)
    chk.extra["clashing_documents_permuted"] = len(faulty)
    for cid, (bid, p, m, base, text) in meta.items():
        chk.evaluations += 1
        chk.traces += 1
        chk.nontrivial.add(json.dumps([m["doc"], p], sort_keys=True))
        bad = compare_perm(obs[bid], obs[cid], m["doc"], p)
        if bad:
            sig = {"what": "usedUserTypes-only" if "[only usedUserTypes differ]" in bad else bad.split(":")[0][:60],
                   "allof_depth": str(allof_depth(m["doc"])), "msg": (obs[cid].get("err") or {}).get("msg", "") + (obs[bid].get("err") or {}).get("msg", "")}
            chk.violation("reordering top-level declarations %s: %s | permuted document:\n%s" % (p, bad, text[:1200]),
                          {"kind": "perm", "doc": m["doc"], "perm": p, "base": base, "variant": text,
                           "observed_base": obs[bid], "observed_variant": obs[cid], "signature": sig}, sig)
    import fixrel
    fixrel.c10(chk, tier)
    import typegraph
    typegraph.run(chk, tier, "C10")
    import pathspec
    pathspec.run(chk, tier, "C10")
    if docs:
        chk.sample({"doc": docs[0]["doc"], "permutation": "reverse"})
    chk.rule = "pairs (document, permutation of its top-level blocks); distinct = distinct pairs; documents of >= 2 blocks"
    chk.assumptions += ["generated reference graphs are acyclic; both runs are real runs"]
    return chk.finish()


def replay(path):
    rp = json.load(open(path))["replay"]
    if rp.get("kind") in ("fxpair", "fxban"):
        import fixrel
        return fixrel.replay("C10", rp)
    if rp.get("kind") == "pathspec":
        import pathspec
        chk = Check("C10", "quick")
        pathspec.replay(chk, "C10", rp)
        return chk.finish()
    if rp.get("kind") == "typegraph":
        import typegraph
        chk = Check("C10", "quick")
        typegraph.replay(chk, "C10", rp)
        return chk.finish()
    chk = Check("C10", "quick")
    obs = harness("run", [rel.case("a", rp["base"]), rel.case("b", rp["variant"])])
    chk.evaluations = 1
    bad = compare_perm(obs["a"], obs["b"], rp["doc"], rp["perm"])
    if bad:
        chk.violation(bad, rp, rp.get("signature"))
    return chk.finish()
