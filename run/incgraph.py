"""Include graphs: projects enumerated by TLC from spec/JSightInclude.tla, replayed on the real code.

TLC explores the INCLUDE machine over a small file tree (main.jst, a.jst, sub/a.jst, sub/b.jst, a
directory `sub`, seven written names incl. a missing file, a directory, a forbidden name) with the
content of every file chosen when it is first read; in every reachable state it checks that the
machine (late cycle check, stat -> read -> push, pop at end of file) accepts exactly the projects
whose textual inlining exists and is duplicate-free, and emits the declarations in inlining order.
A sample of the terminal states is emitted with the prediction; each is written to disk and run
through the real library with the file-operation hook on.

gate "C08": verdict class (accepted / rejected) = Meaning; accepted => the order of the user types
            in the catalog = the inlining; every file operation stays inside the project; files the
            machine never reads are never read.
gate "C02": rejected for a reason whose place is fixed by the inlining (missing file, directory,
            forbidden name, JSIGHT in an included file that is not main.jst, duplicate declaration)
            => the diagnostic names that file and byte and the include trace is the chain of INCLUDE
            lines that leads there.
Reported as implementation conformance (never gates): the exact sequence of stat/read operations,
the kind of the diagnostic, place and trace for every kind (the place of a cycle diagnostic depends
on the late check)."""
import json

from common import b64, harness, seed, tlc, tlc_ok

FID = {"main.jst": "m", "a.jst": "a", "sub/a.jst": "sa", "sub/b.jst": "sb"}
ALL_FILES = ["main.jst", "a.jst", "sub/a.jst", "sub/b.jst"]


def render_file(f, items):
    """-> text, {item index (1-based): (byte offset of the keyword, line number)}"""
    out = ""
    pos = {}
    for i, it in enumerate(items, 1):
        pos[i] = (len(out), out.count("\n") + 1)
        if it["t"] == "d":
            out += "TYPE @%s%d any\n" % (FID[f], i)
        elif it["t"] == "j":
            out += "JSIGHT 0.3\n"
        else:
            # the written name is the parameter after unquoting (F-49): every second INCLUDE spells it in double quotes
            out += ("INCLUDE \"%s\"\n" if i % 2 == 0 else "INCLUDE %s\n") % it["w"]
    return out, pos


def kind_of(msg):
    for needle, k in (("recursion detected", "cycle"), ("isn't exists", "missing"), ("is a directory", "dir"),
                      ("mustn't include", "badname"), ("not allowed in included file", "jsight"),
                      ("duplicate names", "dup"), ("should be the first directive", "nojsight")):
        if needle in msg:
            return k
    return "other:" + msg[:60]


def type_order(js):
    try:
        d = json.loads(js)
    except ValueError:
        return None
    return list((d.get("userTypes") or {}).keys())


def materialise(m):
    files, pos = {}, {}
    for f in ALL_FILES:
        if f in m["content"]:
            files[f], pos[f] = render_file(f, m["content"][f])
        else:
            files[f] = "TYPE @never_read_%s any\n" % FID[f]      # canary: the machine never reads this file
    return files, pos


def chains_to(m, pos, target):
    """every chain of INCLUDE lines (innermost first) through which `target` is reached when the project is read in
    order, as the library would print it"""
    content = m["content"]
    res = []

    def visit(f, chain, depth):
        if f == target:
            res.append(chain)
        if depth > 5 or f not in content:
            return
        for i, it in enumerate(content[f], 1):
            if it["t"] != "inc" or it["w"] == "../main.jst":
                continue
            w = it["w"].replace("//", "/")
            p = w if "/" not in f else f.rsplit("/", 1)[0] + "/" + w
            if p in content:
                visit(p, [[f, str(pos[f][i][1])]] + chain, depth + 1)
    visit("main.jst", [], 0)
    return res


def new_stats():
    return {"agree": {"ops": 0, "kind": 0, "place": 0, "trace": 0}, "rejected": 0, "accepted": 0, "kinds": {}}


def judge(chk, gate, m, files, pos, o, case, stats):
    chk.evaluations += 1
    chk.traces += 1
    chk.nontrivial.add(json.dumps(m["content"], sort_keys=True))
    if o["outcome"] not in ("ok", "error"):
        return            # crash or deadline: C01's business, no verdict here
    st = m["status"]
    stats["kinds"][st["k"]] = stats["kinds"].get(st["k"], 0) + 1
    real_ops = [list(x) for x in o.get("fileops") or []]
    want_ops = [list(x) for x in m["ops"]]
    stats["agree"]["ops"] += real_ops == want_ops
    shown = "\n".join("--- %s\n%s" % (f, files[f]) for f in ALL_FILES if f in m["content"])
    replay = {"kind": "include_graph", "case": case, "model": m, "observed": o}

    def bad(what, detail, sig):
        sig = dict(sig, driver="include_graph")
        replay["signature"] = sig
        chk.violation("include graph: %s: %s | project:\n%s" % (what, detail, shown[:700]), replay, sig)

    # place and trace predicted by the machine
    want_site = want_trace = None
    if st["k"] not in ("ok", "run"):
        want_site = (st["f"], pos[st["f"]][st["i"]][0])
        # innermost first, as the library prints it
        want_trace = [[e["f"], str(pos[e["f"]][e["i"]][1])] for e in reversed(st["trace"])]
    if o["outcome"] == "error":
        stats["rejected"] += 1
        e = o["err"]
        rk = kind_of(e["msg"])
        stats["agree"]["kind"] += rk == st["k"]
        site_ok = want_site is not None and (e["file"], e["index"]) == want_site
        trace_ok = want_trace is not None and [list(x) for x in e.get("trace") or []] == want_trace
        stats["agree"]["place"] += site_ok
        stats["agree"]["trace"] += trace_ok
    else:
        stats["accepted"] += 1
    if gate == "C08":
        if (o["outcome"] == "ok") != m["meaning"]["ok"]:
            bad("verdict", "inlining %s, real run %s (%s)" % ("exists" if m["meaning"]["ok"] else "does not exist or repeats a declaration",
                                                             o["outcome"], (o.get("err") or {}).get("msg", "")),
                {"what": "verdict", "model_kind": st["k"]})
            return
        if o["outcome"] == "ok":
            want = ["@%s%d" % (FID[f], i) for f, i in m["meaning"]["seq"]]
            got = type_order(o.get("json") or "")
            if got != want:
                bad("order", "user types %s, inlining gives %s" % (got, want), {"what": "order"})
        for op, p in real_ops:
            if p.startswith("..") or p.startswith("/"):
                bad("confinement", "%s of %r leaves the project directory" % (op, p), {"what": "confinement"})
                break
        never = [f for f in ALL_FILES if f not in m["content"]]
        touched = [p for op, p in real_ops if op == "read" and p in never]
        if touched:
            bad("reads", "files %s are read although no executed INCLUDE names them" % touched, {"what": "extra-read"})
    elif gate == "C02" and o["outcome"] == "error":
        fixed_place = st["k"] in ("missing", "dir", "badname", "dup", "nojsight") or (st["k"] == "jsight" and st["f"] != "main.jst")
        if not fixed_place or rk != st["k"]:
            return
        e = o["err"]
        if (e["file"], e["index"]) != want_site:
            bad("place", "%s diagnostic at %s byte %d, the offending text is at %s byte %d" % (
                rk, e["file"], e["index"], want_site[0], want_site[1]), {"what": "place", "kind": rk})
            return
        got_trace = [list(x) for x in e.get("trace") or []]
        if e["line"] != pos[st["f"]][st["i"]][1]:
            bad("line", "line %s, the offending text is at %s:%d" % (
                e["line"], st["f"], pos[st["f"]][st["i"]][1]), {"what": "line", "kind": rk})
        elif got_trace != want_trace:
            # the same file included from two places: is the reported line an EARLIER include of that file?
            detail = "other"
            # finding F-07: the tracer is cached per including file P, so a directive read while P is suspended gets the chain
            # that was current when the FIRST such directive was read: some INCLUDE line of P, then some chain that leads to P
            if got_trace and want_trace and got_trace[0][0] == want_trace[0][0]:
                P = got_trace[0][0]
                inc_lines = {str(pos[P][i][1]) for i, it in enumerate(m["content"].get(P, []), 1) if it["t"] == "inc"}
                if got_trace[0][1] in inc_lines and got_trace[1:] in chains_to(m, pos, P):
                    detail = "line-of-an-earlier-include"
            bad("trace", "include trace %s, the chain of INCLUDE lines is %s" % (got_trace, want_trace),
                {"what": "trace", "detail": detail, "kind": rk})


def run(chk, tier, gate):
    thorough = tier == "thorough"
    sd = seed()
    mod = 25 if thorough else 40
    consts = {"MaxItems": "2", "MaxMain": "2" if thorough else "1", "SampleMod": str(mod), "SamplePick": str(sd % mod)}
    r = tlc_ok(tlc("JSightInclude", "Include.cfg", consts=consts, timeout=3000, workers=8), "JSightInclude")
    chk.add_tlc(r)
    chk.extra["include_graph_states"] = r.states
    cases, meta = [], {}
    for k, m in enumerate(r.mbt):
        files, pos = materialise(m)
        cid = "ig%d" % k
        cases.append({"id": cid, "files": {f: b64(t.encode()) for f, t in files.items()}, "dirs": ["sub"], "root": "main.jst"})
        meta[cid] = (m, files, pos)
    obs = harness("run", cases)
    stats = new_stats()
    for cid, (m, files, pos) in meta.items():
        judge(chk, gate, m, files, pos, obs[cid], cases[int(cid[2:])], stats)
    agree, rejected, accepted, kinds = stats["agree"], stats["rejected"], stats["accepted"], stats["kinds"]
    chk.extra["include_graphs"] = {"projects": len(meta), "accepted": accepted, "rejected": rejected, "model_kinds": kinds,
                                   "impl_conformance": dict(agree, of_rejected=rejected, of_all=len(meta))}
    if meta:
        m0 = next(iter(meta.values()))[0]
        chk.sample({"include_graph": m0["content"], "predicted": m0["status"]["k"], "ops": m0["ops"]})


def replay(chk, rp, gate):
    """re-runs one stored project and judges it again with the stored prediction"""
    m = rp["model"]
    files, pos = materialise(m)
    o = harness("run", [rp["case"]])[rp["case"]["id"]]
    judge(chk, gate, m, files, pos, o, rp["case"], new_stats())
