"""C18 Banned directives are really banned, and the option changes nothing else.

TLC (JSightApi!Tx) chooses, per generated valid document, a set of banned kinds (every
singleton over the 30 kinds is reached across the run, plus pairs and larger sets) and
computes which kinds the document uses.  R: the document is run with and without the
option.  If a banned kind occurs (directly, through PASTE, in an included file, or INCLUDE /
MACRO / PASTE themselves) the run must be rejected with a 'not allowed' diagnostic located at
a directive of a banned kind and no file named by a banned INCLUDE may be read; otherwise
the result must equal the result without the option (two real runs)."""
import json
import random

import apidoc
import c07
import c08
import rel
from common import Check, b64, harness, seed

KW = {"HTTP-response-code": None}


def kinds_at(spans, index):
    for label, b, depth in spans:
        if b == index:
            return "HTTP-response-code" if label.isdigit() else label
    return None


def main(tier):
    chk = Check("C18", tier)
    rnd = random.Random(seed())
    docs = rel.valid_docs(chk, tier, [(500, 3), (400, 6)], [(5000, 3), (5000, 6), (2000, 9)])
    cases, meta = [], {}
    singles = ["JSIGHT", "INFO", "Title", "Version", "Description", "SERVER", "BaseUrl", "URL", "GET", "POST", "PUT", "PATCH",
               "DELETE", "Body", "Request", "HTTP-response-code", "Path", "Headers", "Query", "TYPE", "ENUM", "MACRO", "PASTE",
               "INCLUDE", "Protocol", "Method", "Params", "Result", "TAG", "Tags"]
    for n, m in enumerate(docs):
        d = m["doc"]
        tx = m["tx"][0]
        # form of the document: plain, with a macro, or with an include (seeded)
        form = rnd.choice(["plain", "plain", "macro", "include"])
        files = {}
        blocks = d
        if form == "macro":
            vs = [v for v in c07.variants(d, tx, rnd) if v[0] in ("top", "nested", "url_children", "method_children", "unused")]
            if vs:
                vname, blocks = rnd.choice(vs)
                if vname == "unused":
                    form = "macro_unused"          # a MACRO is defined, nothing is pasted
            else:
                form = "plain"
        elif form == "include":
            nm, blocks, files = rnd.choice(c08.forms(d, tx, rnd)[:3])[:3]
        try:
            text, _, spans = apidoc.render(blocks)
        except Exception:
            continue
        used = set(tx["kinds"])
        if form == "macro":
            used |= {"MACRO", "PASTE"}
        if form == "macro_unused":
            used |= {"MACRO"}
        if form == "include":
            used |= {"INCLUDE"}
        bans = [sorted(tx["ban"]), [singles[(n + seed()) % 30]]]
        if n % 3 == 0:
            # every kind the project uses, banned alone
            bans += [[k] for k in sorted(used) if [k] not in bans and k != "JSIGHT"]
        # a kind that occurs under one host only (here: Description only inside TAG blocks) is handled by that host's code
        only_tag_desc = any(b["t"] == "tag" and b["desc"] for b in d) and not any(
            (b["t"] == "info" and b["desc"]) or (b["t"] == "method" and b["m"]["desc"]) or
            (b["t"] in ("url", "rpc") and any(mm["desc"] for mm in b["methods"])) for b in d)
        if only_tag_desc and form == "plain" and ["Description"] not in bans:
            bans.append(["Description"])
        if form == "macro_unused":
            bans.append(["PASTE"])             # banning what does not occur changes nothing, whatever else is defined
        ff = {"main.jst": b64(text)}
        ff.update({k: b64(v) for k, v in files.items()})
        cases.append({"id": "p%d" % n, "files": ff, "root": "main.jst"})
        for j, ban in enumerate(bans):
            banned = [("200" if k == "HTTP-response-code" else k) for k in ban]
            cid = "q%d_%d" % (n, j)
            cases.append({"id": cid, "files": ff, "root": "main.jst", "banned": banned})
            if len(banned) == 1:
                # a second option banning a kind the project does not use must not weaken the first one
                unused = [k for k in singles if k not in used and k != ban[0]]
                if unused:
                    other = unused[(n + j) % len(unused)]
                    sid = cid + "_plus"
                    cases.append({"id": sid, "files": ff, "root": "main.jst", "banned": ["200" if other == "HTTP-response-code" else other], "banned2": banned})
                    meta[sid] = ("p%d" % n, ban, used, form, text, files, spans, m)
            if len(banned) >= 2:
                # the same set given as two separate options, each kind once in the earlier option
                for e, one in enumerate(banned[:4]):
                    sid = cid + "_split%d" % e
                    cases.append({"id": sid, "files": ff, "root": "main.jst", "banned": [x for x in banned if x != one], "banned2": [one]})
                    meta[sid] = ("p%d" % n, ban, used, form, text, files, spans, m)
            meta[cid] = ("p%d" % n, ban, used, form, text, files, spans, m)
    # a banned INCLUDE is refused as such, whatever it names (missing file, directory, forbidden name, nothing):
    # the ban comes before any look at the file system
    badinc = {}
    targets = [("missing", "INCLUDE nosuchfile.jst"), ("directory", "INCLUDE adir"), ("forbidden_name", "INCLUDE ../x.jst"),
               ("no_name", "INCLUDE"), ("existing", "INCLUDE other.jst")]
    for n, m in enumerate(docs[:(400 if tier == "thorough" else 60)]):
        text = apidoc.render(m["doc"])[0]
        tn, line = targets[n % len(targets)]
        t2 = text + line + "\n"
        for j, banned in enumerate((["INCLUDE"], ["INCLUDE", "MACRO"])):
            cid = "bi%d_%d" % (n, j)
            c = {"id": cid, "files": {"main.jst": b64(t2), "other.jst": b64("TYPE @zother any\n")}, "dirs": ["adir"], "root": "main.jst",
                 "banned": banned[:1]}
            if len(banned) > 1:
                c["banned2"] = banned[1:]
            cases.append(c)
            badinc[cid] = (tn, t2, len(text.encode()))
    obs = harness("run", cases)
    for cid, (tn, t2, at) in badinc.items():
        b = obs[cid]
        chk.evaluations += 1
        chk.traces += 1
        chk.nontrivial.add("badinc" + tn + t2)
        bad = None
        sig = {"ban": "INCLUDE", "form": "include_" + tn}
        if b["outcome"] != "error":
            bad = "INCLUDE is banned and occurs, but the run was: %s" % rel.describe(b)
            sig["what"] = "not rejected"
        elif "not allowed" not in b["err"]["msg"]:
            bad = "INCLUDE is banned, rejected but not with a 'not allowed' diagnostic: %r" % b["err"]["msg"]
            sig["what"] = "other diagnostic"
        elif b["err"]["index"] != at:
            bad = "'not allowed' diagnostic at byte %d, the banned INCLUDE is at byte %d" % (b["err"]["index"], at)
            sig["what"] = "wrong location"
        elif any(op == "read" for op, _ in b.get("fileops") or []):
            bad = "INCLUDE is banned but a file was read: %s" % b["fileops"]
            sig["what"] = "file read"
        if bad:
            chk.violation("%s | banned INCLUDE naming %s | document ends:\n%s" % (bad, tn, t2[-300:]),
                          {"kind": "ban_include", "target": tn, "main": t2, "observed_banned": b, "signature": sig}, sig)
    hit = 0
    for cid, (pid, ban, used, form, text, files, spans, m) in meta.items():
        a, b = obs[pid], obs[cid]
        chk.evaluations += 1
        chk.traces += 1
        chk.nontrivial.add(json.dumps([sorted(ban), m["doc"], form], sort_keys=True))
        occurs = sorted(set(ban) & used)
        bad = None
        if a["outcome"] != "ok":
            # the macro/include form is not accepted even without the option (e.g. a path-bearing
            # method after a URL inside a parenthesised macro): nothing to judge
            chk.extra["forms_rejected_without_option"] = chk.extra.get("forms_rejected_without_option", 0) + 1
            continue
        sig = {"ban": ",".join(occurs) or "none", "form": form}
        if occurs:
            hit += 1
            if b["outcome"] != "error":
                bad = "banned kind(s) %s occur in the project, but the run was: %s" % (occurs, rel.describe(b))
                sig["what"] = "not rejected"
            else:
                e = b["err"]
                at = kinds_at(spans, e["index"]) if e["file"] == "main.jst" else "in-included-file"
                if "not allowed" not in e["msg"]:
                    bad = "banned kind(s) %s occur, rejected but not with a 'not allowed' diagnostic: %r" % (occurs, e["msg"])
                    sig["what"] = "other diagnostic"
                elif at != "in-included-file" and at not in ban:
                    bad = "'not allowed' diagnostic is located at a %s directive, banned are %s" % (at, ban)
                    sig["what"] = "wrong location"
                if "INCLUDE" in ban and any(op == "read" for op, _ in b.get("fileops") or []):
                    bad = "INCLUDE is banned but an included file was read: %s" % b["fileops"]
                    sig["what"] = "file read"
        else:
            if rel.result_key(a) != rel.result_key(b):
                bad = "no banned kind occurs (banned %s) but the result differs from the run without the option: %s vs %s" % (
                    ban, rel.describe(a), rel.describe(b))
                sig["what"] = "unrelated ban changed result"
        if bad:
            chk.violation("%s | form=%s | document:\n%s" % (bad, form, text[:1000]),
                          {"kind": "ban", "ban": ban, "form": form, "main": text, "files": files, "doc": m["doc"],
                           "observed_plain": a, "observed_banned": b, "signature": sig}, sig)
    chk.extra["cases_with_banned_kind_present"] = hit
    import fixrel
    fixrel.c18(chk, tier)
    if meta:
        x = next(iter(meta.values()))
        chk.sample({"banned": x[1], "kinds_used": sorted(x[2]), "form": x[3]})
    chk.rule = ("triples (valid document in plain / macro / include form, ban set chosen by JSightApi!Tx or the rotating "
                "singleton, presence of a banned kind as computed by JSightApi!KindsOf); distinct = distinct triples")
    chk.assumptions += ["KindsOf(doc) describes the canonical rendering (checked: every kind it names occurs as a directive "
                        "keyword span in the rendered text)"]
    return chk.finish()


def replay(path):
    rp = json.load(open(path))["replay"]
    if rp.get("kind") in ("fxpair", "fxban"):
        import fixrel
        return fixrel.replay("C18", rp)
    if rp.get("kind") == "ban_include":
        chk = Check("C18", "quick")
        chk.evaluations = 1
        b = harness("run", [{"id": "a", "files": {"main.jst": b64(rp["main"]), "other.jst": b64("TYPE @zother any\n")}, "dirs": ["adir"],
                             "root": "main.jst", "banned": ["INCLUDE"]}])["a"]
        if b["outcome"] != "error" or "not allowed" not in b["err"]["msg"]:
            chk.violation("reproduced: %s" % rel.describe(b), rp, rp.get("signature"))
        return chk.finish()
    chk = Check("C18", "quick")
    chk.evaluations = 1
    ff = {"main.jst": b64(rp["main"])}
    ff.update({k: b64(v) for k, v in rp["files"].items()})
    banned = [("200" if k == "HTTP-response-code" else k) for k in rp["ban"]]
    o = harness("run", [{"id": "a", "files": ff, "root": "main.jst", "banned": banned}])["a"]
    if rel.result_key(o) != rel.result_key(rp["observed_banned"]):
        print("observation changed since the replay was recorded: now %s" % rel.describe(o))
    else:
        chk.violation("reproduced: %s" % rel.describe(o), rp, rp.get("signature"))
    return chk.finish()
