#!/bin/sh
# runs every claimed check's quick tier with several seeds; prints one line per run
cd "$(dirname "$0")/.." || exit 2
SEEDS="${SEEDS:-1 2 3 4 5 6}"
TIER="${TIER:-quick}"
IDS="${IDS:-$(python3 -c "import json;print(' '.join(c['property_id'] for c in json.load(open('MANIFEST.json'))['checks']))")}"
for s in $SEEDS; do
  for p in $IDS; do
    out=$(VERIF_SEED=$s bin/check $p --tier $TIER 2>&1); rc=$?
    echo "seed=$s $p rc=$rc $(echo "$out" | grep "^$p " | tail -1)"
    if [ $rc -ne 0 ]; then echo "$out" | grep "violation class\|INCONCLUSIVE\|Traceback" | head -5; fi
  done
done
