"""Tables of the real pure text functions, judged by TLC (spec/JSightText.tla)."""
import itertools
import json

import common
from common import Inconclusive, b64, harness, tlc, tlc_ok, unb64

ENC = {"\n": "<LF>", "\r": "<CR>", "\t": "<TAB>", "\\": "<BS>", '"': "<Q>", "é": "<EACUTE>", "%": "<PCT>"}
DEC = {v: k for k, v in ENC.items()}


def enc(s):
    """python str/bytes -> list of table characters"""
    if isinstance(s, bytes):
        s = s.decode("utf-8", "surrogateescape")
    return [ENC.get(c, c) for c in s]


def dec(chars):
    return "".join(DEC.get(c, c) for c in chars)


def all_strings(alphabet, maxlen, minlen=0):
    for n in range(minlen, maxlen + 1):
        for t in itertools.product(alphabet, repeat=n):
            yield "".join(t)


def tla_set(chars):
    return "{" + ", ".join(json.dumps(ENC.get(c, c)) for c in chars) + "}"


def judge(chk, fn, alphabet, maxlen, rows, label):
    """rows: list of dicts (table rows). Runs TLC over the table; returns the reports."""
    nd = "\n".join(json.dumps(r) for r in rows) + "\n"
    r = tlc("JSightText", "Text.cfg", workers=1, files={"text_table.ndjson": nd}, timeout=3000,
            consts={"Fn": json.dumps(fn), "Alphabet": tla_set(alphabet), "MaxLen": str(maxlen)})
    tlc_ok(r, "JSightText " + fn)
    if r.states < len(rows):
        raise Inconclusive("JSightText consumed %d of %d rows" % (r.states, len(rows)))
    chk.add_tlc(r)
    chk.traces += len(rows)
    chk.evaluations += len(rows)
    chk.extra[label] = {"function": fn, "alphabet": "".join(ENC.get(c, c) for c in alphabet), "max_len": maxlen,
                        "rows": len(rows), "exhaustive": True}
    return r.mbt


def text_rows(fn, inputs, idx=None):
    cases = [{"id": str(i), "fn": fn, "b64": b64(s), "idx": (idx[i] if idx else 0)} for i, s in enumerate(inputs)]
    obs = harness("text", cases)
    return [obs[str(i)] for i in range(len(inputs))]


def check_incnames(chk, tier):
    alphabet = "./\\a"
    maxlen = 8 if tier == "thorough" else 6
    ins = list(all_strings(alphabet, maxlen, 1))
    out = text_rows("incname", ins)
    rows = [{"in": enc(s), "out": [], "err": bool(o.get("err")), "panic": bool(o.get("panic"))} for s, o in zip(ins, out)]
    for rep in judge(chk, "incname", alphabet, maxlen, rows, "incname"):
        s = ins[rep["row"] - 1] if rep["row"] else ""
        chk.violation("include file name %r: %s" % (s, rep["why"]),
                      {"kind": "incname", "name": s, "why": rep["why"]}, {"form": "incname", "what": rep["why"], "name": s})
    chk.nontrivial.update("incname:" + s for s in ins[:2000])
    chk.sample({"file_name_table": {"alphabet": "./\\a", "max_len": maxlen, "rows": len(rows)}})
