"""Helpers for the relational checks (two real runs compared, documents and transformation
parameters chosen by TLC through JSightApi!Tx)."""
import json

import apidoc
import c04
from common import b64, harness, seed


def valid_docs(chk, tier, plans_quick, plans_thorough, features=c04.ALL_FEATURES):
    sd = seed()
    # the share of Valid documents fell as the generator learnt more features: twice the walks in the quick tier
    plans = plans_thorough if tier == "thorough" else [(2 * n, mb) for n, mb in plans_quick]
    docs = []
    for i, (n, mb) in enumerate(plans):
        got = c04.gen_docs(chk, n, mb, sd * 100 + i + 7, features=features, workers=8 if tier == "thorough" else 4)
        docs += [m for m in got if m["valid"]]
    return docs


def case(cid, text, **kw):
    c = {"id": cid, "files": {"main.jst": b64(text)}, "root": "main.jst"}
    c.update(kw)
    return c


def result_key(o):
    """what 'the same result' means between two real runs: verdict and JSON bytes"""
    if o["outcome"] == "ok":
        return ("ok", o["json"])
    if o["outcome"] == "error":
        return ("error",)
    return (o["outcome"], o.get("panic", ""))


def describe(o):
    if o["outcome"] == "ok":
        return "accepted"
    if o["outcome"] == "error":
        e = o["err"]
        return "rejected: %r at %s:%s" % (e["msg"], e["file"], e["line"])
    return "%s: %s" % (o["outcome"], o.get("panic", ""))


def json_diff(a_text, b_text, unordered=False):
    a, b = json.loads(a_text), json.loads(b_text)
    if a == b:
        return None
    return apidoc.first_diff(a, b, "json")


def strip_examples(js):
    """catalog JSON with every "example" member removed (None if it does not parse)"""
    def rec(x):
        if isinstance(x, dict):
            return {k: rec(v) for k, v in x.items() if k != "example"}
        if isinstance(x, list):
            return [rec(v) for v in x]
        return x
    try:
        return rec(json.loads(js))
    except ValueError:
        return None
