"""C02 Every diagnostic is well located: file, byte index, line, quote, include trace.

(1) jerr location arithmetic on every content over {a sp LF CR} (one newline convention per
    content) up to the bound and every index 0..len: TLC judges the implementation's table
    (line = 1 + terminators before the index, quote = that line) - JSightText!LocationJudge.
(2) Every rejected run of the drivers (fixtures, TLC-generated multi-fault documents, fault
    injections): index within the file the error names; line and quote judged by TLC on the
    real (content, index) pairs.
(3) Faults injected into included files of TLC-chosen multi-file forms (one include, nested
    directories, two includes from one place, one file from two places): the diagnostic names
    the file with the fault, and every path:line of the include trace really holds the
    INCLUDE that leads to the previous entry.
Span containment ('inside the directive at fault') is decided by C11 on injected faults."""
import json
import os
import posixpath
import random

import apidoc
import c04
import c08
import c11
import fixtures
import incgraph
import rel
import textfn
from common import Check, b64, harness, seed, tlc, tlc_ok, unb64


def single_convention(s):
    if "\r" not in s or "\n" not in s:
        return True
    # CRLF only: every CR followed by LF and every LF preceded by CR
    i = 0
    while i < len(s):
        if s[i] == "\r":
            if i + 1 >= len(s) or s[i + 1] != "\n":
                return False
            i += 2
            continue
        if s[i] == "\n":
            return False
        i += 1
    return True


def location_rows(pairs):
    """pairs: (content str, idx) -> table rows through the real NewJApiError"""
    obs = textfn.text_rows("location", [c for c, _ in pairs], idx=[i for _, i in pairs])
    rows = []
    for (c, i), o in zip(pairs, obs):
        rows.append({"in": textfn.enc(c), "idx": i, "line": o.get("line", 0),
                     "out": textfn.enc(unb64(o.get("quote", "")).decode("utf-8", "surrogateescape")) if o.get("quote") else [],
                     "err": False, "panic": bool(o.get("panic"))})
    return rows


def check_trace(err, files, root="main.jst"):
    """include trace against the files themselves; returns a problem or None"""
    prev = err["file"]
    if err["file"] in files and err["file"] != root and not err.get("trace"):
        return "[no-trace] the diagnostic is in the included file %s but carries no include chain" % err["file"]
    for k, (p, n) in enumerate(err.get("trace") or []):
        if p not in files:
            return "trace entry %d names %r which is not a file of the project" % (k, p)
        lines = files[p].replace("\r\n", "\n").replace("\r", "\n").split("\n")
        n = int(n)
        if not (1 <= n <= len(lines)):
            return "trace entry %s:%d: the file has %d lines" % (p, n, len(lines))
        ln = lines[n - 1].strip()
        if not ln.startswith("INCLUDE"):
            return "trace entry %s:%d is not an INCLUDE line: %r" % (p, n, ln)
        target = ln.split(None, 1)[1].split()[0] if len(ln.split(None, 1)) > 1 else ""
        resolved = posixpath.normpath(posixpath.join(posixpath.dirname(p), target))
        if resolved != prev:
            # is there another INCLUDE line in the same file that does lead to the previous entry?
            right = [k2 + 1 for k2, l2 in enumerate(lines) if l2.strip().startswith("INCLUDE") and len(l2.split()) > 1 and
                     posixpath.normpath(posixpath.join(posixpath.dirname(p), l2.split()[1])) == prev]
            kind = "line-of-an-earlier-include" if right and min(right) > n else "other"
            return "[%s] trace entry %s:%d includes %r, not the previous entry %r" % (kind, p, n, resolved, prev)
        prev = p
    return None


FAULT_BLOCK = {"t": "type", "name": "@zfault", "annot": "", "body": {"k": "obj", "n": "", "props": [{"key": "r", "vk": "ref", "vn": "@nonexistent"}], "allOf": []}}


def _rawf(label, *lines):
    return {"t": "raw", "label": label, "lines": list(lines)}


# faults raised by different parts of the library (schema error at an index of the body, body-level error, keyword-level
# error at the compile, build and final-check stages, scan-stage error), each appended to an included file
FAULT_BLOCKS = [
    [FAULT_BLOCK],
    [_rawf("TYPE", "TYPE @zscalar", "1"), _rawf("GET", "GET /zfault1", "  200 any", "    Headers", "      @zscalar")],          # body must be object
    [_rawf("GET", "POST /zfault2", "  Request any", "    Headers", "      @zscalar2", "  200 any"), _rawf("TYPE", "TYPE @zscalar2", "[1]")],
    [_rawf("GET", "GET /zfault3", "  Description", "  ( text on the parenthesis line", "  )", "  200 any")],
    [_rawf("GET", "GET /zfault4", "  201", "    Headers", "    {", '      "h": "v"', "    }")],                                 # response without a body
    [_rawf("TYPE", "TYPE @zdup any"), _rawf("TYPE", "TYPE @zdup any")],                                                       # duplicate name
    [_rawf("GET", "GET /zfault6", "  Tags @zundeclared", "  200 any")],
    [_rawf("TYPE", "TYPE @zre regex", "/(unclosed/")],
    [_rawf("GET", "GET /zfault8", "  Path", "  {", '    "nosegment": 1', "  }", "  200 any")],
    [_rawf("ENUM", "ENUM @zen", "[", "  1,", "  1", "]")],
    [_rawf("GET", "GET /zfault10", "  200 any", "  Bogus")],                                                                   # scan stage
]


def main(tier):
    chk = Check("C02", tier)
    thorough = tier == "thorough"
    rnd = random.Random(seed())
    # (1) location table
    maxlen = 7 if thorough else 5
    pairs = [(c, i) for c in textfn.all_strings(["a", " ", "\n", "\r"], maxlen) if single_convention(c) for i in range(0, len(c) + 1)]
    rows = location_rows(pairs)
    for rep in textfn.judge(chk, "location", ["a", " ", "\n", "\r"], maxlen, rows, "location_table"):
        c, i = pairs[rep["row"] - 1]
        r = rows[rep["row"] - 1]
        sig = {"level": "function", "what": rep["why"], "empty": str(c == "")}
        chk.violation("location of index %d in %r: %s (line %s, quote %r)" % (i, c, rep["why"], r["line"], textfn.dec(r["out"])),
                      {"kind": "location_fn", "content": c, "index": i, "signature": sig}, sig)
    chk.nontrivial.update("loc:%r:%d" % p for p in pairs[:3000])
    # (2) rejected runs of the drivers
    cases, files_of = [], {}
    fx = fixtures.fixture_files()
    if not thorough:
        fx = [f for f in fx if "err" in os.path.basename(f)] + rnd.sample(fx, 60)
    for n, f in enumerate(fx):
        data = open(f, "rb").read()
        if b"INCLUDE" in data:
            continue
        name = os.path.basename(f)
        cases.append({"id": "fx%d" % n, "files": {name: b64(data)}, "root": name})
        files_of["fx%d" % n] = {name: data.decode("utf-8", "surrogateescape")}
    docs = c04.gen_docs(chk, 4000 if thorough else 500, 6, seed() * 100 + 33, workers=8 if thorough else 4)
    for n, m in enumerate(docs):
        if m["valid"]:
            continue
        try:
            t = apidoc.render(m["doc"], apidoc.Style(nl=rnd.choice(["\n", "\r\n", "\r"])))[0]
        except Exception:
            continue
        cases.append(rel.case("g%d" % n, t))
        files_of["g%d" % n] = {"main.jst": t}
    # (3) faults inside included files
    valid = [m for m in docs if m["valid"]]
    for n, m in enumerate(valid[:(600 if thorough else 120)]):
        d = m["doc"]
        forms = [f for f in c08.forms(d, m["tx"][0], rnd) if len(f) == 3]     # not the macro forms: a fault after a PASTE may belong to the macro
        flat, multi, tf = c08.twice_form(d)
        forms.append(("same_file_twice", multi, tf))
        for nm, main_blocks, files in forms:
            if not files:
                continue
            target = rnd.choice(sorted(files))
            ff = dict(files)
            ff[target] = ff[target].replace("\r\n", "\n").replace("\r", "\n") + apidoc.render(FAULT_BLOCKS[(n + len(cases)) % len(FAULT_BLOCKS)], header=False)[0]
            main_text = apidoc.render(main_blocks)[0]
            # every file of the project in its own newline convention
            conv = {k: rnd.choice(["\n", "\n", "\r\n", "\r"]) for k in list(ff) + ["main.jst"]}
            # (a file that the form already wrote with its own line ends is first brought back to LF: one convention per file)
            ff = {k: v.replace("\r\n", "\n").replace("\r", "\n").replace("\n", conv[k]) for k, v in ff.items()}
            main_text = main_text.replace("\n", conv["main.jst"])
            cid = "i%d_%s" % (n, nm)
            allf = {"main.jst": main_text}
            allf.update(ff)
            cases.append({"id": cid, "files": {k: b64(v) for k, v in allf.items()}, "root": "main.jst"})
            files_of[cid] = allf
            files_of[cid + "#target"] = target
    # MACRO and PASTE in different files, the fault inside the macro body and found only after the expansion: wherever the
    # diagnostic is located, its chain is the chain of INCLUDE lines that leads to THAT file
    mfaults = [("undefined_type", ["  GET /zmac", "    200 @zundefinedtype"]), ("undefined_tag", ["  GET /zmac", "    Tags @zundefinedtag", "    200 any"]),
               ("undefined_in_query", ["  GET /zmac", "    Query", "      @zundefinedq", "    200 any"]),
               ("duplicate_method", ["  GET /zdup", "    200 any", "  GET /zdup", "    200 any"])]
    for fk, (fname, body) in enumerate(mfaults):
        mac = "MACRO @zm\n(\n" + "\n".join(body) + "\n)\n"
        forms = {
            "macro_in_included_file": {"main.jst": "JSIGHT 0.3\nTYPE @za any\n\nINCLUDE a.jst\nGET /zb\n  200 any\nPASTE @zm\n", "a.jst": "TYPE @zc any\n\n" + mac},
            "macro_and_paste_in_different_branches": {"main.jst": "JSIGHT 0.3\n\nINCLUDE a.jst\nTYPE @za any\n\nINCLUDE mid.jst\n",
                                                      "a.jst": "\nTYPE @zc any\n" + mac, "mid.jst": "TYPE @zd any\n\n\nINCLUDE sub/b.jst\n",
                                                      "sub/b.jst": "TYPE @ze any\nPASTE @zm\n"},
            "macro_in_root_paste_in_included_file": {"main.jst": "JSIGHT 0.3\n" + mac + "TYPE @za any\nINCLUDE mid.jst\n",
                                                     "mid.jst": "TYPE @zd any\nINCLUDE sub/b.jst\n", "sub/b.jst": "\n\nPASTE @zm\n"},
            "macro_deeper_than_paste": {"main.jst": "JSIGHT 0.3\nINCLUDE mid.jst\n\n\nPASTE @zm\n", "mid.jst": "TYPE @zd any\nINCLUDE sub/b.jst\n",
                                        "sub/b.jst": "TYPE @ze any\n" + mac},
        }
        for fnm, ff in forms.items():
            for ck, nl in enumerate(["\n", "\r\n", "\r"]):
                if not thorough and (fk + ck) % 3:
                    continue
                cid = "m%d_%s_%d" % (fk, fnm, ck)
                allf = {k: v.replace("\n", nl) for k, v in ff.items()}
                cases.append({"id": cid, "files": {k: b64(v) for k, v in allf.items()}, "root": "main.jst"})
                files_of[cid] = allf
    # faults deep inside lines of more than 200 bytes (one-line bodies), at the head, in the middle and near the end of
    # the line, with more text after the line
    for ln, (total, at) in enumerate([(150, 120), (205, 10), (205, 199), (260, 130), (260, 250), (400, 205), (400, 330), (400, 392), (700, 650)]):
        for fk, bad in enumerate(['?', '@zznosuchtype']):
            props, k = [], 0
            while len(", ".join(props)) < at - 4:
                k += 1
                props.append('"k%d": %d' % (k, k))
            head = ", ".join(props)
            tail = []
            while len(head) + len(bad) + len(", ".join(tail)) + 20 < total:
                k += 1
                tail.append('"t%d": %d' % (k, k))
            line = "  {" + head + ', "bad": ' + bad + (", " + ", ".join(tail) if tail else "") + "}"
            for nl in ("\n", "\r\n"):
                text = ("JSIGHT 0.3\nTYPE @zlong\n" + line + "\nTYPE @zafter any // the line after the long one\nGET /zx\n  200 @zlong\n").replace("\n", nl)
                cid = "l%d_%d_%s" % (ln, fk, "lf" if nl == "\n" else "crlf")
                cases.append({"id": cid, "files": {"main.jst": b64(text)}, "root": "main.jst"})
                files_of[cid] = {"main.jst": text}
    # faults whose directive is known: the diagnostic lies in the line(s) of THAT directive (marker "<<" in the texts below)
    sited = {
        "url_tags_after_method": {"main.jst": "JSIGHT 0.3\nURL /zl\n  GET\n  (\n    200 any\n  )\n  Tags @zundeclared<<\n"},
        "url_tags_after_two_methods": {"main.jst": "JSIGHT 0.3\nTAG @zok\nURL /zl\n  GET\n  (\n    Tags @zok\n    200 any\n  )\n  POST\n  (\n    200 any\n  )\n  Tags @zok @zundeclared<<\n"},
        "method_tags_second_of_three": {"main.jst": "JSIGHT 0.3\nTAG @za\nTAG @zc\nGET /zl\n  Tags @za @zundeclared @zc<<\n  200 any\n"},
        "rpc_method_tags": {"main.jst": "JSIGHT 0.3\nURL /zr\n  Protocol json-rpc-2.0\n  Method zm\n    Tags @zundeclared<<\n    Result\n    {}\n"},
        "tags_after_included_method": {"main.jst": "JSIGHT 0.3\nURL /zl\nINCLUDE methods.jst\nPOST /zother\n  Tags @zundeclared<<\n  200 any\n", "methods.jst": "  GET\n    200 any\n"},
        "url_tags_before_included_methods": {"main.jst": "JSIGHT 0.3\nURL /zl\n  Tags @zundeclared<<\nINCLUDE methods.jst\n", "methods.jst": "  GET\n    200 any\n"},
        "tags_in_included_file": {"main.jst": "JSIGHT 0.3\nGET /zfirst\n  200 any\nINCLUDE sub/m.jst\n", "sub/m.jst": "PUT /zl\n  Tags @zundeclared<<\n  200 any\n"},
    }
    sites = {}
    for nm, ff in sited.items():
        clean, site = {}, None
        for f, t in ff.items():
            if "<<" in t:
                k = t.index("<<")
                ls = t.rfind("\n", 0, k) + 1
                site = (f, ls, k)
            clean[f] = t.replace("<<", "")
        cid = "s_" + nm
        cases.append({"id": cid, "files": {k: b64(v) for k, v in clean.items()}, "root": "main.jst"})
        files_of[cid] = clean
        sites[cid] = site
    # an INCLUDE of a file that exists but cannot be read, in the root file and in an included file: the diagnostic is at
    # that INCLUDE and its chain is the chain of the file the INCLUDE stands in
    unread = {
        "unreadable_from_root": ({"main.jst": "JSIGHT 0.3\nTYPE @za any\nINCLUDE bad.jst\nTYPE @zb any\n", "bad.jst": "TYPE @zc any\n"}, ["bad.jst"]),
        "unreadable_from_included": ({"main.jst": "JSIGHT 0.3\nTYPE @za any\n\n\nINCLUDE a.jst\n", "a.jst": "TYPE @zd any\n\nINCLUDE sub/bad.jst\n",
                                      "sub/bad.jst": "TYPE @zc any\n"}, ["sub/bad.jst"]),
        "unreadable_second_include": ({"main.jst": "JSIGHT 0.3\nINCLUDE ok.jst\nINCLUDE a.jst\n", "ok.jst": "TYPE @ze any\n", "a.jst": "INCLUDE ok2.jst\nINCLUDE bad.jst\n",
                                       "ok2.jst": "TYPE @zf any\n", "bad.jst": "TYPE @zc any\n"}, ["bad.jst"]),
    }
    for nm, (ff, noread) in unread.items():
        cid = "u_" + nm
        cases.append({"id": cid, "files": {k: b64(v) for k, v in ff.items()}, "root": "main.jst", "noread": noread})
        files_of[cid] = ff
    obs = harness("run", cases)
    loc_pairs, loc_src = [], []
    for c in cases:
        cid = c["id"]
        o = obs[cid]
        chk.evaluations += 1
        if o["outcome"] != "error":
            continue
        e = o["err"]
        chk.traces += 1
        chk.nontrivial.add(cid)
        fs = files_of[cid]
        bad = None
        sig = {"level": "run", "driver": cid[0], "what": ""}
        if e["file"] not in fs:
            bad = "diagnostic names file %r which is not part of the project" % e["file"]
            sig["what"] = "unknown file"
        else:
            content = fs[e["file"]]
            blen = len(content.encode("utf-8", "surrogateescape"))
            if not (0 <= e["index"] <= blen):
                bad = "index %d is outside the file %s (%d bytes)" % (e["index"], e["file"], blen)
                sig["what"] = "index outside file"
            elif content.isascii() and single_convention(content) and len(content) <= 1200:
                loc_pairs.append((content, e["index"]))
                loc_src.append((cid, e))
        if not bad:
            tr = check_trace(e, fs, c.get("root", "main.jst"))
            if tr:
                bad = "include trace is wrong: " + tr
                sig["what"] = "trace"
                sig["detail"] = tr[1:tr.index("]")] if tr.startswith("[") else ""
                sig["form"] = cid.split("_", 1)[1] if "_" in cid else ""
        if not bad and cid in sites:
            f, lo, hi = sites[cid]
            if e["file"] != f or not (lo <= e["index"] <= hi):
                bad = "the directive at fault stands in %s bytes %d..%d, the diagnostic is at %s byte %d (line %d, quote %r)" % (f, lo, hi, e["file"], e["index"], e["line"], e["quote"])
                sig["what"] = "outside the directive at fault"
        if not bad and cid.startswith("i"):
            tgt = files_of[cid + "#target"]
            if e["file"] != tgt:
                bad = "fault injected into %s but the diagnostic names %s" % (tgt, e["file"])
                sig["what"] = "wrong file"
            elif not e.get("trace"):
                bad = "fault in included file %s but the diagnostic carries no include trace" % tgt
                sig["what"] = "no trace"
        if bad:
            chk.violation("%s | %r at %s:%d | files: %s" % (bad, e["msg"], e["file"], e["line"], json.dumps({k: v[-300:] for k, v in fs.items()})[:1500]),
                          {"kind": "located_run", "case": c, "observed": o, "signature": sig}, sig)
    # line / quote of the real diagnostics, judged by TLC
    if loc_pairs:
        if not thorough and len(loc_pairs) > 250:
            keep = [i for i, (cid, e) in enumerate(loc_src) if cid.startswith(("l", "u_", "m"))]      # the hand-made families always
            idx = keep + rnd.sample([i for i in range(len(loc_pairs)) if i not in set(keep)], max(0, 250 - len(keep)))
            loc_pairs = [loc_pairs[i] for i in idx]
            loc_src = [loc_src[i] for i in idx]
        rows = []
        for (content, i), (cid, e) in zip(loc_pairs, loc_src):
            rows.append({"in": textfn.enc(content), "idx": i, "line": e["line"], "out": textfn.enc(e["quote"]), "err": False, "panic": False})
        alpha = sorted(set(ch for c, _ in loc_pairs for ch in c))
        for rep in textfn.judge(chk, "location", alpha, 10 ** 6, rows, "real_diagnostics_judged"):
            cid, e = loc_src[rep["row"] - 1]
            sig = {"level": "run", "driver": cid[0], "what": rep["why"]}
            chk.violation("diagnostic of run %s: %s does not agree with index %d (line %d, quote %r)" % (cid, rep["why"], e["index"], e["line"], e["quote"]),
                          {"kind": "located_run", "case": next(c for c in cases if c["id"] == cid), "signature": sig}, sig)
    chk.sample({"location_table": {"alphabet": "a sp LF CR", "max_len": maxlen, "rows": len(pairs)}})
    # faults of a Path directive (C13's faulty variants) with a second, correct Path directive after it: the
    # diagnostic lies inside the Path directive at fault
    import c13
    pdocs = c04.gen_docs(chk, 6000 if thorough else 700, 4, seed() * 100 + 23, features=c13.FEATS, workers=8 if thorough else 4)
    pcases, pmeta = [], {}
    for n, m in enumerate(pdocs):
        if not m["valid"] or n % (1 if thorough else 3):
            continue
        for nm, text, lo, hi in c13.located_variants(m["doc"]):
            cid = "pv%d_%s" % (n, nm)
            pcases.append(rel.case(cid, text))
            pmeta[cid] = (nm, text, lo, hi)
    pobs = harness("run", pcases)
    for cid, (nm, text, lo, hi) in pmeta.items():
        o = pobs[cid]
        chk.evaluations += 1
        chk.traces += 1
        chk.nontrivial.add(nm + text)
        if o["outcome"] != "error":
            continue                    # acceptance of a faulty variant is C13's subject
        e = o["err"]
        if e["file"] != "main.jst" or not (lo <= e["index"] <= hi):
            sig = {"what": "outside-directive", "variant": nm}
            chk.violation("fault %s of a Path directive at bytes %d..%d, but the diagnostic %r is at %s byte %d (line %d) | document:\n%s" % (
                nm, lo, hi, e["msg"], e["file"], e["index"], e["line"], text[:1500]),
                {"kind": "path_fault", "variant": nm, "file": text, "span": [lo, hi], "observed": o, "signature": sig}, sig)
    chk.extra["path_directive_faults"] = len(pmeta)
    # an undefined type named inside one of two types that refer to each other: whichever type is being compiled when
    # the schema library notices it, the diagnostic names the line of the reference
    mcases = []
    for k in range(12 if thorough else 6):
        pad = "# pad\n" * k
        for first in ("a", "b"):
            ta = 'TYPE @a\n{\n  "x": @nope1,\n  "y": @b\n}\n'
            tb = 'TYPE @b\n{\n  "a": @a // {optional: true}\n}\n'
            text = "JSIGHT 0.3\n" + pad + (ta + tb if first == "a" else tb + ta) + "GET /x\n  200 @%s\n" % first
            mcases.append((rel.case("mt%d%s" % (k, first), text), text))
    mobs = harness("run", [c for c, _ in mcases])
    for c, text in mcases:
        o = mobs[c["id"]]
        chk.evaluations += 1
        chk.traces += 1
        chk.nontrivial.add(text)
        if o["outcome"] != "error" or "@nope1" not in o["err"]["msg"]:
            continue
        lo = text.index('"x": @nope1')
        hi = lo + len('"x": @nope1,')
        e = o["err"]
        if not (lo <= e["index"] <= hi):
            sig = {"what": "outside-directive", "variant": "mutual_types"}
            chk.violation("undefined type named at bytes %d..%d, but the diagnostic %r is at %s byte %d (line %d) | document:\n%s" % (
                lo, hi, e["msg"], e["file"], e["index"], e["line"], text),
                {"kind": "path_fault", "variant": "mutual_types", "file": text, "span": [lo, hi], "observed": o, "signature": sig}, sig)
    # tree documents with file boundaries (JSightTree, INCLUDE nesting <= 2): every diagnostic raised inside an included
    # file - whatever raises it: scanner, placement, end-of-file check, JSIGHT rule - carries the chain of INCLUDE lines
    import c06
    import render
    tcases, tmeta = [], {}
    for vo, ml, sdx in (("FALSE", "12", 31), ("TRUE", "16", 32)):
        c = dict(c06.CONST_NONE, History="TRUE", MaxLen=ml, EmitMode='"docs"', ValidOnly=vo, MaxInc="2", OneKw="TRUE")
        r = tlc_ok(tlc("JSightTree", "Tree_docs.cfg", consts=c, simulate=4000 if thorough else 400, depth=int(ml) + 8, tlc_seed=seed() + sdx,
                       workers=8 if thorough else 4, timeout=3000), "JSightTree walks with file boundaries")
        chk.add_tlc(r)
        for m in r.mbt:
            if not any(it["t"] == "fb" for it in m["doc"]):
                continue
            files, spans = render.render_tree_project(m["doc"])
            cid = "tb%d" % len(tcases)
            tcases.append({"id": cid, "files": {f: b64(t) for f, t in files.items()}, "root": "main.jst"})
            tmeta[cid] = (m["doc"], files, spans)
    tobs = harness("run", tcases)
    located_in_include = 0
    for cid, (doc, files, spans) in tmeta.items():
        o = tobs[cid]
        chk.evaluations += 1
        if o["outcome"] != "error" or o["err"]["file"] == "main.jst" or o["err"]["file"] not in files:
            continue
        chk.traces += 1
        located_in_include += 1
        chk.nontrivial.add(json.dumps(doc))
        opener, stack = {}, ["main.jst"]
        for i, it in enumerate(doc, 1):
            if it["t"] == "fb":
                f, b, _ = spans[i]
                opener["inc%d.jst" % i] = (f, files[f][:b].count(b"\n") + 1)
                stack.append("inc%d.jst" % i)
            elif it["t"] == "fe" and len(stack) > 1:
                stack.pop()
        want, f = [], o["err"]["file"]
        while f in opener:
            want.append([opener[f][0], str(opener[f][1])])
            f = opener[f][0]
        got = [list(x) for x in o["err"].get("trace") or []]
        if got != want:
            detail = "tree-document"
            for (gf, gl), (wf, wl) in zip(got, want):
                if (gf, gl) != (wf, wl):
                    if gf == wf and gl.isdigit() and int(gl) < int(wl) and len(got) == len(want):
                        detail = "line-of-an-earlier-include"       # finding F-07: the tracer cache is keyed by the including file only
                    break
            sig = {"what": "trace", "detail": detail, "msg": o["err"]["msg"][:40]}
            shown = "\n".join("--- %s\n%s" % (ff, t.decode()) for ff, t in files.items())
            chk.violation("diagnostic %r in %s: include trace %s, the chain of INCLUDE lines is %s | project:\n%s" % (
                o["err"]["msg"], o["err"]["file"], got, want, shown[:900]),
                {"kind": "tree_trace", "case": tcases[int(cid[2:])], "doc": doc, "expected_trace": want, "observed": o, "signature": sig}, sig)
    chk.extra["tree_documents_with_diagnostic_in_included_file"] = located_in_include
    # include graphs enumerated by TLC (spec/JSightInclude.tla), replayed with the file-operation hook on
    incgraph.run(chk, tier, "C02")
    chk.rule = ("location table: all single-convention contents <= %d x all indices; rejected runs of fixtures, TLC-generated "
                "multi-fault documents (LF/CRLF/CR) and faults injected into included files of 6 multi-file forms" % maxlen)
    chk.assumptions += ["the include-trace relation (each path:line holds the INCLUDE leading to the previous entry) is evaluated by "
                        "the harness against the files themselves, not by TLC"]
    return chk.finish()


def replay(path):
    rp = json.load(open(path))["replay"]
    chk = Check("C02", "quick")
    chk.evaluations = 1
    if rp["kind"] == "include_graph":
        incgraph.replay(chk, rp, "C02")
        return chk.finish()
    if rp["kind"] == "location_fn":
        r = location_rows([(rp["content"], rp["index"])])[0]
        print("now: line %s quote %r panic %s" % (r["line"], textfn.dec(r["out"]), r["panic"]))
    else:
        o = harness("run", [rp["case"]])[rp["case"]["id"]]
        print("now:", rel.describe(o), (o.get("err") or {}).get("trace"))
    return chk.finish()
