"""C14 Lexical integrity: lexemes are well-formed and nothing but trivia is skipped.

Specification: spec/JSightLex.tla - the byte scanner as a transition function (one step
function per step function of the code, step stack, event stack, rewinds, look-ahead,
schema-library oracle) and, independently of the machine, the meaning-layer predicates of
C14 on (input, lexeme stream) pairs.
R: TLC enumerates all inputs up to the bound over a token alphabet (every keyword, every
delimiter, representative parameters, bodies, comments, annotations, newline forms) and
predicts the stream with the machine; the real scanner runs on the same bytes.
V: the real lexeme streams of all fixtures, of seeded mutations and of the generated inputs
are handed to TLC (TraceLex): the gate are the meaning-layer predicates evaluated on the
REAL stream (with the schema library's own length for every body); equality with the
machine's prediction is reported as implementation conformance."""
import json
import os
import random

import common
import fixtures
from c09 import mutate
from common import Check, Inconclusive, b64, harness, seed, tlc, tlc_ok


def lex_records(inputs, obs):
    recs = []
    for cid, data in inputs:
        o = obs[cid]
        recs.append({"id": cid, "inp": list(data), "orc": o.get("orc") or [], "rx": o.get("rx") or [], "real": o.get("lex") or [],
                     "rerr": o.get("err_idx", -1), "rpanic": bool(o.get("panic"))})
    return recs


def judge(chk, inputs, label, shard=400, workers=None):
    """runs the real scanner and TraceLex over the inputs; returns (gate problems, conformance stats)"""
    cases = [{"id": cid, "b64": b64(data)} for cid, data in inputs]
    obs = harness("lex", cases)
    recs = lex_records(inputs, obs)
    shards = [recs[i:i + shard] for i in range(0, len(recs), shard)]
    results = []

    def run(sh):
        nd = "\n".join(json.dumps(r) for r in sh) + "\n"
        r = tlc("TraceLex", "TraceLex.cfg", workers=1, files={"lex_traces.ndjson": nd}, timeout=3000)
        if r.error or r.violated:
            raise Inconclusive("TraceLex: %s %s\n%s" % (r.error, r.violated, r.out[-2000:]))
        if r.states < sum(1 for _ in sh):
            raise Inconclusive("TraceLex consumed %d states for %d traces" % (r.states, len(sh)))
        return r
    from concurrent.futures import ThreadPoolExecutor
    with ThreadPoolExecutor(max_workers=workers or min(12, max(1, len(shards)))) as ex:
        results = list(ex.map(run, shards))
    gate, conf_bad = [], []
    for r in results:
        chk.add_tlc(r)
        for m in r.mbt:
            if m["gate"]:
                gate.append(m)
            if not m["conf"]["agree"]:
                conf_bad.append(m)
    chk.traces += len(recs)
    chk.evaluations += len(recs)
    byid = {cid: data for cid, data in inputs}
    for m in gate:
        data = byid[m["id"]]
        o = obs[m["id"]]
        for p in m["gate"]:
            sig = {"what": p, "driver": label, "cls": classify(data, o)}
            chk.violation("real scanner output on input %s (%d bytes): %s | lexemes %s | input: %r" % (
                m["id"], len(data), p, json.dumps(o.get("lex"))[:300], data[:300]),
                {"kind": "lex", "id": m["id"], "input_b64": b64(data), "problem": p, "observed": o, "signature": sig}, sig)
    return len(recs), conf_bad, obs


def classify(data, o):
    """input class used to name known findings precisely"""
    lex = o.get("lex") or []
    for t, b, e in lex:
        if t == 2 and e == b - 2:
            return "empty-multiline-annotation"     # '/*/' : end two bytes before begin
    orc = dict((p, n) for p, n in (o.get("orc") or []))
    for t, b, e in lex:
        if t in (3, 8) and orc.get(b) == 0:
            return "library-length-zero"
    return "other"


def fixture_inputs(limit, rnd):
    files = fixtures.fixture_files()
    if limit and len(files) > limit:
        files = rnd.sample(files, limit)
    return [("fx:" + os.path.relpath(f, common.REPO), open(f, "rb").read()) for f in files]


def main(tier):
    chk = Check("C14", tier)
    thorough = tier == "thorough"
    rnd = random.Random(seed())
    inputs = fixture_inputs(None if thorough else 160, rnd)
    inputs = [(c, d) for c, d in inputs if len(d) <= (20000 if thorough else 3000)]
    muts = []
    for cid, d in inputs[:(len(inputs) if thorough else 120)]:
        for k in range(4 if thorough else 1):
            muts.append(("mu%d:%s" % (k, cid), mutate(d, rnd)))
    n1, bad1, _ = judge(chk, inputs, "fixture")
    n2, bad2, _ = judge(chk, muts, "mutation")
    import lexgen
    n3, bad3 = lexgen.generated(chk, tier, judge)
    allbad = bad1 + bad2 + bad3
    chk.extra["impl_conformance"] = {"agree": n1 + n2 + n3 - len(allbad), "checked": n1 + n2 + n3,
                                     "first_divergences": [{"id": m["id"], "why": m["conf"]["why"]} for m in allbad[:8]]}
    chk.nontrivial.update(c for c, _ in inputs + muts)
    chk.sample({"trace": inputs[0][0], "bytes": len(inputs[0][1])})
    chk.rule = ("inputs: fixtures, seeded byte/line mutations of them, all token sequences up to the bound over the token "
                "alphabet of spec/MCLex.tla; judged: the real stream by the meaning-layer predicates; distinct = distinct inputs")
    chk.assumptions += ["the gap grammar of OnlyTriviaSkipped (blanks, line ends, '#' to end of line, '###...###', '//' and "
                        "'/*' '*/' around an annotation) is the reading of the property's list of trivia",
                        "C14 speaks about inputs the scanner reads without error: rejected inputs are judged by C01/C02"]
    return chk.finish()


def replay(path):
    rp = json.load(open(path))["replay"]
    chk = Check("C14", "quick")

    def j(chk2, inputs, label, **kw):
        return judge(chk2, inputs, label, **kw)
    judge(chk, [(rp["id"], common.unb64(rp["input_b64"]))], "replay")
    return chk.finish()
