"""Scanner inputs enumerated by TLC (spec/MCLex.tla) and judged through TraceLex."""
from common import seed, tlc, tlc_ok


def generated(chk, tier, judge):
    thorough = tier == "thorough"
    sd = seed()
    total, bad = 0, []
    plans = [(2, 1, 0), (3, 1 if thorough else 40, sd % (1 if thorough else 40))]
    if thorough:
        plans.append((4, 60, sd % 60))
    for maxtok, mod, pick in plans:
        r = tlc_ok(tlc("MCLex", "MCLex.cfg", consts={"MaxTokens": str(maxtok), "SampleMod": str(mod), "SamplePick": str(pick)},
                       timeout=3000), "MCLex")
        chk.add_tlc(r)
        inputs = [("tk%d:%s" % (maxtok, "-".join(map(str, m["seq"]))), bytes(m["inp"])) for m in r.mbt if len(m["seq"]) == maxtok or maxtok == 2]
        n, b, _ = judge(chk, inputs, "tokens", shard=4000)
        total += n
        bad += b
        chk.extra["token_sequences_upto_%d" % maxtok] = {"inputs": n, "sampled_1_in": mod}
        if inputs:
            chk.sample({"token_input": inputs[len(inputs) // 2][1].decode("latin1")})
    return total, bad
