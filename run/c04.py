"""C04 Catalog faithfulness: the catalog says exactly what the document declares.

TLC (JSightApi) generates abstract API documents and evaluates the meaning layer on them:
Valid(doc) and Catalog(doc).  R: each valid document is rendered (canonical style and a
seeded alternative style), run through the real library, the JSON output projected into the
vocabulary of JSightApi!Catalog and compared for equality with what TLC computed."""
import json
import random

import apidoc
import common
from common import Check, b64, harness, seed, tlc, tlc_ok

ALL_FEATURES = '{"info","server","type","enum","tag","url","method","rpc","tags","pathdecl","allof","allofmsg","methoddecl","nested","rules","skey"}'


def gen_docs(chk, n, maxblocks, sd, features=ALL_FEATURES, workers=4, rich="TRUE"):
    c = {"Exhaustive": "FALSE", "MaxBlocks": str(maxblocks), "Rich": rich, "Features": features}
    r = tlc_ok(tlc("JSightApi", "Api_sim.cfg", consts=c, simulate=max(1, n // workers), depth=maxblocks + 3,
                   tlc_seed=sd, workers=workers, timeout=3000), "JSightApi simulate")
    chk.add_tlc(r)
    seen = set()
    docs = []
    for m in r.mbt:
        key = json.dumps(m["doc"], sort_keys=True)
        if key in seen:
            continue
        seen.add(key)
        docs.append(m)
    return docs


def gen_exhaustive(chk, maxblocks, features):
    c = {"Exhaustive": "TRUE", "MaxBlocks": str(maxblocks), "Rich": "TRUE", "Features": features}
    r = tlc_ok(tlc("JSightApi", "Api_sim.cfg", consts=c, timeout=3000), "JSightApi exhaustive")
    chk.add_tlc(r)
    return r.mbt


def compare(chk, pid, recs, tag, styles):
    cases, meta = [], {}
    for n, m in enumerate(recs):
        if not m["valid"]:
            continue
        for sname, st in styles:
            text, bs, spans = apidoc.render(m["doc"], st)
            cid = "%s%d%s" % (tag, n, sname)
            cases.append({"id": cid, "files": {"main.jst": b64(text)}, "root": "main.jst"})
            meta[cid] = (m, text, sname)
    obs = harness("run", cases)
    for cid, (m, text, sname) in meta.items():
        o = obs[cid]
        chk.evaluations += 1
        chk.traces += 1
        chk.nontrivial.add(json.dumps(m["doc"], sort_keys=True))
        want = m["cat"][0]
        problem = None
        sig = {"mode": "catalog"}
        if o["outcome"] != "ok":
            e = o.get("err") or {}
            problem = "valid document not accepted: %s %s %r (line %s)" % (
                o["outcome"], o.get("panic", ""), e.get("msg"), e.get("line"))
            sig = {"mode": "rejected", "msg": str(e.get("msg")) + str(o.get("panic", ""))}
        else:
            got, dups, _ = apidoc.project(o["json"])
            d = apidoc.first_diff(want, apidoc.strip_private(got), "catalog")
            if d:
                problem = "catalog differs from the declaration: " + d
                sig = {"mode": "catalog", "where": d.split(":")[0]}
        if problem:
            chk.violation(problem + " | style=%s | document:\n%s" % (sname, text[:1500]),
                          {"kind": "api_doc", "doc": m["doc"], "file": text, "expected": want,
                           "expected_from": "JSightApi!Catalog(doc)", "observed": o, "signature": sig}, sig)
    return len(meta)


def styles_for(sd):
    rnd = random.Random(sd)
    alt = apidoc.Style(nl=rnd.choice(["\r\n", "\n"]), indent=rnd.choice(["", "    ", "\t"]), trailing=rnd.choice([True, False]))
    # "l": URL-level Tags / Path written after the methods (the last one closed by a parenthesis)
    # "r": Path bodies written as the name of a (renderer-private) type: directly, through an alias, with an inherited property
    return [("c", apidoc.Style()), ("a", alt), ("l", apidoc.Style(late=1.0, rnd=random.Random(sd + 5))),
            ("r", apidoc.Style(pathref=0.8, rnd=random.Random(sd + 6)))]


def declared_things_stay(chk):
    """small documents whose catalog is written out by hand (what the lines declare, nothing guessed): a declared TAG named like
    a path tag keeps its title, description and interactions; a Description that repeats the annotation is still a description"""
    import json
    import rel
    from common import harness
    cases = {
        "tag_named_like_path": 'JSIGHT 0.3\nTAG @zcats // Cats\n  Description\n    about cats\nGET /zcats/{id}\n  Tags @zcats\n  200 any\nPOST /zcats\n  200 any\nPUT /zdogs\n  Tags @zcats\n  200 any\n',
        "tag_named_like_path_declared_last": 'JSIGHT 0.3\nGET /zcats/{id}\n  Tags @zcats\n  200 any\nPOST /zcats\n  200 any\nTAG @zcats // Cats\n  Description\n    about cats\n',
        "description_equals_annotation": 'JSIGHT 0.3\nGET /zsame // List the  cats\n  Description\n    List the cats\n  200 any\nURL /zr\n  Protocol json-rpc-2.0\n  Method zm // Ping\n    Description\n    (\n      Ping\n    )\n    Result\n    {}\n',
    }
    obs = harness("run", [rel.case("dt_" + k, t) for k, t in cases.items()])
    for k, t in cases.items():
        o = obs["dt_" + k]
        chk.evaluations += 1
        chk.traces += 1
        chk.nontrivial.add("declared:" + k)
        bad = None
        if o["outcome"] != "ok":
            bad = "not accepted: %s" % rel.describe(o)
        else:
            cat = json.loads(o["json"])
            if k.startswith("tag_named"):
                tg = (cat.get("tags") or {}).get("@zcats") or {}
                ids = sorted(i for g in tg.get("interactionGroups") or [] for i in g.get("interactions") or [])
                want = sorted(i for i in cat["interactions"] if "zcats" in i or "zdogs" in i)
                if tg.get("title") != "Cats" or tg.get("description") != "about cats" or ids != want:
                    bad = "declared tag @zcats: title %r, description %r, interactions %s (declared: 'Cats', 'about cats', %s)" % (tg.get("title"), tg.get("description"), ids, want)
            else:
                a, b = cat["interactions"]["http GET /zsame"], cat["interactions"]["json-rpc-2.0 zm /zr"]
                if a.get("description") != "List the cats" or b.get("description") != "Ping" or a.get("annotation") != "List the cats":
                    bad = "descriptions %r / %r, annotation %r (declared: 'List the cats', 'Ping', 'List the cats')" % (a.get("description"), b.get("description"), a.get("annotation"))
        if bad:
            sig = {"what": "declared thing lost", "variant": k}
            chk.violation("%s: %s | document:\n%s" % (k, bad, t), {"kind": "declared", "file": t, "signature": sig}, sig)


def unused_macro_contributes_nothing(chk):
    """the catalog contains what the document declares and nothing else: a MACRO that is never pasted - whatever it holds -
    leaves the catalog as it is without it (two real runs)"""
    import json
    import rel
    from common import harness
    base = ('JSIGHT 0.3\nINFO\n  Title "T"\n  Version 1\nENUM @zused\n[\n  "a"\n]\nTYPE @zt\n{\n  "e": "a" // {enum: @zused}\n}\n'
            'TAG @ztag\nGET /zx\n  Tags @ztag\n  200 @zt\n')
    bodies = {
        "enum": ["ENUM @zsecret // never pasted", "[", '  "x", // note', "  2", "]"], "type": ["TYPE @zsecrettype", "{", '  "s": 1', "}"],
        "server": ["SERVER @zsecretserver", '  BaseUrl "http://secret"'], "method": ["GET /zsecret/{id}", "  Path", "  {", '    "id": 1', "  }", "  200 any"],
        "rpc": ["URL /zsecretrpc", "  Protocol json-rpc-2.0", "  Method zm", "    Result", "    {}"], "response": ["404 any"],
        "enum_and_user": ["ENUM @zsecret2", "[", "  1", "]", "TYPE @zuser2", "{", '  "v": 1 // {enum: @zsecret2}', "}"],
        "paste_of_another": ["PASTE @zother"],
    }
    cases = [rel.case("um_base", base)]
    for nm, body in bodies.items():
        extra = "MACRO @zother\n(\n  ENUM @zinother\n  [\n    1\n  ]\n)\n" if nm == "paste_of_another" else ""
        mac = "MACRO @zunused\n(\n" + "".join("  " + x + "\n" for x in body) + ")\n" + extra
        cases.append(rel.case("um_%s_end" % nm, base + mac))
        cases.append(rel.case("um_%s_begin" % nm, base.replace("INFO\n", mac + "INFO\n", 1)))
    obs = harness("run", cases)
    b = obs["um_base"]
    if b["outcome"] != "ok":
        return
    for c in cases[1:]:
        o = obs[c["id"]]
        chk.evaluations += 1
        chk.traces += 1
        chk.nontrivial.add(c["id"])
        bad = None
        if o["outcome"] != "ok":
            bad = "not accepted: %s" % rel.describe(o)
        elif json.loads(o["json"]) != json.loads(b["json"]):
            bad = "the catalog differs from the catalog without the macro: %s" % apidoc.first_diff(json.loads(b["json"]), json.loads(o["json"]), "json")
        if bad:
            sig = {"what": "unused macro contributes", "variant": c["id"]}
            text = common.unb64(c["files"]["main.jst"]).decode()
            chk.violation("a MACRO that is never pasted (%s): %s | document:\n%s" % (c["id"], bad, text),
                          {"kind": "unused_macro", "file": text, "file_without": base, "signature": sig}, sig)


def type_entry_users(chk):
    """the catalog entry of a user type says what its TYPE directive declares - whoever uses the type: as a Path body
    (directly, through an alias), as a body, as a base, in a Query or not at all.  Two real runs compared entry by entry."""
    import json
    import rel
    from common import harness
    tdef = ('TYPE @zpo\n{\n  "w": 1, // {optional: true}\n  "v": "s" // {optional: true, minLength: 1}\n}\n'
            'TYPE @zreq\n{\n  "w": 2, // {min: 0}\n  "v": "t"\n}\n')
    users = {
        "none": 'GET /zu/{w}/{v}\n  200 any\n',
        "path": 'URL /zu/{w}/{v}\n  Path\n    @zpo\n  GET\n    200 any\n',
        "path_required": 'URL /zu/{w}/{v}\n  Path\n    @zreq\n  GET\n    200 any\n',
        "path_alias": 'TYPE @zal\n  @zpo\nURL /zu/{w}/{v}\n  Path\n    @zal\n  GET\n    200 any\n',
        "path_in_method": 'GET /zu/{w}/{v}\n  Path\n    @zpo\n  200 any\n',
        "body": 'POST /zu\n  Request @zpo\n  200 [@zpo]\n',
        "base": 'TYPE @zheir\n{ // {allOf: "@zpo"}\n  "x": 1\n}\nGET /zu\n  200 @zheir\n',
        "query_and_headers": 'GET /zu\n  Query\n    @zpo\n  Request\n    Headers @zreq\n    Body any\n  200 any\n',
        "two_paths": 'URL /zu/{w}/{v}\n  Path\n    @zpo\n  GET\n    200 any\nURL /zt/{w}/{v}\n  Path\n    @zpo\n  PUT\n    200 any\n',
    }
    cases = []
    for nm, u in users.items():
        cases.append(rel.case("tu_" + nm + "_a", "JSIGHT 0.3\n" + tdef + u))
        cases.append(rel.case("tu_" + nm + "_b", "JSIGHT 0.3\n" + u + tdef))
    obs = harness("run", cases)
    base = obs["tu_none_a"]
    if base["outcome"] != "ok":
        return
    want = {k: v for k, v in json.loads(base["json"])["userTypes"].items() if k in ("@zpo", "@zreq")}
    for nm in users:
        for sfx in ("_a", "_b"):
            o = obs["tu_" + nm + sfx]
            chk.evaluations += 1
            chk.traces += 1
            chk.nontrivial.add("type_entry_users:" + nm + sfx)
            if o["outcome"] != "ok":
                continue               # (a use the language does not allow: nothing to compare)
            cat = json.loads(o["json"])
            got = {k: v for k, v in cat["userTypes"].items() if k in want}
            bad = None
            if got != want:
                k = next(k for k in want if got.get(k) != want[k])
                bad = "the entry of %s differs from the entry it has when nothing uses it: %s" % (k, apidoc.first_diff(want[k], got.get(k), k))
            elif nm.startswith("path") or nm == "two_paths":
                # "each with the declared schema": the path variables carry the declared rules
                tname = "@zreq" if nm == "path_required" else "@zpo"
                decl = {c["key"]: c for c in want[tname]["schema"]["content"]["children"]}
                for iid, it in cat["interactions"].items():
                    for c in ((it.get("pathVariables") or {}).get("schema") or {}).get("content", {}).get("children") or []:
                        d = decl.get(c.get("key"))
                        if d is not None and (c.get("optional"), c.get("type"), c.get("rules")) != (d.get("optional"), d.get("type"), d.get("rules")):
                            bad = "path variable %s of %s: optional / type / rules %s, declared %s" % (
                                c.get("key"), iid, (c.get("optional"), c.get("type"), c.get("rules")), (d.get("optional"), d.get("type"), d.get("rules")))
            if bad:
                sig = {"what": "type entry depends on its users", "variant": nm}
                text = common.unb64(next(x for x in cases if x["id"] == "tu_" + nm + sfx)["files"]["main.jst"]).decode()
                chk.violation(bad + " | document:\n" + text, {"kind": "type_users", "file": text, "file_without_user": "JSIGHT 0.3\n" + tdef + users["none"],
                                                                 "variant": nm, "signature": sig}, sig)


def main(tier):
    chk = Check("C04", tier)
    sd = seed()
    thorough = tier == "thorough"
    styles = styles_for(sd)
    total = 0
    plans = [(6000, 3), (6000, 6), (4000, 9)] if thorough else [(700, 3), (700, 6)]
    for i, (n, mb) in enumerate(plans):
        docs = gen_docs(chk, n, mb, sd * 100 + i, workers=8 if thorough else 4)
        if i == 0 and docs:
            v = [d for d in docs if d["valid"]]
            if v:
                chk.sample({"doc": v[0]["doc"], "expected_catalog": v[0]["cat"][0]})
        total += compare(chk, "C04", docs, "s%d_" % i, styles)
    chk.extra["documents_compared"] = total
    type_entry_users(chk)
    unused_macro_contributes_nothing(chk)
    declared_things_stay(chk)
    chk.rule = ("documents = random abstract API models generated by the JSightApi spec (info, servers, types in four "
                "notations with references/arrays/enums/allOf, enums, tags, URL blocks, path-bearing methods, JSON-RPC "
                "blocks, queries, requests and responses in param/inline/child-Body form, headers, Path declarations), "
                "kept when Valid(doc); each rendered in 4 styles; distinct = distinct abstract documents")
    chk.assumptions += ["renderer faithful to the abstract document", "projection of the JSON output into the abstract "
                        "catalog vocabulary (run/apidoc.py project) loses only fields C04 does not list (examples, "
                        "usedUserTypes, rules, notes)"]
    return chk.finish()


def replay(path):
    rp = json.load(open(path))["replay"]
    chk = Check("C04", "quick")
    if rp.get("kind") == "unused_macro":
        import rel
        o = harness("run", [rel.case("a", rp["file_without"]), rel.case("b", rp["file"])])
        chk.evaluations = 1
        if o["b"]["outcome"] != "ok" or json.loads(o["a"]["json"]) != json.loads(o["b"]["json"]):
            chk.violation("reproduced", rp, rp.get("signature"))
        return chk.finish()
    if rp.get("kind") == "type_users":
        import rel
        o = harness("run", [rel.case("a", rp["file_without_user"]), rel.case("b", rp["file"])])
        chk.evaluations = 1
        if o["a"]["outcome"] == o["b"]["outcome"] == "ok":
            ua, ub = json.loads(o["a"]["json"])["userTypes"], json.loads(o["b"]["json"])["userTypes"]
            if any(ub.get(k) != v for k, v in ua.items() if k in ("@zpo", "@zreq")):
                chk.violation("reproduced: the entry of a type depends on its users", rp, rp.get("signature"))
        return chk.finish()
    compare(chk, "C04", [{"doc": rp["doc"], "valid": True, "cat": [rp["expected"]]}], "r", [("c", apidoc.Style())])
    return chk.finish()
