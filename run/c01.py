"""C01 Totality: any project is accepted or rejected, never a crash or a hang.

TLC side: the scanner machine JSightLex (explicit crash states for every partial operation:
pop of an empty step/event stack) runs inside TraceLex over every input below - a predicted
crash is reported next to the real outcome; JSightTree has no reachable crash state any more
(F-01); MCLex enumerates the token sequences.
R/V: every input is run through the REAL pipeline (kit.NewJapi -> ValidateJAPI -> ToJson,
ToJsonIndent, Title) in crash-isolated child processes with a deadline:
  * all token sequences up to 2 tokens, sampled 3-token ones (raw and after a JSIGHT line),
  * every fixture (with its sibling files) and seeded byte/line mutations,
  * random walks of the context-resolution machine (JSightTree) rendered to text,
  * TLC-generated API documents, valid and multi-fault, with seeded option sets,
  * all macro paste graphs and include graphs of the C07/C08 rejection families,
  * hostile shapes: deep nesting, very long lines, CR/CRLF, empty and binary files.
Verdict by observation: panic, fatal error, deadline miss, or a diagnostic that is a Go
runtime fault ('runtime error:') is a violation."""
import json
import os
import random

import apidoc
import c04
import c06
import c07
import c08
import common
import fixtures
import render
import rel
from c09 import mutate
from common import Check, b64, harness, seed, tlc, tlc_ok


def hostile():
    res = []
    res.append(("empty", b""))
    res.append(("only_newlines", b"\n\r\n\r"))
    res.append(("binary", bytes(range(1, 256)) * 3))
    res.append(("nul", b"JSIGHT 0.3\n\x00"))
    res.append(("deep_parens", b"JSIGHT 0.3\n" + b"URL /a\n(\n" * 3000))
    res.append(("deep_macro", b"JSIGHT 0.3\n" + b"".join(b"MACRO @m%d\n(\n" % i for i in range(500)) + b")\n" * 500))
    res.append(("long_line", b"JSIGHT 0.3\nINFO\n  Title \"" + b"x" * 200000 + b"\"\n"))
    res.append(("long_annotation", b"JSIGHT 0.3\nGET /a // " + b"y " * 100000 + b"\n  200 any\n"))
    res.append(("many_types", b"JSIGHT 0.3\n" + b"".join(b"TYPE @t%d\n{\n  \"a\": @t%d\n}\n" % (i, i + 1) for i in range(300)) + b"TYPE @t300 any\n"))
    res.append(("deep_schema", b"JSIGHT 0.3\nTYPE @d\n" + b"[" * 400 + b"1" + b"]" * 400 + b"\n"))
    res.append(("cr_only", b"JSIGHT 0.3\rINFO\r  Title \"T\"\rGET /a\r  200 any\r"))
    res.append(("crlf_desc", b"JSIGHT 0.3\r\nINFO\r\n  Description\r\n    a\r\n    b\r\n"))
    res.append(("regex_eof", b"JSIGHT 0.3\nTYPE @a regex"))
    res.append(("regex_open", b"JSIGHT 0.3\nTYPE @a regex\n/ab\\"))
    res.append(("unclosed_block_comment", b"JSIGHT 0.3\n### never closed\nGET /a\n"))
    for k in (0, 4, 12, 20):
        for L in (199, 201, 204, 210):
            res.append(("long_indented_error_line_%d_%d" % (k, L), b"JSIGHT 0.3\nINFO\n" + b" " * k + b"Bogus" + b"x" * (L - k - 5) + b"\n"))
            res.append(("long_indented_include_line_%d_%d" % (k, L), b"JSIGHT 0.3\n" + b"\t" * k + b"INCLUDE bad.jst" + b" " * max(0, L - k - 15) + b"\n"))
    # an empty quoted parameter on every directive that takes parameters
    for kw in ("JSIGHT", "Title", "Version", "SERVER", "BaseUrl", "URL", "GET", "Body", "Request", "200", "Query", "TYPE", "ENUM", "MACRO",
               "PASTE", "INCLUDE", "Protocol", "Method", "TAG", "Tags", "Path", "Headers"):
        res.append(("empty_quoted_%s" % kw, b'JSIGHT 0.3\nINFO\n  Title "T"\n' + kw.encode() + b' ""\n'))
        res.append(("empty_quoted_in_url_%s" % kw, b'JSIGHT 0.3\nURL /a\n  GET\n    ' + kw.encode() + b' ""\n'))
    res.append(("paren_first", b"("))
    res.append(("empty_include_in_parens", b"JSIGHT 0.3\nURL /a\n(\nINCLUDE empty.jst\n)\n"))
    res.append(("empty_include_unclosed", b"JSIGHT 0.3\nURL /a\n(\nINCLUDE empty.jst\n"))
    res.append(("close_open", b"JSIGHT 0.3\nURL /a\n(\n)\n(\n"))
    res.append(("self_type", b"JSIGHT 0.3\nTYPE @a\n{\n  \"a\": @a\n}\n"))
    res.append(("allof_self", b"JSIGHT 0.3\nTYPE @a\n{ // {allOf: \"@a\"}\n  \"x\": 1\n}\n"))
    res.append(("allof_cycle", b"JSIGHT 0.3\nTYPE @a\n{ // {allOf: \"@b\"}\n  \"x\": 1\n}\nTYPE @b\n{ // {allOf: \"@a\"}\n  \"y\": 1\n}\n"))
    # the schema library reports an error of one type while another one is compiled (positions must stay in the file)
    mutual = (b'JSIGHT 0.3\nTYPE @a\n{\n  "x": @nope1,\n  "y": @b,\n  "z": @nope2 | @b\n}\nTYPE @b\n{\n  "a": @a // {optional: true}\n}\n')
    for k in range(8):          # which of the two errors is reported varies from run to run
        res.append(("mutual_types_undefined_%d" % k, mutual))
        res.append(("mutual_types_undefined_tail_%d" % k, mutual + b"# " + b"x" * k + b"\n"))
    res.append(("ref_cycle", b"JSIGHT 0.3\nTYPE @a\n{\n  \"b\": @b\n}\nTYPE @b\n{\n  \"a\": @a\n}\nGET /x\n  200 @a\n"))
    return res


def reference_matrix():
    """Every place where a schema body may be written as a reference x every kind of thing the name may
    stand for (also chains of references, alternatives, allOf targets): accepted or rejected, never a crash."""
    targets = {
        "object": "TYPE @x\n{\n  \"id\": 1\n}\n",
        "regex": "TYPE @x regex\n/ab+/\n",
        "any": "TYPE @x any\n",
        "empty": "TYPE @x empty\n",
        "scalar": "TYPE @x\n1\n",
        "string": "TYPE @x\n\"s\"\n",
        "array": "TYPE @x\n[1]\n",
        "null": "TYPE @x\nnull\n",
        "enumrule": "TYPE @x\n1 // {enum: @e}\nENUM @e\n[1, 2]\n",
        "undefined": "",
        "is_enum": "ENUM @x\n[1]\n",
        "is_macro": "MACRO @x\n(\n  200 any\n)\n",
        "chain_object": "TYPE @x\n@y\nTYPE @y\n{\n  \"id\": 1\n}\n",
        "chain_regex": "TYPE @x\n@y\nTYPE @y regex\n/ab+/\n",
        "chain_any": "TYPE @x\n@y\nTYPE @y any\n",
        "chain_undefined": "TYPE @x\n@y\n",
        "chain3": "TYPE @x\n@y\nTYPE @y\n@z\nTYPE @z\n{\n  \"id\": 1\n}\n",
        "self": "TYPE @x\n@x\n",
        "cycle": "TYPE @x\n@y\nTYPE @y\n@x\n",
        "or": "TYPE @x\n@y | @z\nTYPE @y\n{\n  \"id\": 1\n}\nTYPE @z regex\n/a/\n",
        "or_self": "TYPE @x\n@x | @y\nTYPE @y\n{\n  \"id\": 1\n}\n",
        "or_cycle": "TYPE @x\n@y | @w\nTYPE @y\n@x | @w\nTYPE @w\n{\n  \"id\": 1\n}\n",
        "or_objects": "TYPE @x\n@y | @w\nTYPE @y\n{\n  \"a\": 1\n}\nTYPE @w\n{\n  \"id\": 1\n}\n",
        "array_of_ref": "TYPE @x\n[@y]\nTYPE @y regex\n/a/\n",
        "allof_regex": "TYPE @x\n{ // {allOf: \"@y\"}\n  \"id\": 1\n}\nTYPE @y regex\n/a/\n",
        "allof_any": "TYPE @x\n{ // {allOf: \"@y\"}\n  \"id\": 1\n}\nTYPE @y any\n",
        "allof_chain": "TYPE @x\n{ // {allOf: \"@y\"}\n  \"id\": 1\n}\nTYPE @y\n@z\nTYPE @z\n{\n  \"k\": 1\n}\n",
    }
    places = {
        "path_body": "GET /a/{id}\n  Path\n    %s\n  200 any\n",
        "url_path_body": "URL /a/{id}\n  Path\n    %s\n  GET\n    200 any\n",
        "query_body": "GET /a\n  Query\n    %s\n  200 any\n",
        "req_headers": "POST /a\n  Request any\n    Headers\n      %s\n  200 any\n",
        "resp_headers": "GET /a\n  200 any\n    Headers\n      %s\n",
        "req_param": "POST /a\n  Request %s\n  200 any\n",
        "req_body": "POST /a\n  Request\n    %s\n  200 any\n",
        "resp_param": "GET /a\n  200 %s\n",
        "resp_body_child": "GET /a\n  200\n    Body\n      %s\n",
        "resp_array_param": "GET /a\n  200 [%s]\n",
        "rpc_params": "URL /r\n  Protocol json-rpc-2.0\n  Method m\n    Params\n      %s\n    Result\n      %s\n",
        "prop": "GET /a\n  200\n    {\n      \"p\": %s\n    }\n",
        "allof": "GET /a\n  200\n    { // {allOf: \"%s\"}\n      \"p\": 1\n    }\n",
        "type_rule": "GET /a\n  200\n    {\n      \"p\": 1 // {type: \"%s\"}\n    }\n",
        "or_rule": "GET /a\n  200\n    {\n      \"p\": 1 // {or: [\"%s\", \"integer\"]}\n    }\n",
        "additional": "GET /a\n  200\n    { // {additionalProperties: \"%s\"}\n    }\n",
        "enum_rule": "GET /a\n  200\n    {\n      \"p\": 1 // {enum: %s}\n    }\n",
        "paste": "GET /a\n  PASTE %s\n",
        "tags": "GET /a\n  Tags %s\n  200 any\n",
    }
    res = []
    for pn, pt in places.items():
        for tn, tt in targets.items():
            res.append(("%s:%s" % (pn, tn), ("JSIGHT 0.3\n" + tt + pt.replace("%s", "@x")).encode()))
    return res


PRELUDE = ('TYPE @t\n{\n  "a": 1,\n  "b": @u // {optional: true}\n}\n'
           'TYPE @u\n{\n  "c": @t // {optional: true}\n}\n'
           'ENUM @e\n[\n  "a", // first\n  "b"\n]\n'
           'TAG @api // Api\n  Description\n    tag text\n'
           'MACRO @m\n(\n  404 any\n)\n'
           'TYPE @prx regex\n  /[a-z]+/\nTYPE @pany any\n')
BLOCKS = [
    'URL /api/{lang}\n  Path\n  {\n    "lang": "en"\n  }\n  GET\n    200 any\n',
    'URL /api/{lang}/rpc\n  Protocol json-rpc-2.0\n  Method listIt // m\n    Params\n    {\n      "p": 1\n    }\n    Result\n    [@t]\n',
    'GET /api/{lang}/items/{id}\n  Path\n  {\n    "id": 1\n  }\n  200 @t\n',
    'POST /api/{lang}\n  Request @t\n  200 [@t]\n',
    'TYPE @x\n{ // {allOf: "@t"}\n  "c": "x"\n}\nGET /x\n  200 @x\n',
    'TYPE @rx regex\n  /a+/\nGET /rx/{lang}\n  200 @rx\n',
    'TYPE @an any\nPOST /an\n  Request @an\n  200 @an\n',
    'TYPE @w\n{\n  "e": "a", // {enum: @e}\n  "t": @t | @u\n}\nGET /w\n  200 @w\n',
    'SERVER @s // srv\n  BaseUrl "https://x.example/{lang}"\n',
    'INFO\n  Title "T"\n  Version 1\n  Description\n    some text\n',
    'GET /other/{lang}\n  Tags @api\n  200 any\n',
    'GET /mac/{lang}\n  PASTE @m\n  200 any\n',
    'URL /api/{lang}/more\n  DELETE\n    200 any\n',
    'URL /apj/{locale}\n  Path\n  {\n    "locale": "x" // {optional: true}\n  }\n  PUT\n    200 any\n',
    'URL /p/{a}/{b}\n  Path\n    @t\n  GET\n    200 any\n',
    'GET /api/{lang}/rpc\n  200 any\n',
    'URL /q\n  GET\n    Query "a=1"\n    {\n      "a": 1\n    }\n    200\n      Headers\n      {\n        "X": "y"\n      }\n      Body @t\n',
    'GET /h\n  Request\n    Headers\n    { // {allOf: "@t"}\n    }\n    Body any\n  200 empty\n',
    'PASTE @m2\nMACRO @m2\n(\n  URL /api/{lang}/deep/{z}\n  (\n    Path\n    {\n      "z": 2\n    }\n    PATCH\n      200 @u\n  )\n)\n',
    'TYPE @list\n  [@t]\nGET /l\n  200 @list\n',
    'TYPE @or\n  @t | @u | @rx2\nTYPE @rx2 regex\n  /b/\nGET /or\n  200 @or\n',
    'URL /api/{lang}/rpc2/{x}\n  Protocol json-rpc-2.0\n  Method a.b\n    Tags @api\n    Result\n      @u\n',
    'URL /{lang}/rpc3\n  Protocol json-rpc-2.0\n  Method ping\n    Result\n      "pong"\n',
    'GET /{lang}/status\n  Path\n  {\n    "lang": "acme"\n  }\n  200 any\n',
    'GET /api/{lang}/items/{id}/sub/{k}\n  Path\n  {\n    "k": 3\n  }\n  200 any\n',
    'URL /api/{lang}/items/{id}/rpc4\n  Protocol json-rpc-2.0\n  Method m4\n    Params\n      [1]\n    Result\n      {}\n',
    'TAG @sub\n  TAG @subsub\nGET /t\n  Tags @sub @subsub @api\n  200 any\n',
    'GET /rxp/{id}\n  Path\n  {\n    "id": @prx\n  }\n  200 any\n',
    'GET /.\n  200 any\nURL /./.\n  POST\n    200 any\nGET //.\n  200 any\n',
    'URL /.\n  Protocol json-rpc-2.0\n  Method dot\n    Result\n    {}\nGET /..\n  200 any\nGET /./..//\n  200 any\n',
    'URL /rxq/{id}\n  Path\n  {\n    "id": "abc" // {type: "@prx"}\n  }\n  GET\n    200 any\n',
    'GET /rxr/{id}\n  Path\n  {\n    "id": 1 // {or: ["@prx", "integer"]}\n  }\n  200 any\n',
    'GET /rxs/{id}\n  Path\n  {\n    "id": @pany\n  }\n  200 any\n',
    'GET /rxt/{id}/{k}\n  Path\n  {\n    "id": @prx | @e,\n    "k": [1]\n  }\n  200 any\n',
    'URL /u\n  Tags @api\n  GET\n    Tags @api\n    200 any\n  POST\n    200 any\n',
]


def block_pairs(thorough, rnd):
    """documents made of two (thorough: also three) building blocks that share names and path prefixes on purpose: what
    one block declares another one uses, describes again or clashes with"""
    res = []
    n = len(BLOCKS)
    for i in range(n):
        res.append(("b%d" % i, "JSIGHT 0.3\n" + PRELUDE + BLOCKS[i]))
        for j in range(n):
            if i != j:
                res.append(("b%d-%d" % (i, j), "JSIGHT 0.3\n" + (PRELUDE if (i + j) % 3 else "") + BLOCKS[i] + BLOCKS[j] + ("" if (i + j) % 3 else PRELUDE)))
    for _ in range(6000 if thorough else 600):
        k = rnd.sample(range(n), rnd.choice([3, 3, 4, 5]))
        res.append(("b" + "-".join(map(str, k)), "JSIGHT 0.3\n" + PRELUDE + "".join(BLOCKS[x] for x in k)))
    return res


def main(tier):
    chk = Check("C01", tier)
    thorough = tier == "thorough"
    sd = seed()
    rnd = random.Random(sd)
    cases = []
    kinds = {}

    def add(kind, cid, files, root="main.jst", **kw):
        c = {"id": cid, "files": files, "root": root, "timeout": 20000}
        c.update(kw)
        cases.append(c)
        kinds[cid] = kind
    # 1. token sequences
    for maxtok, mod in ([(2, 1), (3, 1 if thorough else 60)]):
        r = tlc_ok(tlc("MCLex", "MCLex.cfg", consts={"MaxTokens": str(maxtok), "SampleMod": str(mod), "SamplePick": str(sd % mod)},
                       timeout=3000), "MCLex")
        chk.add_tlc(r)
        for m in r.mbt:
            if len(m["seq"]) != maxtok and maxtok != 2:
                continue
            data = bytes(m["inp"])
            cid = "tk:" + "-".join(map(str, m["seq"]))
            add("tokens", cid, {"main.jst": b64(data)})
            add("tokens_after_jsight", "j" + cid, {"main.jst": b64(b"JSIGHT 0.3\n" + data)})
            add("tokens_in_include", "i" + cid, {"main.jst": b64(b"JSIGHT 0.3\nURL /a\n(\nINCLUDE t.jst\n)\n"), "t.jst": b64(data)})
    # 2. fixtures and mutations
    files = fixtures.fixture_files()
    if not thorough:
        files = rnd.sample(files, 250)
    for n, f in enumerate(files):
        data = open(f, "rb").read()
        d = os.path.dirname(f)
        name = os.path.basename(f)
        ff = {}
        if b"INCLUDE" in data:
            for root, _, xs in os.walk(d):
                for x in xs:
                    if x.endswith(".jst"):
                        p = os.path.join(root, x)
                        ff[os.path.relpath(p, d)] = b64(open(p, "rb").read())
        ff[name] = b64(data)
        add("fixture", "fx%d" % n, ff, root=name)
        for k in range(6 if thorough else 2):
            ff2 = dict(ff)
            ff2[name] = b64(mutate(data, rnd))
            add("mutation", "mu%d_%d" % (n, k), ff2, root=name)
    # 3. random walks of the tree machine
    c = dict(c06.CONST_NONE, History="TRUE", MaxLen="40", EmitMode='"docs"', MaxInc="2")
    r = tlc_ok(tlc("JSightTree", "Tree_docs.cfg", consts=c, simulate=3000 if thorough else 400, depth=45, tlc_seed=sd, workers=4,
                   timeout=3000), "JSightTree simulate")
    chk.add_tlc(r)
    for n, m in enumerate(r.mbt):
        tfiles, _ = render.render_tree_project(m["doc"])
        add("tree_walk", "tw%d" % n, {f: b64(t) for f, t in tfiles.items()})
    # 4. API documents, valid and multi-fault, with option sets; macro and include graphs
    docs = c04.gen_docs(chk, 3000 if thorough else 400, 6, sd * 100 + 81, workers=8 if thorough else 4)
    allk = ["JSIGHT", "INFO", "Title", "Version", "Description", "SERVER", "BaseUrl", "URL", "GET", "POST", "PUT", "PATCH", "DELETE",
            "Body", "Request", "200", "Path", "Headers", "Query", "TYPE", "ENUM", "MACRO", "PASTE", "INCLUDE", "Protocol", "Method",
            "Params", "Result", "TAG", "Tags"]
    for n, m in enumerate(docs):
        try:
            text = apidoc.render(m["doc"], apidoc.Style(nl=rnd.choice(["\n", "\r\n", "\r"])))[0]
        except Exception:
            continue
        ban = rnd.choice([[], [], [rnd.choice(allk)], rnd.sample(allk, 3)])
        add("api_doc", "ad%d" % n, {"main.jst": b64(text)}, banned=ban)
        if m["valid"] and n % (2 if thorough else 10) == 0:
            for nm, rd in c07.reject_cases(m["doc"], rnd):
                add("macro_graph", "mg%d_%s" % (n, nm), {"main.jst": b64(apidoc.render(rd)[0])})
            for nm, blocks, fs, dirs, noread in [rc[:5] for rc in c08.reject_cases(m["doc"])]:
                ff = {"main.jst": b64(apidoc.render(blocks)[0])}
                ff.update({k: b64(v) for k, v in fs.items()})
                add("include_graph", "ig%d_%s" % (n, nm), ff, dirs=dirs)
            for nm, blocks, fs in [f[:3] for f in c08.forms(m["doc"], m["tx"][0], rnd)]:
                ff = {"main.jst": b64(apidoc.render(blocks)[0])}
                ff.update({k: b64(v) for k, v in fs.items()})
                ff[rnd.choice(sorted(fs))] = b64("")        # one of the included files is empty
                add("include_empty_file", "ie%d_%s" % (n, nm), ff)
    # 4a. tree documents with a run of directives moved into a macro and pasted (expansion stage)
    import treemacro
    tcases, _ = treemacro.build(chk, tier, share=0.5)
    for tc in tcases:
        add("tree_macro", "tmc:" + tc["id"], tc["files"])
    # 4b. reference matrix
    for nm, data in reference_matrix():
        add("reference_matrix", "rm:" + nm, {"main.jst": b64(data)})
    # 4c. pairs and small sets of building blocks that share names and path prefixes
    for nm, text in block_pairs(thorough, rnd):
        add("block_sets", "bp:" + nm, {"main.jst": b64(text)})
    # 5. hostile shapes
    for nm, data in hostile():
        add("hostile", "h:" + nm, {"main.jst": b64(data), "empty.jst": b64(b""), "bad.jst": b64(b"Bogus\n")})
    import macrograph
    macrograph.run(chk, tier, "C01")
    obs = harness("run", cases)
    per_kind = {}
    for cs in cases:
        cid = cs["id"]
        o = obs[cid]
        k = kinds[cid]
        per_kind[k] = per_kind.get(k, 0) + 1
        chk.evaluations += 1
        chk.traces += 1
        chk.nontrivial.add(cid)
        bad = None
        if o["outcome"] in ("panic", "fatal", "timeout"):
            bad = "%s: %s" % (o["outcome"], o.get("panic", "")[:200])
        elif o["outcome"] == "error" and ("runtime error" in o["err"]["msg"] or "nil pointer" in o["err"]["msg"]):
            bad = "a Go runtime fault reported as a diagnostic: %r" % o["err"]["msg"]
        elif o["outcome"] == "readerr" and "runtime error" in o.get("panic", ""):
            bad = "runtime fault while reading the root file: %s" % o.get("panic")
        elif o["outcome"] == "ok" and o.get("json_err"):
            bad = "accepted but serialisation failed: %s" % o["json_err"]
        if bad:
            fr = ",".join(o.get("frames") or [])
            site = fr.split(",")[0].split(".")[-1] if fr else ""
            sig = {"what": o["outcome"], "driver": k, "site": site, "frames": fr, "panic": o.get("panic", "")[:80],
                   "msg": (o.get("err") or {}).get("msg", "")[:60], "detail": ""}
            if o["outcome"] == "error" and o["err"].get("dep_fault"):
                # the harness reproduced exactly this fault text by calling the schema library alone on the
                # bytes at the error position: the fault is raised inside the pinned dependency
                sig["detail"] = "schema-library-" + o["err"]["dep_fault"]
            main_text = common.unb64(cs["files"][cs["root"]])[:600]
            chk.violation("real pipeline %s | site %s | %s input %s: %r" % (bad, site, k, cid, main_text),
                          {"kind": "totality", "case": cs, "observed": o, "signature": sig}, sig)
    import typegraph
    typegraph.run(chk, tier, "C01")
    chk.extra["runs_by_driver"] = per_kind
    chk.sample({"drivers": sorted(per_kind), "example_input": common.unb64(cases[len(cases) // 3]["files"][cases[len(cases) // 3]["root"]]).decode("latin1")[:200]})
    chk.rule = "every input is one real run with a deadline in a crash-isolated child; distinct = distinct inputs (see runs_by_driver)"
    chk.assumptions += ["the harness deadline (20 s per project, 48 MB goroutine stack) stands for 'promptly' and 'never overflows the stack'",
                        "schema-library internals are exercised only by the bodies that the drivers produce"]
    return chk.finish()


def replay(path):
    rp = json.load(open(path))["replay"]
    chk = Check("C01", "quick")
    if rp.get("kind") == "typegraph":
        import typegraph
        typegraph.replay(chk, "C01", rp)
        return chk.finish()
    chk.evaluations = 1
    o = harness("run", [rp["case"]])[rp["case"]["id"]]
    if o["outcome"] in ("panic", "fatal", "timeout"):
        chk.violation("reproduced: %s %s" % (o["outcome"], o.get("panic", "")), rp, rp.get("signature"))
    else:
        print("now:", rel.describe(o))
    return chk.finish()
