"""MANIFEST.setup_cmd: verify tools, build the harness from files on disk, warm caches."""
import shutil
import subprocess

import common


def main():
    for tool in ("go", "java", "tlc"):
        if not shutil.which(tool):
            print("missing tool: " + tool)
            return 2
    common.build_harness()
    out = subprocess.run([common.VH, "tables"], capture_output=True)
    if out.returncode != 0:
        print("harness does not run")
        return 2
    r = common.tlc("MCVocab", "MCVocab.cfg", workers=1, timeout=120)
    if not r.mbt:
        print("TLC does not run: " + r.out[-500:])
        return 2
    print("setup ok")
    return 0
