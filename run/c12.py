"""C12 allOf inheritance: inherited properties first, ordered, marked, not overridden.

TLC (JSightApi) generates documents dense in inheritance graphs - chains, several bases,
bases shared between types, used from types, requests, responses, params/results - in all
declaration orders the generator produces plus explicit permutations; the meaning layer's
ChildrenOf (inherited first, in base order, in declaration order, each once, marked with the
base; bases as declared) is compared with the real catalog.  Overriding an inherited
property, a base that is not an object and an undefined base must be rejected."""
import copy
import itertools
import json
import random

import apidoc
import c04
import rel
from common import Check, harness, seed

FEATS = '{"type","enum","allof","allofmsg","method","url","rpc","nested","skey"}'


def schema_projection(cat):
    """only what C12 talks about: every schema's children (key, inheritedFrom) in order"""
    def kids(sv):
        return [(c["key"], c["inh"], c["tt"], c["type"], c.get("kids", [])) for c in (sv or {}).get("children", [])]
    res = {"types": {t["name"]: kids(t["schema"]) for t in cat["types"]}}
    for i in cat["interactions"]:
        for r in i.get("request") or []:
            res[i["id"] + " request"] = kids(r["schema"])
            for h in r.get("headers") or []:
                res[i["id"] + " request headers"] = kids(h)
        for k, r in enumerate(i.get("responses") or []):
            res[i["id"] + " response %d" % k] = kids(r["schema"])
            for h in r.get("headers") or []:
                res[i["id"] + " response %d headers" % k] = kids(h)
        for q in i.get("query") or []:
            res[i["id"] + " query"] = kids(q["schema"])
        for k in ("params", "result"):
            for sv in i.get(k) or []:
                res[i["id"] + " " + k] = kids(sv)
    return res


def reject_variants(doc):
    """documents that must be rejected, derived from a valid one with at least one allOf"""
    res = []
    for i, b in enumerate(doc):
        if b["t"] != "type" or not b["body"]["allOf"]:
            continue
        base = b["body"]["allOf"][0]
        bb = next((x for x in doc if x["t"] == "type" and x["name"] == base), None)
        if bb is None or not bb["body"]["props"]:
            continue
        # override: the inheriting type declares a key its base already has
        d1 = copy.deepcopy(doc)
        d1[i]["body"]["props"] = d1[i]["body"]["props"] + [copy.deepcopy(bb["body"]["props"][0])]
        res.append(("override", d1))
        # base is not an object
        d2 = copy.deepcopy(doc)
        j = doc.index(bb)
        d2[j]["body"] = {"k": "int", "n": "", "props": [], "allOf": []}
        res.append(("base_not_object", d2))
        # undefined base
        d3 = copy.deepcopy(doc)
        d3[i]["body"]["allOf"] = ["@undefinedbase"]
        res.append(("undefined_base", d3))
        break
    return res


def main(tier):
    chk = Check("C12", tier)
    thorough = tier == "thorough"
    rnd = random.Random(seed())
    docs = []
    for i, (n, mb) in enumerate([(15000, 4), (15000, 6)] if thorough else [(1500, 4), (1500, 6)]):
        docs += c04.gen_docs(chk, n, mb, seed() * 100 + 20 + i, features=FEATS, workers=8 if thorough else 4)
    # dense type graphs (no interactions): chains, nested objects with their own allOf, shared bases
    for i, (n, mb) in enumerate([(20000, 5), (10000, 6)] if thorough else [(2500, 5)]):
        docs += c04.gen_docs(chk, n, mb, seed() * 100 + 25 + i, features='{"type","enum","allof","nested","skey"}', workers=8 if thorough else 4)
    for i, (n, mb) in enumerate([(30000, 4), (20000, 5)] if thorough else [(9000, 4)]):
        docs += c04.gen_docs(chk, n, mb, seed() * 100 + 28 + i, features='{"type","allof","nested","skey","dense"}', workers=8 if thorough else 4)
    # ALL inheritance graphs over three object types (five property kinds incl. nested objects with their own
    # allOf and shortcut keys; none, one or two bases in either order) in ALL declaration orders - exhaustive
    g = c04.gen_exhaustive(chk, 3, '{"type","allof","graph","skey","nested"}')
    chk.extra["inheritance_graphs_exhaustive"] = {"types": 3, "valid_graphs_in_all_orders": len(g), "exhaustive": True}
    for x in g:
        x["_graph"] = True
    docs += g
    cases, meta, rej = [], {}, {}
    withallof = 0
    for n, m in enumerate(docs):
        if not m["valid"]:
            continue
        d = m["doc"]
        uses = any(b["t"] == "type" and b["body"]["allOf"] for b in d) or "allOf\": [\"" in json.dumps(d) or '"nobj"' in json.dumps(d)
        if not uses:
            continue
        withallof += 1
        text = apidoc.render(d)[0]
        cid = "a%d" % n
        cases.append(rel.case(cid, text))
        meta[cid] = (m, text)
        if m.get("_graph") and n % 10:
            continue        # exhaustive graphs come in all orders already; rejection variants for a tenth of them
        # the same document with its blocks in reverse order: every schema must list the same children
        rtext = apidoc.render(d[::-1])[0]
        cases.append(rel.case("r%d" % n, rtext))
        meta["r%d" % n] = (m, rtext)
        for nm, rd in reject_variants(d):
            rid = "x%d_%s" % (n, nm)
            t = apidoc.render(rd)[0]
            cases.append(rel.case(rid, t))
            rej[rid] = (nm, m, t)
    # inherited properties reach the path variables too, also when the Path body is only the name of the inheriting type
    pv = {}
    base_t = 'TYPE @zbase\n{\n  "zb": 1\n}\nTYPE @zmid\n{ // {allOf: "@zbase"}\n  "zm": 1\n}\n'
    for k, (pathdecl, want) in enumerate([
            ('  Path\n    @zpk\n', [("zb", "@zbase"), ("zc", "")]),
            ('  Path\n  { // {allOf: "@zbase"}\n    "zc": 1\n  }\n', [("zb", "@zbase"), ("zc", "")]),
            ('  Path\n    @zpk3\n', [("zb", "@zmid"), ("zm", "@zmid"), ("zc", "")])]):   # marks name the base written in the allOf rule
        types = base_t + 'TYPE @zpk\n{ // {allOf: "@zbase"}\n  "zc": 1\n}\nTYPE @zpk3\n{ // {allOf: "@zmid"}\n  "zc": 1\n}\n'
        path = "/zpv/{zb}/{zc}" if k < 2 else "/zpv/{zb}/{zm}/{zc}"
        text = "JSIGHT 0.3\n" + types + "URL %s\n%s  GET\n    200 any\n  POST\n    200 any\n" % (path, pathdecl)
        cases.append(rel.case("pv%d" % k, text))
        pv["pv%d" % k] = (text, path, want)
    obs = harness("run", cases)
    for cid, (text, path, want) in pv.items():
        o = obs[cid]
        chk.evaluations += 1
        chk.traces += 1
        chk.nontrivial.add(text)
        bad = None
        if o["outcome"] != "ok":
            bad = "Path declaration with inherited properties not accepted: %s" % rel.describe(o)
        else:
            cat = json.loads(o["json"])
            for verb in ("GET", "POST"):
                ch = cat["interactions"]["http %s %s" % (verb, path)].get("pathVariables", {}).get("schema", {}).get("content", {}).get("children", [])
                got = sorted((c["key"], c.get("inheritedFrom", "")) for c in ch)
                if got != sorted(want):
                    bad = "path variables of %s %s: (key, inheritedFrom) = %s, the rule gives %s" % (verb, path, got, sorted(want))
        if bad:
            sig = {"what": "path variables inheritance"}
            chk.violation("inherited properties differ from the rule: " + bad + " | document:\n" + text, {"kind": "allof_doc", "file": text, "doc": [], "expected": want,
                                                                   "observed": o, "signature": sig}, sig)
    for cid, (m, text) in meta.items():
        o = obs[cid]
        chk.evaluations += 1
        chk.traces += 1
        chk.nontrivial.add(json.dumps(m["doc"], sort_keys=True))
        bad = None
        if o["outcome"] != "ok":
            bad = "valid document with allOf not accepted: %s" % rel.describe(o)
        else:
            got, _, _ = apidoc.project(o["json"])
            d = apidoc.first_diff(json.loads(json.dumps(schema_projection(m["cat"][0]))),
                                  json.loads(json.dumps(schema_projection(apidoc.strip_private(got)))), "schemas")
            if d:
                bad = "inherited properties differ from the rule: " + d
        if bad:
            sig = {"what": bad.split(":")[0]}
            chk.violation(bad + " | document:\n" + text[:1500], {"kind": "allof_doc", "doc": m["doc"], "file": text,
                          "expected": m["cat"][0], "observed": o, "signature": sig}, sig)
    for rid, (nm, m, t) in rej.items():
        o = obs[rid]
        chk.evaluations += 1
        chk.traces += 1
        chk.nontrivial.add(nm + json.dumps(m["doc"], sort_keys=True))
        if o["outcome"] != "error":
            sig = {"what": "not rejected", "variant": nm}
            chk.violation("%s must be rejected, observed %s | document:\n%s" % (nm, rel.describe(o), t[:1200]),
                          {"kind": "allof_reject", "variant": nm, "file": t, "observed": o, "signature": sig}, sig)
    chk.extra["documents_with_allOf"] = withallof
    if meta:
        x = next(iter(meta.values()))
        chk.sample({"doc": x[0]["doc"], "expected_children": schema_projection(x[0]["cat"][0])})
    import typegraph
    typegraph.run(chk, tier, "C12")
    chk.rule = ("valid TLC-generated documents that use allOf (types and message bodies); for each: children of every schema "
                "(key, inheritedFrom, token type, type) in order; plus override / non-object base / undefined base variants")
    chk.assumptions += ["diamonds (a key inherited twice) are outside the generated fragment: the statement leaves their position open",
                        "a property inherited through two levels is marked with the directly named base (what the code writes)"]
    return chk.finish()


def replay(path):
    rp = json.load(open(path))["replay"]
    chk = Check("C12", "quick")
    if rp.get("kind") == "typegraph":
        import typegraph
        typegraph.replay(chk, "C12", rp)
        return chk.finish()
    chk.evaluations = 1
    o = harness("run", [rel.case("a", rp["file"])])["a"]
    print("now:", rel.describe(o))
    return chk.finish()
