"""C19 Tags: explicit Tags win, otherwise one automatic tag per first path segment.

(1) The real automatic-tag function (tagName . pathTagTitle, verif exports) on every first
    segment over {_ % . sp a 2 5 0 F e-acute} up to the bound: TLC judges injectivity on the
    implementation's table (JSightText!TagJudge).
(2) End to end: TLC-generated documents mixing method-level, URL-level and absent Tags for HTTP
    and JSON-RPC; the tag collection and every interaction's tag list must equal what the
    precedence rule of JSightApi!Catalog predicts (tags, titles, descriptions, membership).
(3) An undeclared tag in a Tags directive that is consulted is rejected."""
import json
import random

import apidoc
import c04
import rel
import textfn
from common import Check, b64, harness, seed

# "%" escapes to %25 and " " to %20: the digits that occur in escapes must be in the alphabet,
# otherwise a literal "_25" can never meet an escaped "%"
SEG_ALPHA = ["_", "%", ".", " ", "a", "2", "5", "0", "F", "é"]


def tag_projection(cat):
    return {"tags": [{k: t[k] for k in ("name", "title", "desc", "http", "rpc")} for t in cat["tags"]],
            "by_interaction": {i["id"]: i["tags"] for i in cat["interactions"]}}


def main(tier):
    chk = Check("C19", tier)
    thorough = tier == "thorough"
    maxlen = 5 if thorough else 4
    segs = list(textfn.all_strings(SEG_ALPHA, maxlen))
    outs = textfn.text_rows("pathtag", ["/" + s + "/rest" if s else "/" for s in segs])
    rows = [{"in": textfn.enc(s), "out": textfn.enc(textfn.unb64(o["out"]).decode("utf-8", "surrogateescape")), "err": False,
             "panic": bool(o.get("panic"))} for s, o in zip(segs, outs)]
    for rep in textfn.judge(chk, "tagname", SEG_ALPHA, maxlen, rows, "tagname_table"):
        # name the colliding pair for the replay
        seen, pair = {}, None
        for s, r in zip(segs, rows):
            if s and s != "." and "/" not in s:
                k = "".join(r["out"])
                if k in seen:
                    pair = (seen[k], s, k)
                    break
                seen[k] = s
        sig = {"level": "function", "what": rep["why"]}
        chk.violation("automatic tag names collide: first segments %r and %r both give %r" % (pair or ("?", "?", "?")),
                      {"kind": "tagname", "pair": pair, "signature": sig}, sig)
    chk.nontrivial.update("seg:" + s for s in segs[:2000])
    # "interactions with the same first segment share that tag": whatever follows the first segment - more segments,
    # '..', '.', doubled or trailing slashes - the tag is the tag of that segment (two real outputs compared)
    firsts = [s for s in textfn.all_strings(SEG_ALPHA, 2) if s and "/" not in s and s not in (".", "..")]
    tails = ["", "/", "/rest", "/..", "/../other", "/./x", "//x", "/x/../..", "/{id}", "/x/"]
    touts = textfn.text_rows("pathtag", ["/" + f + t for f in firsts for t in tails])
    k = 0
    for f in firsts:
        base = None
        for t in tails:
            o = touts[k]
            k += 1
            chk.evaluations += 1
            if o.get("panic"):
                continue
            got = textfn.unb64(o["out"]).decode("utf-8", "surrogateescape")
            if base is None:
                base = got
            elif got != base:
                sig = {"level": "function", "what": "same first segment, different tag"}
                chk.violation("the automatic tag of /%s%s is %r, of /%s it is %r: same first segment, different tags" % (f, t, got, f, base),
                              {"kind": "tagtail", "first": f, "tail": t, "signature": sig}, sig)
                break
    # (2) precedence end to end
    feats = '{"tag","url","method","rpc","tags","type"}'
    docs = []
    sd = seed()
    for i, (n, mb) in enumerate([(5000, 4), (5000, 7)] if thorough else [(600, 4), (500, 7)]):
        docs += c04.gen_docs(chk, n, mb, sd * 100 + 90 + i, features=feats, workers=8 if thorough else 4)
    cases, meta = [], {}
    for n, m in enumerate(docs):
        if not m["valid"]:
            continue
        text = apidoc.render(m["doc"])[0]
        cases.append(rel.case("t%d" % n, text))
        meta["t%d" % n] = (m, text)
        # URL-level Tags written after the methods of the block (last method in explicit parentheses)
        late = apidoc.render(m["doc"], apidoc.Style(late=1.0, rnd=random.Random(n)))[0]
        if late != text:
            cases.append(rel.case("l%d" % n, late))
            meta["l%d" % n] = (m, late)
        tabbed = apidoc.render(m["doc"], apidoc.Style(tabs_between=True))[0]
        if tabbed != text and n % 2 == 0:
            cases.append(rel.case("b%d" % n, tabbed))
            meta["b%d" % n] = (m, tabbed)
    # a stand-alone method on the path of a URL block that has URL-level Tags: it has no parent URL, so it gets the
    # automatic tag of its first segment and nothing else changes
    same = {}
    for n, m in enumerate(docs):
        if not m["valid"]:
            continue
        d = m["doc"]
        for b in d:
            if b["t"] == "url" and b["tags"] and b["methods"] and b["path"] and not b["path"][0].startswith("{"):
                used = {(x["m"]["verb"], tuple(x["m"]["path"])) for x in d if x["t"] == "method"} | \
                       {(mm["verb"], tuple(ub["path"])) for ub in d if ub["t"] == "url" for mm in ub["methods"]}
                verb = next((v for v in ("GET", "POST", "PUT", "PATCH", "DELETE") if (v, tuple(b["path"])) not in used), None)
                if verb is None:
                    break
                mm = {"verb": verb, "path": list(b["path"]), "annot": "", "desc": "", "tags": [], "query": "", "reqHeaders": False, "pathdecl": [],
                      "req": {"form": "none", "b": {"k": "none", "n": "", "props": [], "allOf": []}},
                      "resps": [{"code": "200", "annot": "", "spec": {"form": "param", "b": {"k": "any", "n": "", "props": [], "allOf": []}}, "headers": False}]}
                t2 = apidoc.render(d + [{"t": "method", "m": mm}])[0]
                cases.append(rel.case("sp%d" % n, t2))
                same["sp%d" % n] = ("t%d" % n, "http %s %s" % (verb, "".join("/" + x for x in b["path"])), "@" + b["path"][0], t2)
                break
    # Tags directives that name many tags (method level, URL level, JSON-RPC method), also with a repeated name
    many = {}
    for k in (3, 4, 5, 7):
        names = ["@t%d" % j for j in range(1, k + 1)]
        for variant, lst in (("plain", names), ("reversed", names[::-1]), ("repeat", names + names[:1])):
            text = "JSIGHT 0.3\n" + "".join("TAG %s\n" % x for x in names) + \
                "GET /m\n  Tags %s\n  200 any\n" % " ".join(lst) + \
                "URL /u\n  Tags %s\n  POST\n    200 any\n  PUT\n    200 any\n" % " ".join(lst) + \
                "URL /r\n  Protocol json-rpc-2.0\n  Method mm\n    Tags %s\n    Result\n    {}\n" % " ".join(lst)
            cid = "mt%d%s" % (k, variant)
            cases.append(rel.case(cid, text))
            many[cid] = (text, list(lst))      # as written (a repeated name stays repeated: nothing says otherwise)
    # a declared TAG whose name is what an untagged interaction gets from its path: one tag, the declared one
    named = {}
    for k, (decl_first, with_user) in enumerate([(True, True), (False, True), (True, False), (False, False)]):
        tagdecl = "TAG @zp // Declared title\n  Description\n    declared text\n"
        body = "GET /zp\n  200 any\n" + ("GET /zq\n  Tags @zp\n  200 any\n" if with_user else "") + "URL /zp/sub\n  POST\n    200 any\n"
        text = "JSIGHT 0.3\n" + (tagdecl + body if decl_first else body + tagdecl)
        cases.append(rel.case("nt%d" % k, text))
        named["nt%d" % k] = (text, ["http GET /zp"] + (["http GET /zq"] if with_user else []) + ["http POST /zp/sub"])
    obs = harness("run", cases)
    for cid, (text, ids) in named.items():
        o = obs[cid]
        chk.evaluations += 1
        chk.traces += 1
        chk.nontrivial.add(text)
        bad = None
        if o["outcome"] != "ok":
            bad = "document with a declared tag named like a path tag is not accepted: %s" % rel.describe(o)
        else:
            cat = json.loads(o["json"])
            t = cat["tags"].get("@zp")
            if not t:
                bad = "tag @zp is missing"
            elif t.get("title") != "Declared title" or t.get("description") != "declared text":
                bad = "tag @zp lost what its TAG directive declares: title %r, description %r" % (t.get("title"), t.get("description"))
            else:
                listed = sorted(x for g in t.get("interactionGroups", []) for x in g["interactions"])
                if listed != sorted(ids):
                    bad = "tag @zp lists %s, the interactions that carry it are %s" % (listed, sorted(ids))
        if bad:
            sig = {"level": "end-to-end", "what": "declared tag named like a path tag"}
            chk.violation(bad + " | document:\n" + text, {"kind": "tags_named", "file": text, "observed": o, "signature": sig}, sig)
    for cid, (text, want) in many.items():
        o = obs[cid]
        chk.evaluations += 1
        chk.traces += 1
        chk.nontrivial.add(text)
        bad = None
        if o["outcome"] != "ok":
            bad = "a document whose Tags directives name %d declared tags is not accepted: %s" % (len(want), rel.describe(o))
        else:
            got = apidoc.project(o["json"])[0]
            for i in got["interactions"]:
                if i["tags"] != want:
                    bad = "interaction %s: tags %s, its Tags directive names %s" % (i["id"], i["tags"], want)
                    break
            if not bad:
                ids = sorted(i["id"] for i in got["interactions"])
                for t in got["tags"]:
                    listed = sorted(set((t.get("http") or []) + (t.get("rpc") or [])))
                    if t["name"] in want and listed != ids:
                        bad = "tag %s lists %s, it is named by %s" % (t["name"], listed, ids)
                        break
        if bad:
            sig = {"level": "end-to-end", "what": "many tags"}
            chk.violation(bad + " | document:\n" + text[:1200], {"kind": "tags_many", "file": text, "observed": o, "signature": sig}, sig)
    for cid, (bid, iid, auto, t2) in same.items():
        a, o = obs[bid], obs[cid]
        chk.evaluations += 1
        chk.traces += 1
        chk.nontrivial.add(t2)
        if a["outcome"] != "ok":
            continue
        bad = None
        if o["outcome"] != "ok":
            bad = "a stand-alone method on the path of a URL block is not accepted: %s" % rel.describe(o)
        else:
            got = apidoc.project(o["json"])[0]
            base = apidoc.project(a["json"])[0]
            mine = [i for i in got["interactions"] if i["id"] == iid]
            if not mine:
                bad = "interaction %s is missing" % iid
            elif mine[0]["tags"] != [auto]:
                bad = "tags of the stand-alone %s are %s, the automatic tag of its first segment is %s" % (iid, mine[0]["tags"], auto)
            else:
                before = {i["id"]: i["tags"] for i in base["interactions"]}
                after = {i["id"]: i["tags"] for i in got["interactions"] if i["id"] != iid}
                if before != after:
                    k = next(k for k in before if before[k] != after.get(k))
                    bad = "adding the stand-alone %s changed the tags of %s: %s -> %s" % (iid, k, before[k], after.get(k))
        if bad:
            sig = {"level": "end-to-end", "what": "same path as a URL block"}
            chk.violation(bad + " | document:\n" + t2[:1200], {"kind": "tags_same_path", "file": t2, "observed": o, "signature": sig}, sig)
    for cid, (m, text) in meta.items():
        o = obs[cid]
        chk.evaluations += 1
        chk.traces += 1
        chk.nontrivial.add(json.dumps(m["doc"], sort_keys=True))
        bad = None
        if o["outcome"] != "ok":
            bad = "valid document not accepted: %s" % rel.describe(o)
        else:
            got, _, _ = apidoc.project(o["json"])
            want = tag_projection(m["cat"][0])
            d = apidoc.first_diff(want, tag_projection(apidoc.strip_private(got)), "tags")
            if d:
                bad = "tags differ from the precedence rule: " + d
            elif any(not i["tags"] for i in got["interactions"]):
                bad = "an interaction carries no tag"
        if bad:
            sig = {"level": "end-to-end", "what": bad.split(":")[0]}
            chk.violation(bad + " | document:\n" + text[:1200], {"kind": "tags_doc", "doc": m["doc"], "file": text,
                                                                 "expected": tag_projection(m["cat"][0]), "observed": o, "signature": sig}, sig)
    if meta:
        x = next(iter(meta.values()))
        chk.sample({"doc": x[0]["doc"], "expected_tags": tag_projection(x[0]["cat"][0])})
    # a Tags directive naming a tag that no TAG directive declares is rejected - also when the name is the automatic tag
    # of an earlier untagged interaction, and wherever the method comes from (written, pasted, included)
    method = "POST /zfriends\n  Tags @zcats\n  200 any\n"
    base = "JSIGHT 0.3\nGET /zcats\n  200 any\n"
    ucases = {
        "written_after": ({"main.jst": base + method}, True),
        "written_before": ({"main.jst": "JSIGHT 0.3\n" + method + "GET /zcats\n  200 any\n"}, True),
        "pasted_after": ({"main.jst": base + "MACRO @zm\n(\n" + "".join("  " + x + "\n" for x in method.splitlines()) + ")\nPASTE @zm\n"}, True),
        "macro_first_pasted_after": ({"main.jst": "JSIGHT 0.3\nMACRO @zm\n(\n" + "".join("  " + x + "\n" for x in method.splitlines()) + ")\nGET /zcats\n  200 any\nPASTE @zm\n"}, True),
        "pasted_under_url": ({"main.jst": base + "MACRO @zm\n(\n  POST\n    Tags @zcats\n    200 any\n)\nURL /zfriends\n  PASTE @zm\n"}, True),
        "included_after": ({"main.jst": base + "INCLUDE m.jst\n", "m.jst": method}, True),
        "declared_control": ({"main.jst": base + "TAG @zcats\n" + method}, False),
    }
    uobs = harness("run", [{"id": "ut_" + k, "files": {f: b64(t) for f, t in ff.items()}, "root": "main.jst"} for k, (ff, _) in ucases.items()])
    for k, (ff, must_reject) in ucases.items():
        o = uobs["ut_" + k]
        chk.evaluations += 1
        chk.traces += 1
        chk.nontrivial.add("undeclared:" + k)
        if must_reject and o["outcome"] == "ok":
            sig = {"level": "end-to-end", "what": "undeclared tag accepted", "variant": k}
            chk.violation("a Tags directive names @zcats, which no TAG directive declares (%s): accepted | project: %s" % (k, json.dumps(ff)),
                          {"kind": "undeclared_tag", "files": ff, "signature": sig}, sig)
        if not must_reject and o["outcome"] != "ok":
            sig = {"level": "end-to-end", "what": "declared tag rejected", "variant": k}
            chk.violation("control: the declared tag is not accepted: %s" % rel.describe(o), {"kind": "undeclared_tag", "files": ff, "signature": sig}, sig)
    import pathspec
    pathspec.run(chk, tier, "C19")
    chk.rule = ("function table: all first segments <= %d over 9 characters; documents: TLC-generated with tag-related features; "
                "distinct = distinct documents / segments" % maxlen)
    chk.assumptions += ["segments that are empty, '.', or contain '/' have no tag of their own (documented skipping)"]
    return chk.finish()


def replay(path):
    rp = json.load(open(path))["replay"]
    chk = Check("C19", "quick")
    if rp.get("kind") == "pathspec":
        import pathspec
        pathspec.replay(chk, "C19", rp)
        return chk.finish()
    chk.evaluations = 1
    if rp["kind"] == "undeclared_tag":
        o = harness("run", [{"id": "a", "files": {f: b64(t) for f, t in rp["files"].items()}, "root": "main.jst"}])["a"]
        if o["outcome"] == "ok":
            chk.violation("reproduced: accepted", rp, rp.get("signature"))
        return chk.finish()
    if rp["kind"] == "tagtail":
        oo = textfn.text_rows("pathtag", ["/" + rp["first"], "/" + rp["first"] + rp["tail"]])
        if oo[0]["out"] != oo[1]["out"]:
            chk.violation("reproduced: tags differ", rp, rp.get("signature"))
        return chk.finish()
    if rp["kind"] == "tagname" and rp.get("pair"):
        a, b, _ = rp["pair"]
        o = textfn.text_rows("pathtag", ["/" + a, "/" + b])
        if o[0]["out"] == o[1]["out"]:
            chk.violation("reproduced: %r and %r share a tag name" % (a, b), rp, rp.get("signature"))
    return chk.finish()
