"""C03 Determinism: same project, same verdict, same diagnostic, same bytes.

Documents are chosen by TLC (JSightApi): valid ones and the invalid ones the generator
produces (those carry several simultaneous faults), plus documents built to put two or more
entries into every internally hashed collection (macros, enum rules, path properties, tags).
Every project is run K times in one process (Go re-randomises each map range), in fresh
processes, and concurrently with other projects; verdict, message, index, line, trace and
the exact JSON bytes are compared between the real runs."""
import json
import os
import random

import apidoc
import c07
import rel
from common import Check, b64, harness, seed
import c04


def special_docs():
    """documents with >= 2 entries in the hashed collections and >= 2 simultaneous faults"""
    res = []
    # two independent macro cycles, unused and pasted
    two = ("JSIGHT 0.3\nMACRO @a\n(\n  PASTE @b\n)\nMACRO @b\n(\n  PASTE @a\n)\nMACRO @c\n(\n  PASTE @d\n)\nMACRO @d\n(\n  PASTE @c\n)\n"
           "MACRO @e\n(\n  PASTE @e\n)\n")
    res.append(("two_cycles", two))
    res.append(("three_self_recursive", "JSIGHT 0.3\n" + "".join("MACRO @r%d\n(\n  PASTE @r%d\n)\n" % (i, i) for i in range(6))))
    # several unused Path properties
    res.append(("unused_path_props", 'JSIGHT 0.3\nURL /p/{x}\n  Path\n  {\n    "x": 1,\n    "a": 1,\n    "b": 1,\n    "c": 1,\n    "d": 1\n  }\n  GET\n    200 any\n'))
    # several enums, one type using an undefined enum and one with an undefined type
    res.append(("enum_rules", 'JSIGHT 0.3\n' + "".join('ENUM @e%d\n[\n  "x"\n]\n' % i for i in range(6)) +
                'TYPE @t1\n{\n  "a": "x" // {enum: @nope1}\n}\nTYPE @t2\n{\n  "b": @nope2\n}\n'))
    # many tags, two undefined
    res.append(("tags", 'JSIGHT 0.3\n' + "".join("TAG @g%d\n" % i for i in range(5)) +
                "GET /a\n  Tags @g1 @u1 @u2\n  200 any\nGET /b\n  Tags @u3 @g2\n  200 any\n"))
    res.append(("dup_everything", 'JSIGHT 0.3\nTYPE @a any\nTYPE @a any\nENUM @e\n[1]\nENUM @e\n[1]\nSERVER @s\n  BaseUrl "x"\nSERVER @s\n  BaseUrl "x"\n'))
    # a Tags directive that repeats a tag next to other tags; many tags on one interaction
    res.append(("repeated_tags", 'JSIGHT 0.3\nTAG @cats\nTAG @dogs\nTAG @birds\nGET /a\n  Tags @cats @dogs @cats\n  200 any\n'
                'URL /u\n  Tags @dogs @birds @dogs @cats @birds\n  GET\n    200 any\n  POST\n    Tags @birds @cats @birds\n    200 any\n'
                'URL /r\n  Protocol json-rpc-2.0\n  Method m\n    Tags @cats @birds @cats @dogs\n    Result\n    {}\n'))
    res.append(("many_enums_in_type", 'JSIGHT 0.3\n' + "".join('ENUM @e%d\n[\n  "x"\n]\n' % i for i in range(5)) +
                'TYPE @t\n{\n' + ",\n".join('  "k%d": "x" // {enum: @e%d}' % (i, i) for i in range(5)) + '\n}\nGET /x\n  200 @t\n'))
    res.append(("many_bases", 'JSIGHT 0.3\n' + "".join('TYPE @b%d\n{\n  "p%d": 1\n}\n' % (i, i) for i in range(5)) +
                'TYPE @d\n{ // {allOf: ["@b0", "@b1", "@b2", "@b3", "@b4"]}\n  "own": 1\n}\nGET /x\n  200 @d\n'))
    res.append(("enum_macros", 'JSIGHT 0.3\n' + "".join('MACRO @m%d\n(\n  ENUM @e%d\n  [\n    "x"\n  ]\n)\n' % (i, i) for i in range(6)) +
                "".join("PASTE @m%d\n" % i for i in range(6)) + 'GET /x\n  200 any\n'))
    res.append(("type_macros", 'JSIGHT 0.3\n' + "".join('MACRO @m%d\n(\n  TYPE @t%d any\n  SERVER @s%d\n    BaseUrl "u"\n)\n' % (i, i, i) for i in range(5)) +
                "".join("PASTE @m%d\n" % i for i in range(5))))
    # two faults that belong to different final checks of the catalog (info, request body, response body, headers),
    # far apart in a large project: the diagnostic must be the same one on every run
    faults = {
        "info": "INFO\n",
        "req": 'POST /fq\n  Request\n    Headers\n    {\n      "h": "v"\n    }\n  200 any\n',
        "resp": 'GET /fr\n  201\n    Headers\n    {\n      "h": "v"\n    }\n',
        "hdr": 'TYPE @sc\n1\nGET /fh\n  200 any\n    Headers\n      @sc\n',
    }
    filler = "".join('GET /m%d\n  Query\n  {\n    "q": 1\n  }\n  200\n  {\n    "id": %d\n  }\n  404 any\n' % (i, i) for i in range(300))
    small = "".join("GET /s%d\n  200 any\n" % i for i in range(3))
    for a in faults:
        for b in faults:
            if a != b:
                res.append(("final_checks_%s_%s" % (a, b), "JSIGHT 0.3\n" + faults[a] + filler + faults[b]))
                res.append(("final_checks_small_%s_%s" % (a, b), "JSIGHT 0.3\n" + faults[a] + small + faults[b]))
    # several references to undefined types in one schema / in types that depend on each other
    res.append(("two_undefined_refs", 'JSIGHT 0.3\nTYPE @a\n{\n  "x": @nope1,\n  "y": @b,\n  "z": @nope2 | @b\n}\nTYPE @b\n{\n  "a": @a // {optional: true}\n}\n'))
    res.append(("two_undefined_refs_flat", 'JSIGHT 0.3\nTYPE @a\n{\n  "x": @nope1,\n  "z": @nope2\n}\nGET /x\n  200 @a\n'))
    res.append(("undefined_in_or", 'JSIGHT 0.3\nTYPE @a\n{\n  "z": @nope2 | @nope3\n}\nGET /x\n  200 @a\n'))
    # examples built from regular expressions: the same bytes in every process
    res.append(("regex_examples", 'JSIGHT 0.3\nTYPE @rx regex\n/[a-z]{8}[0-9]{4}/\nTYPE @ry regex\n/(cat|dog|bird)-[A-F]{3}/\nTYPE @o\n{\n  "r": @rx,\n  "s": @ry,\n'
                '  "t": [@rx]\n}\nGET /x\n  200 @o\n  404 regex\n  /[0-9]{6}/\nPOST /y\n  Request\n  {\n    "q": @ry\n  }\n  200 any\n'))
    # parameters with escapes everywhere a quoted parameter can stand
    res.append(("quoted_escapes", 'JSIGHT 0.3\nINFO\n  Title "The \\"Cats\\" API and \\\\fileserver"\n  Version "1.\\"2\\""\nSERVER @s // a \\ b\n  BaseUrl "http://x/\\"q\\"/y"\n'
                'GET "/a\\\\b/c"\n  Query "q=\\"1\\"&r=2"\n  {\n    "q": 1\n  }\n  200 any\nURL /r\n  Protocol json-rpc-2.0\n  Method "get\\"x\\"now"\n    Result\n    {}\n'))
    # several items qualify for ONE diagnostic: which of them is named must not vary
    res.append(("two_repeated_parameters", 'JSIGHT 0.3\nGET /c/{id}/f/{kind}/of/{id}/and/{kind}/x/{zz}/{zz}\n  200 any\n'))
    res.append(("two_repeated_parameters_in_url", 'JSIGHT 0.3\nURL /c/{a}/{b}/{a}/{b}\n  GET\n    200 any\n'))
    res.append(("three_undeclared_tags", 'JSIGHT 0.3\nGET /x\n  Tags @t1 @t2 @t3\n  200 any\n'))
    res.append(("two_empty_parameters", 'JSIGHT 0.3\nGET /c/{}/d/{}\n  200 any\n'))
    res.append(("three_unused_path_properties", 'JSIGHT 0.3\nGET /c/{id}\n  Path\n  {\n    "id": 1,\n    "u1": 1,\n    "u2": 2,\n    "u3": 3\n  }\n  200 any\n'))
    res.append(("two_duplicate_types", 'JSIGHT 0.3\nTYPE @a any\nTYPE @b any\nTYPE @b any\nTYPE @a any\n'))
    res.append(("two_similar_paths", 'JSIGHT 0.3\nGET /p/{x}\n  200 any\nGET /q/{y}\n  200 any\nGET /q/{z}\n  200 any\nGET /p/{w}\n  200 any\n'))
    res.append(("or_types", 'JSIGHT 0.3\nTYPE @a\n{\n  "x": @b | @c | @d\n}\nTYPE @b\n1\nTYPE @c\n"s"\nTYPE @d\ntrue\nGET /x\n  200 @a\n'))
    return res


def undefined_choice(msgs, text):
    """input class of finding F-33: every observed diagnostic is 'Type "@x" not found' for a name the
    document really does not define, and the runs disagree only in WHICH of these names they report"""
    import re
    msgs = [m for m in msgs if m]
    names = set()
    for m in msgs:
        mm = re.match(r'^Type "(@[^"]+)" not found$', m)
        if not mm:
            return ""
        names.add(mm.group(1))
    if len(names) < 2:
        return ""
    for nm in names:
        if re.search(r"^\s*TYPE\s+%s(\s|$)" % re.escape(nm), text, re.M):
            return ""
    return "which-of-several-undefined-types"


def main(tier):
    chk = Check("C03", tier)
    sd = seed()
    thorough = tier == "thorough"
    K = 40 if thorough else 12
    docs = []
    for i, (n, mb) in enumerate([(3000, 4), (3000, 7)] if thorough else [(400, 4), (400, 7)]):
        docs += c04.gen_docs(chk, n, mb, sd * 100 + 50 + i, workers=8 if thorough else 4)
    texts = []
    for m in docs:
        try:
            texts.append(("gen_valid" if m["valid"] else "gen_multi_fault", apidoc.render(m["doc"])[0]))
        except Exception:
            pass
    texts += special_docs() * 3
    import c13
    nrej = 0
    for m in docs:
        if m["valid"] and nrej < (400 if thorough else 60):
            for nm, rd in c13.reject_variants(m["doc"]):
                try:
                    texts.append(("path_fault_" + nm, apidoc.render(rd)[0]))
                    nrej += 1
                except Exception:
                    pass
    import c01
    bp = c01.block_pairs(False, random.Random(sd))
    texts += [("block_set", t) for nm, t in (bp if thorough else bp[sd % 5::5])]
    import fixtures, os
    fx = fixtures.fixture_files()
    if not thorough:
        fx = random.Random(sd).sample(fx, 150)
    for f in fx:
        data = open(f, "rb").read()
        if b"INCLUDE" not in data:
            texts.append(("fixture", data.decode("utf-8", "surrogateescape")))
    # documents with regular expressions once more with the library's default options (no fixed seed option)
    texts += [(k + "_default_options", t) for k, t in texts if " regex" in t][:(400 if thorough else 80)]
    # ... and a share of the documents processed K times from ONE byte slice held in memory (kit.NewJApiFromFile)
    texts += [(k + "_in_memory", t) for k, t in texts if ('\\' in t or k in ("quoted_escapes", "fixture")) and not k.endswith("_default_options")][:(600 if thorough else 150)]
    cases = [dict(rel.case("d%d" % n, t), reps=K, default_opts=k.endswith("_default_options"), mem=k.endswith("_in_memory")) for n, (k, t) in enumerate(texts)]
    # phase 1: K repetitions in one process
    obs1 = harness("run", cases)
    # phase 2: fresh processes (different hash seeds), one repetition each
    obs2 = harness("run", [dict(c, reps=1, id="x" + c["id"]) for c in cases], nproc=16)
    obs3 = harness("run", [dict(c, reps=1, id="y" + c["id"]) for c in cases], nproc=7)
    # phase 3: concurrently with other projects in one process
    groups = []
    step = 16
    for g in range(0, len(cases), step):
        groups.append({"id": "g%d" % g, "cases": [dict(c, reps=1) for c in cases[g:g + step]], "reps": 6 if thorough else 3})
    # the same projects with the same options give the same result whatever options OTHER projects of the process were
    # given: one option value handed to every project of a group, the last project adds a second option of its own
    plain = [c for c in cases if not c.get("mem") and not c.get("default_opts")]
    for g in range(0, min(len(plain), 96 if thorough else 32), 8):
        cs = [dict(c, reps=1, id="so" + c["id"], shared_ban=True) for c in plain[g:g + 8]]
        if len(cs) < 2:
            continue
        cs[-1]["banned2"] = ["GET", "POST", "PUT", "PATCH", "DELETE", "URL", "TYPE", "INFO", "SERVER", "TAG", "ENUM", "MACRO"]
        groups.append({"id": "gs%d" % g, "cases": cs, "reps": 3, "shared_ban": ["INCLUDE"]})
    obs4 = harness("conc", groups)
    # the result of a project does not depend on which OTHER project of the same directory was processed before it in
    # this process (shared include chains of depth 2, fault in the deepest file; both kinds of diagnostics)
    shared = []
    for k, (fault, stagekind) in enumerate([('TYPE @zf\n{\n  "a": @zundefined\n}\n', "compile"), ("Bogus directive\n", "scan"),
                                            ('GET /zf\n  Request\n    Headers\n    {\n      "h": "v"\n    }\n  200 any\n', "validate")]):
        files = {
            "main_a.jst": "JSIGHT 0.3\nTYPE @pa any\nINCLUDE shared/types.jst\n",
            "main_b.jst": "JSIGHT 0.3\nTYPE @pb any\nTYPE @pb2 any\n\n\nGET /b\n  200 any\nINCLUDE shared/types.jst\n",
            "main_c.jst": "JSIGHT 0.3\nINCLUDE other/mid.jst\n",
            "shared/types.jst": "TYPE @st any\n\nINCLUDE base.jst\n",
            "other/mid.jst": "\n\n\nINCLUDE ../shared/base.jst\n" if False else "TYPE @om any\nINCLUDE deep/base2.jst\n",
            "other/deep/base2.jst": "TYPE @ob any\n",
            "shared/base.jst": "TYPE @sb any\n" + fault,
        }
        ff = {kk: b64(v) for kk, v in files.items()}
        for root, warm in (("main_b.jst", ["main_a.jst"]), ("main_a.jst", ["main_b.jst"]), ("main_b.jst", ["main_c.jst", "main_a.jst"])):
            shared.append(({"id": "sh%d_%s_solo" % (k, root[:6] + str(len(warm))), "files": ff, "root": root},
                           {"id": "sh%d_%s_warm" % (k, root[:6] + str(len(warm))), "files": ff, "root": root, "warm": warm}, stagekind, root, warm))
    sobs = harness("run", [x[0] for x in shared] + [x[1] for x in shared], nproc=3)
    for solo_c, warm_c, stagekind, root, warm in shared:
        a, b = sobs[solo_c["id"]], sobs[warm_c["id"]]
        chk.evaluations += 1
        chk.traces += 1
        chk.nontrivial.add(warm_c["id"])
        def key(o):      # "full" spells the include chain with the absolute paths of the scratch directory
            e = dict(o.get("err") or {})
            e.pop("full", None)
            e.pop("full2", None)
            return (o["outcome"], json.dumps(e, sort_keys=True), o.get("json"))
        ka, kb = key(a), key(b)
        if ka != kb:
            sig = {"kind": "after_other_project", "msg": ((a.get("err") or {}).get("msg") or "")[:60], "what": "differs after another project", "detail": ""}
            chk.violation("result of %s differs when %s were processed before it in the same process (fault found at %s): alone %s trace %s, after them %s trace %s" % (
                root, warm, stagekind, rel.describe(a), (a.get("err") or {}).get("trace"), rel.describe(b), (b.get("err") or {}).get("trace")),
                {"kind": "determinism_warm", "case": warm_c, "observed_alone": a, "observed_after": b, "signature": sig}, sig)
    # asking a diagnostic for its text twice gives the same text: faults at the bottom of INCLUDE chains of depth 0..8
    chains = []
    for depth in range(9):
        for k, fault in enumerate(["GET /zf\n  200 @nosuch\n", "TYPE @zbad\n{\n", "GET /zf\n  Bogus\n", "TYPE @zd any\nTYPE @zd any\n"]):
            files = {"main.jst": "JSIGHT 0.3\nTYPE @zm any\n" + ("INCLUDE c1.jst\n" if depth else fault)}
            for d in range(1, depth + 1):
                files["c%d.jst" % d] = "TYPE @zc%d any\n" % d + ("INCLUDE c%d.jst\n" % (d + 1) if d < depth else fault)
            chains.append({"id": "ch%d_%d" % (depth, k), "files": {kk: b64(v) for kk, v in files.items()}, "root": "main.jst"})
    cobs = harness("run", chains, nproc=2)
    for c in chains:
        o = cobs[c["id"]]
        chk.evaluations += 1
        chk.traces += 1
        chk.nontrivial.add(c["id"])
        e = o.get("err") or {}
        if o["outcome"] != "error" or e.get("full") != e.get("full2"):
            sig = {"kind": "error_text_twice", "msg": (e.get("msg") or "")[:60], "what": "the text of one diagnostic differs when asked twice", "detail": ""}
            chk.violation("a fault below %s nested INCLUDEs: %s; Error() gave %r and then %r" % (c["id"][2], rel.describe(o), e.get("full"), e.get("full2")),
                          {"kind": "determinism_error_twice", "case": c, "signature": sig}, sig)
    # the same project many times in a process that may hold only 96 open files and never collects garbage: a project with
    # 40 included files read 12 times gives the same result every time
    incs = {"inc/f%02d.jst" % k: "TYPE @zinc%d any\n" % k for k in range(40)}
    big = {"main.jst": "JSIGHT 0.3\n" + "".join("INCLUDE %s\n" % f for f in sorted(incs)) + "GET /zx\n  200 any\n"}
    big.update(incs)
    nested = {"main.jst": "JSIGHT 0.3\nINCLUDE n/a.jst\nGET /zy\n  200 any\n", "n/a.jst": "TYPE @zn1 any\nINCLUDE b.jst\n", "n/b.jst": "TYPE @zn2 any\nINCLUDE c/c.jst\n",
              "n/c/c.jst": "TYPE @zn3 any\n"}
    fobs = harness("run", [{"id": "fd_many", "files": {k: b64(v) for k, v in big.items()}, "root": "main.jst", "reps": 12},
                           {"id": "fd_nested", "files": {k: b64(v) for k, v in nested.items()}, "root": "main.jst", "reps": 60}],
                   nproc=1, env=dict(os.environ, VERIF_NOFILE="96"))
    for cid in ("fd_many", "fd_nested"):
        o = fobs[cid]
        chk.evaluations += o.get("reps", 1)
        chk.traces += 1
        chk.nontrivial.add(cid)
        if o.get("rep_diff") or o["outcome"] != "ok":
            sig = {"kind": "repetition", "msg": ((o.get("err") or {}).get("msg") or "")[:60], "what": "repetition in one process differs", "detail": "few-file-descriptors"}
            chk.violation("a project with included files processed repeatedly in one process (at most 96 open files, no garbage collection): %s %s" % (
                rel.describe(o), o.get("rep_diff", "")[:300]), {"kind": "determinism_fd", "case": cid, "signature": sig}, sig)
    import base64
    for n, (kind, t) in enumerate(texts):
        cid = "d%d" % n
        chk.evaluations += 1
        chk.traces += 1
        chk.nontrivial.add(t)
        a, b, c = obs1[cid], obs2["x" + cid], obs3["y" + cid]
        bad = None
        if "timeout" in (a["outcome"], b["outcome"], c["outcome"]):
            # a deadline miss on a loaded machine says nothing about determinism (hangs are C01's subject)
            chk.extra["runs_skipped_for_deadline"] = chk.extra.get("runs_skipped_for_deadline", 0) + 1
            continue
        if a.get("rep_diff"):
            bad = "repetition in one process differs: first run %s, later run %s" % (rel.describe(a), a["rep_diff"][:400])
        else:
            for other in (b, c):
                ka = (a["outcome"], json.dumps(a.get("err"), sort_keys=True), a.get("json"))
                ko = (other["outcome"], json.dumps(other.get("err"), sort_keys=True), other.get("json"))
                if ka != ko:
                    bad = "fresh process differs: %s / %s vs %s / %s" % (rel.describe(a), (a.get("err") or {}).get("index"),
                                                                        rel.describe(other), (other.get("err") or {}).get("index"))
        if bad:
            msg = (a.get("err") or {}).get("msg", "")
            sig = {"kind": kind, "msg": msg[:60], "what": bad.split(":")[0], "detail": ""}
            # input class: which of several undefined type names is reported
            others = [(x.get("err") or {}).get("msg", "") for x in (b, c)]
            if a.get("rep_diff"):
                try:
                    others.append((json.loads(a["rep_diff"]).get("err") or {}).get("msg", ""))
                except ValueError:
                    pass
            sig["detail"] = undefined_choice([msg] + others, t)
            chk.violation("%s | document (%s):\n%s" % (bad, kind, t[:900]),
                          {"kind": "determinism", "doc_kind": kind, "file": t, "observed": a, "signature": sig}, sig)
    for g in groups:
        o = obs4[g["id"]]
        chk.evaluations += o["runs"]
        for d in o["diffs"]:
            dd = json.loads(d)
            what = "concurrent run differs"
            if dd.get("solo") == "ok" and dd.get("concurrent") == "ok" and rel.strip_examples(dd["solo_json"]) == rel.strip_examples(dd["conc_json"]):
                what = "example-only"
            sig = {"kind": "concurrent", "msg": ((dd.get("solo_err") or {}).get("msg") or "")[:60], "what": what, "detail": ""}
            cidx = dd.get("case", "")
            if cidx.startswith("so"):
                cidx = cidx[2:]
            if cidx.startswith("d") and cidx[1:].isdigit() and int(cidx[1:]) < len(texts):
                sig["detail"] = undefined_choice([(dd.get("solo_err") or {}).get("msg") or "", (dd.get("conc_err") or {}).get("msg") or ""],
                                                 texts[int(cidx[1:])][1])
            dd.pop("solo_json", None)
            dd.pop("conc_json", None)
            chk.violation("result while other projects are processed concurrently differs from the solo result (%s): %s" % (what, json.dumps(dd)[:500]),
                          {"kind": "determinism_conc", "diff": dd, "signature": sig}, sig)
    chk.extra["repetitions_per_document"] = K
    chk.extra["documents"] = len(texts)
    chk.sample({"document_kinds": sorted(set(k for k, _ in texts)), "example": texts[-1][1][:300]})
    chk.rule = ("documents: TLC-generated valid and multi-fault documents, plus hand-written documents with >= 2 entries in "
                "each hashed collection; each run K times in one process, in 2 fresh processes and concurrently; distinct = distinct texts")
    chk.assumptions += ["Go randomises map iteration per range statement, so K in-process repetitions sample iteration orders"]
    return chk.finish()


def replay(path):
    rp = json.load(open(path))["replay"]
    chk = Check("C03", "quick")
    chk.evaluations = 1
    if rp.get("kind") == "determinism_error_twice":
        o = harness("run", [rp["case"]])[rp["case"]["id"]]
        e = o.get("err") or {}
        if e.get("full") != e.get("full2"):
            chk.violation("reproduced: Error() gave %r and then %r" % (e.get("full"), e.get("full2")), rp, rp.get("signature"))
        return chk.finish()
    if rp.get("kind") == "determinism_warm":
        c = rp["case"]
        obs = harness("run", [dict(c, id="solo", warm=[]), dict(c, id="warm")], nproc=1)
        strip = lambda o: (o["outcome"], json.dumps({k: v for k, v in (o.get("err") or {}).items() if k not in ("full", "full2")}, sort_keys=True), o.get("json"))
        if strip(obs["solo"]) != strip(obs["warm"]):
            chk.violation("reproduced: alone %s, after other projects %s" % (rel.describe(obs["solo"]), rel.describe(obs["warm"])), rp, rp.get("signature"))
        return chk.finish()
    o = harness("run", [dict(rel.case("a", rp["file"]), reps=60)])["a"]
    if o.get("rep_diff"):
        chk.violation("reproduced: %s vs %s" % (rel.describe(o), o["rep_diff"][:300]), rp, rp.get("signature"))
    return chk.finish()
