"""Drivers over the repository's own fixture corpus (testdata/) and the table conformance."""
import json
import os

import common
from common import Inconclusive, b64, harness, tlc, tlc_ok

KW_TYPE, PARAM_TYPE, OPEN_TYPE, CLOSE_TYPE = 0, 1, 6, 7


def check_tables(chk):
    """The spec's vocabulary tables against the real public functions, cell by cell."""
    r = tlc_ok(tlc("MCVocab", "MCVocab.cfg", workers=1, timeout=120), "MCVocab")
    if not r.mbt:
        raise Inconclusive("MCVocab exported nothing")
    spec = r.mbt[0]
    import subprocess
    real = json.loads(subprocess.run([common.VH, "tables"], capture_output=True, check=True).stdout)
    cells = 0
    diffs = []
    if spec["kinds"] != real["kinds"]:
        diffs.append("kind list differs: spec %s real %s" % (spec["kinds"], real["kinds"]))
    if sorted(spec["root"]) != sorted(real["root"]):
        diffs.append("root-admissible kinds differ: spec-only %s real-only %s" % (
            sorted(set(spec["root"]) - set(real["root"])), sorted(set(real["root"]) - set(spec["root"]))))
    if sorted(spec["http"]) != sorted(real["http"]):
        diffs.append("http method kinds differ")
    for p in spec["kinds"]:
        for c in spec["kinds"]:
            cells += 1
            s = c in spec["admits"].get(p, [])
            rr = c in real["admits"].get(p, [])
            if s != rr:
                diffs.append("Admits(%s,%s): spec %s real %s" % (p, c, s, rr))
    chk.extra["table_cells_compared"] = cells + len(spec["kinds"]) * 2
    chk.extra["table_differences"] = diffs[:10]
    # A table difference is not by itself a property violation (the table is data of the
    # implementation); it means spec and code drifted, so design-level results no longer
    # transfer.  The replayed documents decide; the difference is reported prominently.
    if diffs:
        print("NOTE: vocabulary tables of spec and code differ (%d cells): %s" % (len(diffs), diffs[:3]))
    return diffs


def fixture_files():
    root = os.path.join(common.REPO, "testdata")
    res = []
    for d, _, ff in os.walk(root):
        for f in ff:
            if f.endswith(".jst"):
                res.append(os.path.join(d, f))
    res.sort()
    return res


def symbolise(data, lexemes):
    """lexeme stream -> (symbol doc, begins, nextpos); None if INCLUDE is involved"""
    doc, begins = [], []
    for (t, b, e) in lexemes:
        if t == KW_TYPE:
            kw = data[b:e + 1].decode("latin1")
            if kw == "INCLUDE":
                return None
            if kw.isdigit():
                kw = "HTTP-response-code"
            doc.append({"t": "kw", "k": kw, "p": False})
            begins.append(b)
        elif t == PARAM_TYPE:
            if doc and doc[-1]["t"] == "kw" and doc[-1]["k"] in ("GET", "POST", "PUT", "PATCH", "DELETE"):
                doc[-1]["p"] = True
        elif t == OPEN_TYPE:
            doc.append({"t": "open", "k": "", "p": False})
            begins.append(b)
        elif t == CLOSE_TYPE:
            doc.append({"t": "close", "k": "", "p": False})
            begins.append(b)
    nextpos = []
    for i in range(len(doc)):
        nx = len(data) + 1
        for j in range(i + 1, len(doc)):
            if doc[j]["t"] != "open":
                nx = begins[j]
                break
        nextpos.append(nx)
    return doc, begins, nextpos


def tree_records(inputs):
    """inputs: list of (id, bytes). Runs the real scanner and the real scan stage and
    projects both into the record format of TraceTree."""
    lexcases = [{"id": i, "b64": b64(d)} for i, d in inputs]
    lex = harness("lex", lexcases)
    runcases = [{"id": i, "files": {"main.jst": b64(d)}, "root": "main.jst", "want": ["forest"]} for i, d in inputs]
    run = harness("run", runcases)
    recs = []
    skipped = 0
    for i, d in inputs:
        lo, ro = lex[i], run[i]
        if lo.get("panic") or ro["outcome"] in ("panic", "fatal", "timeout", "readerr"):
            skipped += 1
            continue
        sym = symbolise(d, [tuple(x) for x in lo["lex"]])
        if sym is None or not sym[0] or len(sym[0]) > 400:
            skipped += 1
            continue
        doc, begins, nextpos = sym
        scanned = "scan" in ro["stages"]
        if not scanned and lo["err_idx"] >= 0:
            # scanner (lexical) error: the symbol sequence is only a prefix; the tree builder
            # saw exactly this prefix and then the lexical diagnostic. Keep it: it is a
            # pre-empting diagnostic at err_idx.
            pass
        par = [-1] * len(doc)
        erridx = 0
        if scanned:
            real = {}

            def rec(n, parent):
                real[n["b"]] = parent
                for c in n["c"]:
                    rec(c, n["b"])
            for n in ro.get("forest") or []:
                rec(n, None)
            b2i = {b: k + 1 for k, b in enumerate(begins) if doc[k]["t"] == "kw"}
            ok = True
            for k, it in enumerate(doc):
                if it["t"] == "kw":
                    if begins[k] not in real:
                        ok = False
                        break
                    rp = real[begins[k]]
                    par[k] = 0 if rp is None else b2i.get(rp, -2)
            if not ok or len(real) != len(b2i):
                par = [-3] * len(doc)   # forest and lexeme stream disagree: TLC will flag it
        else:
            erridx = (ro.get("err") or {}).get("index", 0)
        recs.append({"id": i, "doc": doc, "scanned": scanned, "par": par, "erridx": erridx,
                     "begins": begins, "nextpos": nextpos, "multi": False})
    return recs, skipped


def project_records(roots):
    """Fixtures that use INCLUDE: the symbol sequence of the whole project with file boundaries ("fb" where an
    INCLUDE line stands, "fe" where the included file ends), stitched from the real lexeme streams of the files,
    together with the real forest.  roots: list of absolute paths.  Only the verdict and the parents are judged
    (multi = TRUE): byte positions belong to several files."""
    import posixpath
    recs, skipped = [], 0
    for root in roots:
        base = os.path.dirname(root)
        contents = {}
        lexes = {}

        def load(rel):
            if rel in contents:
                return True
            p = os.path.join(base, rel)
            if not os.path.isfile(p):
                return False
            contents[rel] = open(p, "rb").read()
            o = harness("lex", [{"id": rel, "b64": b64(contents[rel])}])[rel]
            if o.get("panic") or o["err_idx"] >= 0:
                return False
            lexes[rel] = [tuple(x) for x in o["lex"]]
            return True
        doc, keys = [], []
        ok = True

        def walk(rel, depth):
            nonlocal ok
            if depth > 6 or not load(rel):
                ok = False
                return
            data, lx = contents[rel], lexes[rel]
            k = 0
            while k < len(lx) and ok:
                t, b, e = lx[k]
                if t == KW_TYPE:
                    kw = data[b:e + 1].decode("latin1")
                    if kw == "INCLUDE":
                        if k + 1 >= len(lx) or lx[k + 1][0] != PARAM_TYPE:
                            ok = False
                            return
                        pb, pe = lx[k + 1][1], lx[k + 1][2]
                        name = data[pb:pe + 1].decode("latin1").strip('"')
                        doc.append({"t": "fb", "k": "", "p": False})
                        keys.append((rel, b))
                        walk(posixpath.normpath(posixpath.join(posixpath.dirname(rel), name)), depth + 1)
                        doc.append({"t": "fe", "k": "", "p": False})
                        keys.append((rel, b))
                        k += 2
                        continue
                    doc.append({"t": "kw", "k": "HTTP-response-code" if kw.isdigit() else kw, "p": False})
                    keys.append((rel, b))
                elif t == PARAM_TYPE:
                    if doc and doc[-1]["t"] == "kw" and doc[-1]["k"] in ("GET", "POST", "PUT", "PATCH", "DELETE"):
                        doc[-1]["p"] = True
                elif t == OPEN_TYPE:
                    doc.append({"t": "open", "k": "", "p": False})
                    keys.append((rel, b))
                elif t == CLOSE_TYPE:
                    doc.append({"t": "close", "k": "", "p": False})
                    keys.append((rel, b))
                k += 1
        rootrel = os.path.basename(root)
        walk(rootrel, 0)
        if not ok or not doc or len(doc) > 400:
            skipped += 1
            continue
        ff = {rel: b64(c) for rel, c in contents.items()}
        ro = harness("run", [{"id": "p", "files": ff, "root": rootrel, "want": ["forest"]}])["p"]
        if ro["outcome"] in ("panic", "fatal", "timeout", "readerr"):
            skipped += 1
            continue
        scanned = "scan" in ro["stages"]
        par = [-1] * len(doc)
        if scanned:
            real = {}

            def rec(n, parent):
                key = (n.get("f") or rootrel, n["b"])
                real[key] = parent
                for c in n["c"]:
                    rec(c, key)
            for n in ro.get("forest") or []:
                rec(n, None)
            # one file included twice gives two nodes with one (file, begin): such projects are not judged here
            kwkeys = [keys[k] for k, it in enumerate(doc) if it["t"] == "kw"]
            if len(set(kwkeys)) != len(kwkeys):
                skipped += 1
                continue
            k2i = {keys[k]: k + 1 for k, it in enumerate(doc) if it["t"] == "kw"}
            good = True
            for k, it in enumerate(doc):
                if it["t"] == "kw":
                    if keys[k] not in real:
                        good = False
                        break
                    rp = real[keys[k]]
                    par[k] = 0 if rp is None else k2i.get(rp, -2)
            if not good or len(real) != len(k2i):
                par = [-3] * len(doc)
        recs.append({"id": os.path.relpath(root, common.REPO), "doc": doc, "scanned": scanned, "par": par, "erridx": 0,
                     "begins": list(range(1, len(doc) + 1)), "nextpos": list(range(2, len(doc) + 2)), "multi": True})
    return recs, skipped


def validate_tree_traces(chk, limit=None, extra_inputs=None):
    files = fixture_files()
    sd = common.seed()
    if limit and len(files) > limit:
        import random
        rnd = random.Random(sd)
        files = rnd.sample(files, limit)
    inputs = [(os.path.relpath(f, common.REPO), open(f, "rb").read()) for f in files]
    inputs += extra_inputs or []
    recs, skipped = tree_records(inputs)
    inc_roots = [f for f in fixture_files() if b"INCLUDE" in open(f, "rb").read()]
    precs, pskipped = project_records(inc_roots)
    chk.extra["fixture_projects_with_include"] = {"validated": len(precs), "skipped": pskipped}
    recs += precs
    if not recs:
        raise Inconclusive("no fixture traces recorded")
    nd = "\n".join(json.dumps(r) for r in recs) + "\n"
    r = tlc_ok(tlc("TraceTree", "TraceTree.cfg", workers=1, files={"tree_traces.ndjson": nd}, timeout=1800), "TraceTree")
    if r.states < len(recs):
        raise Inconclusive("TraceTree consumed %d of %d traces" % (r.states, len(recs)))
    chk.add_tlc(r)
    chk.traces += len(recs)
    chk.extra["fixture_traces_validated"] = len(recs)
    chk.extra["fixture_traces_skipped"] = skipped
    by_id = {x["id"]: x for x in recs}
    for m in r.mbt:
        rec = by_id[m["id"]]
        chk.violation("recorded scan-stage behaviour on %s contradicts the declarative placement rule: TLC expects %s" % (
            m["id"], json.dumps(m["want"])[:300]),
            {"kind": "tree_trace", "input": m["id"], "record": rec, "expected": m["want"],
             "expected_from": "TraceTree!Consistent"}, {"devs": "trace", "matches_impl": "unknown"})
    if recs:
        chk.sample({"fixture_trace": recs[0]["id"], "symbols": len(recs[0]["doc"]), "scanned": recs[0]["scanned"]})
    return len(recs)
