"""C17 Parameters round-trip: what is written, quoted or bare, is what the catalog has.

(1) Function level: the real unescape function (verif export) is evaluated on the quoted
    spelling of EVERY string over the stress alphabet up to the bound; TLC judges the
    implementation's table: unescape(quote(v)) = v, and the bare spelling of a value that
    needs no quotes means v too (JSightText!UnescapeJudge).
(2) End to end: each value, quoted, in every parameter-taking position (Title, Version,
    BaseUrl, Query example, URL path, method path, JSON-RPC method name); the catalog field
    must hold exactly the value.  Bare spelling where no quotes are needed: same result.
(3) An unterminated quote and a backslash before any other character must be rejected at
    that byte (positions computed from the spelling)."""
import json
import random

import rel
import textfn
from common import Check, b64, harness, seed

ALPHA_Q = ["\\", '"', "a", " ", "#", "/", "*", "@"]
ALPHA_T = ["\\", '"', "a", " ", "#", "/", "*", "@", "[", "]", "\t", "é", "%", "?", "&", "+"]
# values that look like URL syntax: the library must not interpret them
URLISH = ["a\\u0026b", "\\u003cb\\u003e", "x\\u0026", "\\n", "a\\tb", "\\u00e9", "\\\\u0026", "&amp;", "<b>", "a%20b", "a%2Fb", "100%", "q?x=1", "a%zz", "a+b", "x&y=1", "%41", "a%2fb/{id}", "?", "a?", "%2e%2e"]


def quote(v):
    return '"' + v.replace("\\", "\\\\").replace('"', '\\"') + '"'


def needs_no_quotes(v):
    return v != "" and not any(c in v for c in ' \t"#') and not (v.startswith("//") or v.startswith("/*"))


# what may follow a parameter on its line without being part of it
TAILS = ["", "\t", "\t# c", " \t ", "  # c", "\t\t"]
TAILMARK = "\x00TAIL\x00"


def hosts(v, tail=""):
    """(host name, document text, function extracting the field from the catalog JSON); tail: blanks / a comment written
    right after the parameter"""
    return [(h, t.replace(TAILMARK, tail), g) for h, t, g in _hosts(v)]


def _hosts(v):
    q = quote(v) + TAILMARK
    res = [
        ("title", 'JSIGHT 0.3\nINFO\n  Title %s\n' % q, lambda c: c["info"]["title"]),
        ("version", 'JSIGHT 0.3\nINFO\n  Version %s\n' % q, lambda c: c["info"]["version"]),
        ("baseurl", 'JSIGHT 0.3\nSERVER @s\n  BaseUrl %s\n' % q, lambda c: c["servers"]["@s"]["baseUrl"]),
        ("query_example", 'JSIGHT 0.3\nGET /q\n  Query %s\n  {\n    "a": 1\n  }\n  200 any\n' % q,
         lambda c: next(iter(c["interactions"].values()))["query"]["example"]),
        ("rpc_method", 'JSIGHT 0.3\nURL /rpc\n  Protocol json-rpc-2.0\n  Method %s\n    Result\n    {}\n' % q,
         lambda c: next(iter(c["interactions"].values()))["method"]),
    ]
    pv = "/" + v
    res.append(("url_path", 'JSIGHT 0.3\nURL %s\n  GET\n    200 any\n' % (quote(pv) + TAILMARK), lambda c: next(iter(c["interactions"].values()))["path"]))
    res.append(("method_path", 'JSIGHT 0.3\nGET %s\n  200 any\n' % (quote(pv) + TAILMARK), lambda c: next(iter(c["interactions"].values()))["path"]))
    return res


def main(tier):
    chk = Check("C17", tier)
    thorough = tier == "thorough"
    rnd = random.Random(seed())
    # (1) function table judged by TLC
    maxlen = 5 if thorough else 4
    ins = list(textfn.all_strings(ALPHA_Q, maxlen))
    outs = textfn.text_rows("unescape", [quote(v) for v in ins])
    alts = textfn.text_rows("unescape", ins)
    rows = []
    for v, o, a in zip(ins, outs, alts):
        rows.append({"in": textfn.enc(v), "out": textfn.enc(textfn.unb64(o["out"]).decode("utf-8", "surrogateescape")),
                     "alt": textfn.enc(textfn.unb64(a["out"]).decode("utf-8", "surrogateescape")), "err": False,
                     "panic": bool(o.get("panic") or a.get("panic"))})
    for rep in textfn.judge(chk, "unescape", ALPHA_Q, maxlen, rows, "unescape_table"):
        v = ins[rep["row"] - 1] if rep["row"] else ""
        sig = {"level": "function", "what": rep["why"], "cls": classify(v)}
        chk.violation("unescape of %s gives %r: %s" % (quote(v), textfn.dec(rows[rep["row"] - 1]["out"]) if rep["row"] else "", rep["why"]),
                      {"kind": "unescape", "value": v, "spelling": quote(v), "why": rep["why"], "signature": sig}, sig)
    chk.nontrivial.update("fn:" + v for v in ins[:3000])
    # (2) end to end
    vals = [v for v in textfn.all_strings(ALPHA_T, 3 if thorough else 2) if v != ""]
    vals += ["".join(rnd.choice(ALPHA_T) for _ in range(rnd.randrange(4, 12))) for _ in range(400 if thorough else 60)]
    vals += URLISH
    cases, meta = [], {}
    n = 0
    for v in vals:
        if v.strip() != v or v == "":      # leading/trailing blanks inside quotes are content; keep them too
            pass
        tail = TAILS[(n // 7) % len(TAILS)] if (thorough or len(v) <= 1 or n % 3 == 0) else ""
        for host, text, get in hosts(v, tail):
            cid = "h%d" % n
            n += 1
            cases.append(rel.case(cid, text))
            meta[cid] = (v, host, text, get, "quoted")
            spelled = ("/" + v) if host in ("url_path", "method_path") else v
            if needs_no_quotes(v) and needs_no_quotes(spelled) and host not in ("query_example",):
                bare_text = text.replace(quote(v) if host not in ("url_path", "method_path") else quote("/" + v),
                                         v if host not in ("url_path", "method_path") else "/" + v)
                cid2 = "h%d" % n
                n += 1
                cases.append(rel.case(cid2, bare_text))
                meta[cid2] = (v, host, bare_text, get, "bare")
    # (3) rejections at the byte
    rej = []
    for v in ['a', 'a\\\\b', '']:
        for host in ("Title", "Version"):
            t = 'JSIGHT 0.3\nINFO\n  %s "%s\n' % (host, v)           # unterminated: newline inside quotes
            rej.append(("unterminated_nl", t, t.index('"' + v) + 1 + len(v)))
            t2 = 'JSIGHT 0.3\nINFO\n  %s "%s' % (host, v)            # unterminated at end of input
            rej.append(("unterminated_eof", t2, len(t2)))
    for c in "anrt0 u/'#":
        t = 'JSIGHT 0.3\nINFO\n  Title "a\\%sb"\n' % c
        rej.append(("backslash_" + c, t, t.index("\\") + 1))
    for k, (nm, t, pos) in enumerate(rej):
        cid = "x%d" % k
        cases.append(rel.case(cid, t))
        meta[cid] = (nm, "reject", t, pos, "reject")
    # type / notation parameters: a value that needs no quotes means the same with or without them
    pairs = []
    for kw, follow in (("200", "  404 any\n"), ("Request", "  200 any\n"), ("200", "    Headers\n    {\n      \"h\": 1\n    }\n")):
        for par in ("@cat", "[@cat]", "any", "empty"):
            doc = 'JSIGHT 0.3\nTYPE @cat\n{\n  "a": 1\n}\nGET /x\n  %s %s\n%s' + ("  200 any\n" if kw == "Request" else "")
            pairs.append((kw + " " + par, doc % (kw, par, follow), doc % (kw, '"%s"' % par, follow)))
    for par in ("@cat", "[@cat]", "any", "regex"):
        body = "\n/a/" if par == "regex" else ""
        d = 'JSIGHT 0.3\nTYPE @cat\n{\n  "a": 1\n}\nPOST /y\n  Request\n    Body %s' + body + '\n  201\n    Body %s' + body + '\n  200 any\n'
        pairs.append(("Body " + par, d % (par, par), d % ('"%s"' % par, '"%s"' % par)))
    for k, (nm, bare, quoted) in enumerate(pairs):
        cases.append(rel.case("tb%d" % k, bare))
        cases.append(rel.case("tq%d" % k, quoted))
    obs = harness("run", cases)
    for k, (nm, bare, quoted) in enumerate(pairs):
        a, b = obs["tb%d" % k], obs["tq%d" % k]
        chk.evaluations += 1
        chk.nontrivial.add("typeparam:" + nm)
        if rel.result_key(a) != rel.result_key(b):
            sig = {"level": "end-to-end", "host": "type-parameter", "mode": "quoted-vs-bare", "cls": nm}
            chk.violation("parameter %r means something else when quoted: bare %s, quoted %s | quoted document:\n%s" % (
                nm, rel.describe(a), rel.describe(b), quoted), {"kind": "param_pair", "bare": bare, "file": quoted, "signature": sig}, sig)
    for cid, (v, host, text, get, mode) in meta.items():
        o = obs[cid]
        chk.evaluations += 1
        chk.traces += 1
        chk.nontrivial.add(mode + host + str(v))
        bad = None
        if mode == "reject":
            pos = get
            if o["outcome"] != "error":
                bad = "%s must be rejected, observed %s" % (v, rel.describe(o))
            elif o["err"]["index"] != pos:
                bad = "%s must be rejected at byte %d, diagnostic is at byte %d (%r)" % (v, pos, o["err"]["index"], o["err"]["msg"])
            sig = {"level": "reject", "what": str(v).rstrip("0123456789"), "cls": ""}
        else:
            sig = {"level": "end-to-end", "host": host, "mode": mode, "cls": classify(v)}
            if o["outcome"] != "ok":
                # values the language cannot carry in this position (e.g. '{' in a path) are not round-trip failures
                if o["outcome"] == "error":
                    continue
                bad = "value %r in %s (%s): %s" % (v, host, mode, rel.describe(o))
            else:
                try:
                    got = get(json.loads(o["json"]))
                except Exception as e:
                    got = "<missing: %s>" % e
                want = v if host not in ("url_path", "method_path") else "/" + v
                if got != want:
                    bad = "value %r written %s in %s is %r in the catalog" % (want, mode, host, got)
        if bad:
            chk.violation(bad + " | document:\n" + text, {"kind": "param", "value": v, "host": host, "mode": mode, "file": text,
                                                          "observed": o, "signature": sig}, sig)
    chk.sample({"value": vals[5], "spelling": quote(vals[5]), "hosts": [h[0] for h in hosts("x")]})
    chk.rule = ("function table: all strings <= %d over %r; end to end: all strings <= %d over the 12-character stress alphabet "
                "plus random longer ones, in 7 parameter positions, quoted and (where allowed) bare; rejection positions" % (
                    maxlen, "".join(ALPHA_Q), 3 if thorough else 2))
    chk.assumptions += ["quote(v) escapes exactly '\"' and '\\\\' with a backslash, as the property says"]
    return chk.finish()


def classify(v):
    """input class of a value, used only to name known findings precisely"""
    if "\\\\" in v or '\\"' in v:
        return "backslash-before-backslash-or-quote"
    if "\t" in v:
        return "raw-tab"
    if "\\" in v:
        return "backslash"
    return "other"


def replay(path):
    rp = json.load(open(path))["replay"]
    chk = Check("C17", "quick")
    chk.evaluations = 1
    if rp["kind"] == "unescape":
        o = textfn.text_rows("unescape", [rp["spelling"]])[0]
        got = textfn.unb64(o["out"]).decode("utf-8", "surrogateescape")
        if got != rp["value"]:
            chk.violation("reproduced: unescape(%s) = %r" % (rp["spelling"], got), rp, rp.get("signature"))
    else:
        o = harness("run", [rel.case("a", rp["file"])])["a"]
        print("now:", rel.describe(o), (o.get("json") or "")[:300])
    return chk.finish()
