import argparse
import importlib
import os
import sys

sys.path.insert(0, os.path.dirname(os.path.abspath(__file__)))
import common  # noqa: E402


def main():
    ap = argparse.ArgumentParser()
    ap.add_argument("pid")
    ap.add_argument("--tier", default=os.environ.get("VERIF_TIER", "quick"))
    ap.add_argument("--replay", default=None)
    a = ap.parse_args()
    if a.pid == "setup":
        import setup
        return setup.main()
    if a.pid == "selftest":
        import selftest
        return selftest.main(a.tier)
    mod = importlib.import_module(a.pid.lower())
    common.build_harness()
    if a.replay:
        return mod.replay(a.replay)
    return mod.main(a.tier)


if __name__ == "__main__":
    common.main_wrapper(main)
