"""C09 Accepted means serialisable: valid, duplicate-free, self-consistent JSON.

V binding: every accepted run of every driver (the repository's fixtures and seeded
mutations of them, TLC-generated API documents, documents with stress names) is projected
into a flat record and handed to TLC, which evaluates the self-consistency predicate of the
property (spec/TraceCatalog.tla) on the implementation's own output."""
import json
import os
import random

import apidoc
import c04
import common
import fixtures
import rel
from common import Check, Inconclusive, b64, harness, seed, tlc, tlc_ok


def walk_schema(s, used, enums):
    """collect type and enum names a catalog schema refers to"""
    if not isinstance(s, apidoc.Obj):
        return
    for n in s.get("usedUserTypes") or []:
        used.append(n)
    for n in s.get("usedUserEnums") or []:
        enums.append(n)

    def content(c):
        if not isinstance(c, apidoc.Obj):
            return
        if c.get("tokenType") == "reference":
            for t in str(c.get("scalarValue", "")).split(" | "):
                if t.startswith("@"):
                    used.append(t)
        for r in c.get("rules") or []:
            rules(r)
        for ch in c.get("children") or []:
            content(ch)

    def rules(r):
        if not isinstance(r, apidoc.Obj):
            return
        if r.get("key") == "enum" and r.get("tokenType") == "reference":
            enums.append(r.get("scalarValue"))
        if r.get("key") in ("type", "allOf") and str(r.get("scalarValue", "")).startswith("@"):
            used.append(r.get("scalarValue"))
        for ch in r.get("children") or []:
            if r.get("key") == "allOf" and isinstance(ch, apidoc.Obj) and str(ch.get("scalarValue", "")).startswith("@"):
                used.append(ch.get("scalarValue"))
            rules(ch)
    content(s.get("content"))


def flat(cid, o):
    """accepted observation -> record for TraceCatalog"""
    text = o["json"]
    try:
        val, dups = apidoc.parse_pairs(text)
    except ValueError as e:
        return {"id": cid, "invalid_json": str(e)}
    utf8 = o.get("json_utf8", True) is not False          # judged by the harness on the bytes the library returned
    used, enums, bodies = [], [], []
    nobody = 0
    inters = []
    for key, it in (val.get("interactions").pairs if val.get("interactions") else []):
        proto = it.get("protocol", "")
        inters.append({"key": key, "id": it.get("id", ""), "proto": proto,
                       "method": it.get("httpMethod", "") if proto == "http" else it.get("method", ""),
                       "path": it.get("path", ""), "tags": list(it.get("tags") or [])})
        if proto == "http":
            rq = it.get("request")
            for part in ([rq] if rq is not None else []) + list(it.get("responses") or []):
                body = part.get("body")
                if body is None:
                    nobody += 1
                else:
                    sch = body.get("schema")
                    bodies.append({"format": body.get("format", ""), "notation": sch.get("notation", "") if sch else ""})
                    walk_schema(sch, used, enums)
                hd = part.get("headers")
                if hd is not None:
                    walk_schema(hd.get("schema"), used, enums)
            if it.get("query") is not None:
                walk_schema(it.get("query").get("schema"), used, enums)
            if it.get("pathVariables") is not None:
                walk_schema(it.get("pathVariables").get("schema"), used, enums)
        else:
            for k in ("params", "result"):
                if it.get(k) is not None:
                    walk_schema(it.get(k).get("schema"), used, enums)
    tags = []
    for key, t in (val.get("tags").pairs if val.get("tags") else []):
        groups = {g.get("protocol"): list(g.get("interactions") or []) for g in t.get("interactionGroups") or []}
        tags.append({"key": key, "name": t.get("name", ""), "http": groups.get("http", []), "rpc": groups.get("json-rpc-2.0", [])})
    typekeys = val.get("userTypes").keys() if val.get("userTypes") else []
    for _, t in (val.get("userTypes").pairs if val.get("userTypes") else []):
        walk_schema(t.get("schema"), used, enums)
    info = val.get("info")
    return {"id": cid, "dupkeys": dups, "utf8": utf8, "indent_ok": bool(o.get("indent_ok")), "inters": inters, "tags": tags,
            "typekeys": list(typekeys), "enumkeys": list(val.get("userEnums").keys()) if val.get("userEnums") else [],
            "usedtypes": sorted(set(used)), "usedenums": sorted(set(x for x in enums if x)), "bodies": bodies, "nobody": nobody,
            "title": o.get("title", ""), "info_title": (info.get("title", "") if info is not None else "")}


STRESS_SEGS = ['a b', 'ü', 'a"b', '%41', 'x\\y', 'a#b', "a'b", "a//b", "é è", "\xff\xfe"]


def stress_docs():
    """names, paths and method names containing spaces, quotes, non-ASCII, invalid UTF-8"""
    res = []

    def q(s):
        return '"' + s.replace("\\", "\\\\").replace('"', '\\"') + '"'
    for i, a in enumerate(STRESS_SEGS):
        for j, b in enumerate(STRESS_SEGS):
            if (i + j) % 3:
                continue
            res.append('JSIGHT 0.3\nINFO\n  Title %s\nGET %s\n  200 any\nURL %s\n  Protocol json-rpc-2.0\n  Method %s\n    Result\n    {}\n  Method %s\n    Result\n    {}\n'
                       % (q(a), q("/" + a + "/" + b), q("/" + b), q(a), q(b)))
    # JSON-RPC ids built from method name and path: a space in either makes two ids collide
    res.append('JSIGHT 0.3\nURL "/x /y"\n  Protocol json-rpc-2.0\n  Method "a"\n    Result\n    {}\nURL /y\n  Protocol json-rpc-2.0\n  Method "a /x"\n    Result\n    {}\n')
    res.append('JSIGHT 0.3\nURL "/p q"\n  GET\n    200 any\nGET "/p q"\n  200 any\n')
    # paths that differ only in empty segments are different strings: different ids, or one of them refused - never one key twice
    res.append('JSIGHT 0.3\nURL /pets/list\n  GET\n    200 any\nGET /pets//list\n  200 any\nGET /pets/list/\n  200 any\nGET //pets/list\n  200 any\n')
    res.append('JSIGHT 0.3\nURL /r//pc\n  Protocol json-rpc-2.0\n  Method m\n    Result\n    {}\nURL /r/pc\n  Protocol json-rpc-2.0\n  Method m\n    Result\n    {}\n')
    # two paths (type names, tag names) that differ only in a byte that is not valid UTF-8: JSON cannot carry the byte,
    # both become U+FFFD ("\xff" in these texts stands for the byte: the file is written in Latin-1)
    res.append('JSIGHT 0.3\nGET /a\xff\n  200 any\nGET /a\xfe\n  200 any\n')
    res.append('JSIGHT 0.3\nTYPE @t\xff any\nTYPE @t\xfe any\nGET /ok\n  200 @t\xff\n')
    # bytes that are not valid UTF-8 wherever a schema can hold text: notes, keys, values, type names, enum values
    res.append('JSIGHT 0.3\nTYPE @zcafe\n{\n  "cl\xe9": "val\xe9", // note \xe9\n  "n": 1, // not\xe9\n  "m": 2, // {min: 0}\n  "r": @zcafe // {optional: true}\n}\n'
               'ENUM @e\n[\n  "v\xe9", // n\xe9\n  2\n]\nGET /ok // ann\xe9\n  Description\n    d\xe9sc \xff\n  Query "q=\xe9"\n  {\n    "q": "v\xe9" // {enum: @e}\n  }\n  200 @zcafe\n')
    # tags with descriptions, declared before and after the interactions that carry them, at every level
    for order in (0, 1):
        tags = 'TAG @t1 // first\n  Description\n    text of t1\nTAG @t2\n  Description\n  (\n    text of t2\n  )\nTAG @t3\n'
        uses = ('GET /a\n  Tags @t1 @t3\n  200 any\nURL /u\n  Tags @t2\n  POST\n    200 any\n  PUT\n    Tags @t1\n    200 any\n'
                'URL /r\n  Protocol json-rpc-2.0\n  Method m\n    Tags @t2 @t3\n    Result\n    {}\nDELETE /d\n  200 any\n')
        res.append('JSIGHT 0.3\n' + (tags + uses if order == 0 else uses + tags))
    return res


def shape_docs():
    """requests and responses on the border of validity: every head form x every set of children.  Whatever
    is accepted must still be a self-consistent catalog (a body for every request and response)."""
    heads = ["", " any", " empty", " @t", " [@t]", " regex", " jsight"]
    kids = {
        "none": [],
        "headers": ["Headers", "{", '  "h": "v"', "}"],
        "body_any": ["Body any"],
        "body_obj": ["Body", "{", '  "b": 1', "}"],
        "body_regex": ["Body regex", "/ab+/"],
        "inline_obj": ["{", '  "i": 1', "}"],
        "inline_regex": ["/ab+/"],
        "headers_body": ["Headers", "{", '  "h": "v"', "}", "Body any"],
        "headers_inline": ["{", '  "i": 1', "}", "Headers", "{", '  "h": "v"', "}"],
        "headers_ref": ["Headers", "@t"],
        "two_headers_only": ["Headers", "{", '  "h": "v"', "}", "Description", "  text"],
    }
    res = []
    # the same heads with @t standing for a type of another notation / shape (declared before and after its use)
    for tdef in ('TYPE @t regex\n/ab+/\n', 'TYPE @t\n1\n', 'TYPE @t\n[1]\n', 'TYPE @t\n"s"\n', 'TYPE @t\n@u\nTYPE @u regex\n/a/\n'):
        for h in (" @t", " [@t]"):
            for before in (True, False):
                use = ("POST /a\n  Request%s\n  200%s\nURL /u\n  PUT\n    Request\n      Body%s\n    201\n      Body%s\n"
                       "URL /r\n  Protocol json-rpc-2.0\n  Method m\n    Params\n      @t\n    Result\n      @t\n") % (h, h, h, h)
                res.append("JSIGHT 0.3\n" + (tdef + use if before else use + tdef))
    pre = 'JSIGHT 0.3\nTYPE @t\n{\n  "id": 1\n}\n'
    for h in heads:
        for kn, kl in kids.items():
            body = "".join("    " + x + "\n" for x in kl)
            res.append(pre + "GET /a\n  201%s\n%s" % (h, body))
            res.append(pre + "POST /a\n  Request%s\n%s  200 any\n" % (h, body))
            res.append(pre + "URL /a\n  GET\n    200 any\n    404%s\n%s" % (h, body.replace("    ", "      ")))
    for params in ("", "    Params\n    {}\n", "    Params\n      @t\n"):
        for result in ("", "    Result\n    {}\n", "    Result any\n"):
            res.append(pre + "URL /r\n  Protocol json-rpc-2.0\n  Method m\n" + params + result)
    return res


def mutate(data, rnd):
    b = bytearray(data)
    for _ in range(rnd.randrange(1, 4)):
        if not b:
            break
        k = rnd.randrange(5)
        i = rnd.randrange(len(b))
        if k == 0:
            del b[i:i + rnd.randrange(1, 20)]
        elif k == 1:
            j = rnd.randrange(len(b))
            b[i:i] = b[j:j + rnd.randrange(1, 40)]
        elif k == 2:
            b[i] = rnd.choice(b' \n"@{}[]/#()abGETURL0123456789')
        elif k == 3:
            ln = bytes(b).split(b"\n")
            x = rnd.randrange(len(ln))
            y = rnd.randrange(len(ln))
            ln[x], ln[y] = ln[y], ln[x]
            b = bytearray(b"\n".join(ln))
        else:
            ln = bytes(b).split(b"\n")
            x = rnd.randrange(len(ln))
            ln.insert(rnd.randrange(len(ln)), ln[x])
            b = bytearray(b"\n".join(ln))
    return bytes(b)


def main(tier):
    chk = Check("C09", tier)
    sd = seed()
    rnd = random.Random(sd)
    thorough = tier == "thorough"
    cases = []
    files = fixtures.fixture_files()
    include_roots = [f for f in files]
    nmut = 6 if thorough else 1
    for n, f in enumerate(files):
        data = open(f, "rb").read()
        d = os.path.dirname(f)
        # fixtures may include sibling files: ship the whole directory
        sib = {}
        if b"INCLUDE" in data:
            for root, _, ff in os.walk(d):
                for x in ff:
                    if x.endswith(".jst"):
                        p = os.path.join(root, x)
                        sib[os.path.relpath(p, d)] = b64(open(p, "rb").read())
        name = os.path.basename(f)
        ff = dict(sib)
        ff[name] = b64(data)
        cases.append({"id": "fx%d" % n, "files": ff, "root": name})
        if not sib:
            for k in range(nmut):
                cases.append({"id": "mu%d_%d" % (n, k), "files": {name: b64(mutate(data, rnd))}, "root": name})
    docs = []
    for i, (num, mb) in enumerate([(4000, 5), (4000, 8)] if thorough else [(1000, 5), (800, 8)]):
        docs += c04.gen_docs(chk, num, mb, sd * 100 + 70 + i, workers=8 if thorough else 4)
    for n, m in enumerate(docs):
        try:
            cases.append(rel.case("g%d" % n, apidoc.render(m["doc"])[0]))
        except Exception:
            pass
    for n, t in enumerate(stress_docs() + shape_docs()):
        cases.append({"id": "st%d" % n, "files": {"main.jst": b64(t.encode("latin1") if "\xff" in t else t.encode())}, "root": "main.jst"})
    # sets of building blocks that share names and path prefixes (JSON-RPC next to HTTP on one prefix, tags at every level,
    # types of every notation as bodies ...): most are accepted
    import c01
    bp = c01.block_pairs(thorough, rnd)
    for n, (nm, t) in enumerate(bp if thorough else bp[sd % 3::3]):
        cases.append(rel.case("stb%d" % n, t))
    obs = harness("run", cases)
    recs = []
    texts = {c["id"]: c for c in cases}
    for cid, o in obs.items():
        chk.evaluations += 1
        if o["outcome"] != "ok":
            continue
        if o.get("json_err"):
            chk.violation("accepted project but serialisation failed: %s" % o["json_err"],
                          {"kind": "catalog", "case": texts[cid], "observed": o}, {"what": "serialisation failed"})
            continue
        r = flat(cid, o)
        if "invalid_json" in r:
            chk.violation("output is not valid JSON: %s" % r["invalid_json"], {"kind": "catalog", "case": texts[cid], "observed": o},
                          {"what": "invalid json"})
            continue
        recs.append(r)
    if not recs:
        raise Inconclusive("no accepted runs to validate")
    nd = "\n".join(json.dumps(r) for r in recs) + "\n"
    r = tlc_ok(tlc("TraceCatalog", "TraceCatalog.cfg", workers=1, files={"catalogs.ndjson": nd}, timeout=3000), "TraceCatalog")
    if r.states < len(recs):
        raise Inconclusive("TraceCatalog consumed %d of %d catalogs" % (r.states, len(recs)))
    chk.add_tlc(r)
    chk.traces += len(recs)
    for rc in recs:
        chk.nontrivial.add(rc["id"])
    for m in r.mbt:
        cid = m["id"]
        for p in m["problems"]:
            kind = "fixture" if cid.startswith("fx") else "mutation" if cid.startswith("mu") else "generated" if cid.startswith("g") else "stress"
            detail = ""
            rec = next(x for x in recs if x["id"] == cid)
            keys = [i["key"] for i in rec["inters"]]
            dupk = sorted(set(k for k in keys if keys.count(k) > 1))
            if dupk and all(k.startswith("json-rpc-2.0 ") and any(" " in i["method"] or " " in i["path"] for i in rec["inters"] if i["key"] == k) for k in dupk) \
                    and set(rec["dupkeys"]) <= set(dupk):
                detail = "jsonrpc-id-with-space"
            try:
                srcb = b"".join(common.unb64(v) for v in texts[cid]["files"].values())
                srcb.decode("utf-8")
            except UnicodeDecodeError:
                if dupk or rec["dupkeys"]:
                    detail = "invalid-utf8-in-a-name"
            except Exception:
                pass
            sig = {"what": p, "driver": kind, "detail": detail}
            src = texts[cid]
            chk.violation("accepted project whose catalog is not self-consistent: %s | case %s (%s)" % (p, cid, kind),
                          {"kind": "catalog", "problem": p, "case": src, "json": obs[cid]["json"][:4000], "signature": sig}, sig)
    chk.extra["accepted_catalogs_validated"] = len(recs)
    chk.extra["runs"] = len(cases)
    chk.sample({"catalog_record": {k: (v if not isinstance(v, list) else v[:3]) for k, v in recs[0].items()}})
    chk.rule = ("accepted runs of: all fixtures, seeded byte/line mutations of them, TLC-generated API documents, stress-name "
                "documents; each projected catalog judged by TraceCatalog!Problems; distinct = distinct accepted runs")
    chk.assumptions += ["projection of the JSON into the flat record (run/c09.py flat)"]
    return chk.finish()


def replay(path):
    rp = json.load(open(path))["replay"]
    chk = Check("C09", "quick")
    chk.evaluations = 1
    o = harness("run", [rp["case"]])[rp["case"]["id"]]
    if o["outcome"] == "ok":
        r = flat("x", o)
        nd = json.dumps(r) + "\n"
        t = tlc_ok(tlc("TraceCatalog", "TraceCatalog.cfg", workers=1, files={"catalogs.ndjson": nd}), "TraceCatalog")
        for m in t.mbt:
            chk.violation("reproduced: %s" % m["problems"], rp, rp.get("signature"))
    return chk.finish()
