"""Projects enumerated by TLC from spec/JSightPaths.tla (every sequence of N methods over all paths of <= MaxLen segments
over {a, b, {x}, {y}}, with or without a Path directive), replayed into the real pipeline.  One driver, four judges:
C11 (same method and path twice, paths that differ only in parameter names: rejected), C13 (repeated {name}, a parameter
described twice: rejected; pathVariables of every interaction = JSightPaths!PathVars), C19 (automatic tag of the first
segment), C10 (the verdict and the entries do not depend on the order)."""
import json

import rel
from common import harness, seed, tlc, tlc_ok

TAGSEG = {"a": "a", "b": "b", "{x}": "_7Bx_7D", "{y}": "_7By_7D"}
MINE = {"C11": {"same_method_and_path", "only_parameter_names_differ"}, "C13": {"repeated_name", "described_twice"}}


def render(entries):
    out = ["JSIGHT 0.3"]
    for e in entries:
        out.append("%s /%s" % (e["verb"], "/".join(e["path"])))
        if e["decl"]:
            names = [s[1:-1] for s in e["path"] if s.startswith("{")]
            out += ["  Path", "  {"] + ['    "%s": 1%s' % (n, "," if i < len(names) - 1 else "") for i, n in enumerate(names)] + ["  }"]
        out.append("  200 any")
    return "\n".join(out) + "\n"


def projects(chk, tier, salt):
    thorough = tier == "thorough"
    res = []
    for n, maxlen, mod in (((2, 3, 3), (3, 2, 40)) if thorough else ((2, 3, 40),)):
        r = tlc_ok(tlc("JSightPaths", "Paths.cfg", consts={"N": str(n), "MaxLen": str(maxlen), "SampleMod": str(mod),
                                                            "SamplePick": str((seed() * 7 + salt) % mod)}, timeout=1800), "JSightPaths")
        chk.add_tlc(r)
        res += r.mbt
    return res


def run(chk, tier, pid):
    import apidoc
    ps = projects(chk, tier, {"C10": 1, "C11": 2, "C13": 3, "C19": 4}[pid])
    cases = []
    for n, m in enumerate(ps):
        cases.append(rel.case("ps%d" % n, render(m["entries"])))
        if pid == "C10":
            cases.append(rel.case("pr%d" % n, render(m["entries"][::-1])))
    obs = harness("run", cases)
    stats = {"projects": len(ps), "accepted": 0, "rejected": 0, "wider_similar_rejected_by_the_code": 0}
    for n, m in enumerate(ps):
        o = obs["ps%d" % n]
        text = render(m["entries"])
        chk.evaluations += 1
        chk.traces += 1
        chk.nontrivial.add((pid, text))
        if o["outcome"] not in ("ok", "error"):
            continue
        stats["accepted" if o["outcome"] == "ok" else "rejected"] += 1
        if m["verdict"] == "unjudged" and o["outcome"] == "error":
            stats["wider_similar_rejected_by_the_code"] += 1
        bad, what = None, ""
        if pid == "C10":
            b = obs["pr%d" % n]
            if b["outcome"] in ("ok", "error"):
                import c10 as C10
                d = C10.compare_perm(o, b, None, None)
                if d:
                    bad, what = "the methods written in the reverse order: %s" % d, d.split(":")[0][:60]
        elif pid in ("C11", "C13"):
            mine = set(m["why"]) & MINE[pid]
            if mine and o["outcome"] != "error":
                bad, what = "must be rejected (%s), observed %s" % (", ".join(sorted(mine)), rel.describe(o)), "not rejected"
            elif pid == "C13" and m["verdict"] == "accepted":
                if o["outcome"] != "ok":
                    bad, what = "valid project not accepted: %s" % rel.describe(o), "valid document not accepted"
                else:
                    have = {i["id"]: i["pathvars"] for i in apidoc.project(o["json"])[0]["interactions"]}
                    for e in m["entries"]:
                        iid = "http %s /%s" % (e["verb"], "/".join(e["path"]))
                        want = [s[1:-1] for s in e["vars"]]
                        if have.get(iid) != want:
                            bad, what = "pathVariables of %s: expected %s, observed %s" % (iid, want, have.get(iid)), "pathVariables"
                            break
        elif pid == "C19" and m["verdict"] == "accepted" and o["outcome"] == "ok":
            cat = json.loads(o["json"])
            for e in m["entries"]:
                iid = "http %s /%s" % (e["verb"], "/".join(e["path"]))
                it = (cat.get("interactions") or {}).get(iid)
                want = ["@" + TAGSEG[e["first"]]]
                if it is None or it.get("tags") != want:
                    bad, what = "tags of %s: expected %s, observed %s" % (iid, want, None if it is None else it.get("tags")), "automatic tag"
                    break
            if not bad and sorted(cat.get("tags") or {}) != sorted({"@" + TAGSEG[e["first"]] for e in m["entries"]}):
                bad, what = "tags of the catalog %s, expected one per first segment %s" % (sorted(cat.get("tags") or {}), sorted({e["first"] for e in m["entries"]})), "automatic tag"
        if bad:
            sig = {"what": what, "variant": "pathspec", "fault": ",".join(m["why"]), "via": "pathspec", "block": "method", "detail": "",
                   "allof_depth": "0", "msg": (o.get("err") or {}).get("msg", "")}
            chk.violation("%s | project:\n%s" % (bad, text),
                          {"kind": "pathspec", "entries": m["entries"], "spec": {"verdict": m["verdict"], "why": m["why"]}, "file": text,
                           "signature": sig}, sig)
    chk.extra["pathspec_" + pid] = stats


def replay(chk, pid, rp):
    class _C:                      # a one-project run of the same judge
        pass
    import common
    saved = projects
    try:
        globals()["projects"] = lambda c, t, s: [{"entries": rp["entries"], "verdict": rp["spec"]["verdict"], "why": rp["spec"]["why"]}]
        run(chk, "quick", pid)
    finally:
        globals()["projects"] = saved
