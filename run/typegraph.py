"""Type-reference graphs enumerated by TLC (spec/JSightTypes.tla): recursion through arrays, optional
properties and alternatives, inheritance in and across recursive types.  One driver, three judges:
C10 (every order of the declarations gives the same verdict and the same entries), C12 (children of
every type = JSightTypes!Inherited, an inheritance cycle is rejected), C01 (no crash, no hang)."""
import itertools
import json
import random

import rel
from common import harness, seed, tlc, tlc_ok


def pname(t, i):
    """property i of type t: exact names are unique, the names of types 1/2 and of types 3/4 are equal ignoring case"""
    return ("P" if t % 2 else "p") + "%d_%d" % ((t + 1) // 2, i)


def render(g, order):
    out = ["JSIGHT 0.3", ""]
    for t in order:
        ty = g[t - 1]
        bases = ty["bases"]
        rule = ""
        if len(bases) == 1:
            rule = ' // {allOf: "@t%d"}' % bases[0]
        elif bases:
            rule = " // {allOf: [%s]}" % ", ".join('"@t%d"' % b for b in bases)
        out.append("TYPE @t%d" % t)
        out.append("{" + rule)
        props = ty["props"]
        for i, p in enumerate(props, 1):
            how, to, to2 = p["how"], p["to"], p["to2"]
            comma = "," if i < len(props) else ""
            if how == "ref":
                line = '  "%s": @t%d%s' % (pname(t, i), to, comma)
            elif how == "arr":
                line = '  "%s": [@t%d]%s' % (pname(t, i), to, comma)
            elif how == "opt":
                line = '  "%s": @t%d%s // {optional: true}' % (pname(t, i), to, comma)
            elif how == "or":
                line = '  "%s": @t%d | @t%d%s' % (pname(t, i), to, to2, comma)
            elif how == "ainh":
                k = ainh_nest(t, i)      # the item object sits in 1..3 arrays nested directly in one another
                line = '  "%s": %s\n    { // {allOf: "@t%d"}\n      "nk": 1\n    }\n  %s%s' % (pname(t, i), "[" * k, to, "]" * k, comma)
            else:
                line = '  "%s": %d%s' % (pname(t, i), i, comma)
            out.append(line)
        out.append("}")
        out.append("")
    return "\n".join(out)


def ainh_nest(t, i):
    return 1 + (t * 3 + i) % 3


def inh_depth(g):
    """longest chain of inheritance edges (allOf of a type, allOf of an inline array item), cycles cut"""
    edges = {t: set(ty["bases"]) | {p["to"] for p in ty["props"] if p["how"] == "ainh"} for t, ty in enumerate(g, 1)}

    def dep(t, seen):
        return max([1 + dep(u, seen | {t}) for u in edges[t] if u not in seen and u != t] + [0])
    return max(dep(t, frozenset()) for t in edges)


def big_graphs():
    """hand-made acyclic graphs with objects of 13 to 30 properties after inheriting (seven to nine own properties per type,
    chains and two bases); their expected children follow the rule of JSightTypes!Inherited, evaluated here for these
    fixed graphs: for every base in the order named all ITS children marked with that base, then the own ones"""
    def ints(n):
        return [{"to": 1, "how": "int", "to2": 1} for _ in range(n)]
    shapes = [
        [([], 7), ([1], 7), ([2], 3), ([], 9)],
        [([], 9), ([], 8), ([1, 2], 5), ([3], 2)],
        [([], 6), ([1], 7), ([], 1), ([3, 2], 1)],
        [([2], 8), ([], 8), ([1], 8), ([], 0)],
    ]
    res = []
    for sh in shapes:
        g = [{"bases": b, "props": ints(n)} for b, n in sh]

        def inh(t):
            out = []
            for b in g[t - 1]["bases"]:
                out += [{"owner": c["owner"], "idx": c["idx"], "inh": b} for c in inh(b)]
            return out + [{"owner": t, "idx": i, "inh": 0} for i in range(1, len(g[t - 1]["props"]) + 1)]
        res.append({"g": g, "verdict": "unjudged", "impl": "accepted", "depth": 2, "recursive": False, "props": [inh(t) for t in (1, 2, 3, 4)]})
    return res


def graphs(chk, tier, salt):
    n = 4000 if tier == "thorough" else 500
    r = tlc_ok(tlc("JSightTypes", "Types_sim.cfg", consts={"N": "4", "MaxProps": "3"}, simulate=n, depth=6,
                   tlc_seed=seed() * 17 + salt, workers=4, timeout=900), "JSightTypes")
    chk.add_tlc(r)
    # ... and types with up to four properties of their own and mostly acyclic inheritance (objects of 13 and more
    # properties after inheriting)
    r2 = tlc_ok(tlc("JSightTypes", "Types_sim.cfg", consts={"N": "4", "MaxProps": "9"}, simulate=n // 2, depth=6,
                    tlc_seed=seed() * 19 + salt, workers=4, timeout=900), "JSightTypes (more properties)")
    chk.add_tlc(r2)
    seen, res = set(), []
    for m in r.mbt + r2.mbt + big_graphs():
        k = json.dumps(m["g"], sort_keys=True)
        if k not in seen:
            seen.add(k)
            res.append(m)
    return res


def children_of(js, t):
    """[(key, inheritedFrom or '')] of the object schema of user type @t<t>"""
    ut = json.loads(js)["userTypes"].get("@t%d" % t)
    if not ut:
        return None
    return [(c.get("key"), c.get("inheritedFrom", "")) for c in (ut["schema"].get("content") or {}).get("children") or []]


def item_children(js, t, key):
    """[(key, inheritedFrom)] of the inline object that is the item of the array property `key` of @t<t>, looked up among
    the children of the type as the catalog lists them (own and inherited)"""
    ut = json.loads(js)["userTypes"].get("@t%d" % t)
    for c in ((ut or {}).get("schema", {}).get("content") or {}).get("children") or []:
        if c.get("key") == key and not c.get("inheritedFrom"):
            items = c.get("children") or []
            while items and items[0].get("tokenType") == "array":      # arrays nested directly in the array
                items = items[0].get("children") or []
            if items:
                return [(x.get("key"), x.get("inheritedFrom", "")) for x in items[0].get("children") or []]
    return None


def run(chk, tier, pid):
    import c10 as C10
    thorough = tier == "thorough"
    rnd = random.Random(seed() * 13 + 3)
    gs = graphs(chk, tier, {"C10": 1, "C12": 2, "C01": 3}[pid])
    ids = [1, 2, 3, 4]
    allperms = [list(p) for p in itertools.permutations(ids)]
    cases, meta = [], {}
    for n, m in enumerate(gs):
        if pid == "C10":
            perms = allperms if thorough else [ids, ids[::-1]] + rnd.sample(allperms, 4)
        else:
            perms = [ids, rnd.choice(allperms)]
        for j, p in enumerate(perms):
            cid = "tg%d_%d" % (n, j)
            text = render(m["g"], p)
            cases.append(rel.case(cid, text, timeout=20000))
            meta[cid] = (n, j, p, text)
    obs = harness("run", cases)
    stats = {"accepted": 0, "rejected": 0, "recursive_accepted": 0, "impl_conformance": {"agree": 0, "checked": 0}}
    for cid, (n, j, p, text) in meta.items():
        m = gs[n]
        o = obs[cid]
        base = obs["tg%d_0" % n]
        chk.evaluations += 1
        chk.traces += 1
        chk.nontrivial.add((pid, json.dumps(m["g"], sort_keys=True), tuple(p)))
        if j == 0:
            stats["accepted" if o["outcome"] == "ok" else "rejected"] += 1
            if o["outcome"] == "ok" and m["recursive"]:
                stats["recursive_accepted"] += 1
            if o["outcome"] in ("ok", "error"):
                stats["impl_conformance"]["checked"] += 1
                stats["impl_conformance"]["agree"] += (o["outcome"] == "ok") == (m["impl"] == "accepted")
        bad, sig = None, None
        if pid == "C01":
            if o["outcome"] in ("panic", "fatal", "timeout"):
                bad = "type graph: %s %s" % (o["outcome"], o.get("panic", "")[:200])
                sig = {"what": o["outcome"], "family": "typegraph", "msg": o.get("panic", "")[:80], "detail": "", "frames": ",".join(o.get("frames") or [])}
            elif o["outcome"] == "error" and (o["err"]["msg"].startswith("runtime error") or "invalid memory address" in o["err"]["msg"]):
                bad = "type graph: a runtime fault is reported as a diagnostic: %r" % o["err"]["msg"]
                sig = {"what": "error", "family": "typegraph", "msg": o["err"]["msg"][:80], "detail": ""}
        elif pid == "C10":
            if j > 0 and base["outcome"] in ("ok", "error") and o["outcome"] in ("ok", "error"):
                d = C10.compare_perm(base, o, None, p)
                if d:
                    bad = "type graph declared in the order %s instead of 1 2 3 4: %s" % (p, d)
                    sig = {"what": "usedUserTypes-only" if "[only usedUserTypes differ]" in d else d.split(":")[0][:60],
                           "allof_depth": str(max(m["depth"], inh_depth(m["g"]))), "msg": (o.get("err") or {}).get("msg", "") + (base.get("err") or {}).get("msg", "")}
        elif pid == "C12":
            if o["outcome"] not in ("ok", "error"):
                continue
            if m["verdict"] == "rejected:allof-cycle" and o["outcome"] == "ok":
                bad = "an inheritance cycle among the types is accepted"
                sig = {"what": "allof cycle accepted", "variant": "typegraph"}
            elif m["verdict"] == "unjudged" and o["outcome"] == "ok":
                for t in ids:
                    want = [(pname(c["owner"], c["idx"]), "@t%d" % c["inh"] if c["inh"] else "") for c in m["props"][t - 1]]
                    got = children_of(o["json"], t)
                    if got != want:
                        bad = "children of @t%d differ from the rule: expected %s, observed %s" % (t, want, got)
                        sig = {"what": "inherited properties differ from the rule", "variant": "typegraph"}
                        break
                    # inline objects in arrays that inherit: the children of the item are those of the base, marked, then "nk"
                    for i, p in enumerate(m["g"][t - 1]["props"], 1):
                        if p["how"] != "ainh":
                            continue
                        wantn = [(pname(c["owner"], c["idx"]), "@t%d" % p["to"]) for c in m["props"][p["to"] - 1]] + [("nk", "")]
                        gotn = item_children(o["json"], t, pname(t, i))
                        if gotn != wantn:
                            bad = "children of the array item of @t%d.p%d_%d (allOf @t%d) differ from the rule: expected %s, observed %s" % (t, t, i, p["to"], wantn, gotn)
                            sig = {"what": "inherited properties differ from the rule", "variant": "typegraph-array-item"}
                            break
                    if bad:
                        break
        if bad:
            chk.violation("%s | document:\n%s" % (bad, text[:1500]),
                          {"kind": "typegraph", "g": m["g"], "order": p, "file": text, "spec": {k: m[k] for k in ("verdict", "depth", "recursive", "props")},
                           "base_order_file": render(m["g"], ids), "signature": sig}, sig)
    chk.extra["typegraph_graphs"] = len(gs)
    chk.extra["typegraph_" + pid] = stats
    return stats


def replay(chk, pid, rp):
    """re-runs one recorded graph in the recorded order (and in the order 1 2 3 4) and judges it again"""
    import c10 as C10
    o = harness("run", [rel.case("a", rp["base_order_file"], timeout=20000), rel.case("b", rp["file"], timeout=20000)])
    a, b = o["a"], o["b"]
    chk.evaluations += 1
    bad = None
    if pid == "C01":
        if b["outcome"] in ("panic", "fatal", "timeout") or (b["outcome"] == "error" and b["err"]["msg"].startswith("runtime error")):
            bad = rel.describe(b)
    elif pid == "C10":
        bad = C10.compare_perm(a, b, None, rp["order"])
    else:
        sp = rp["spec"]
        if sp["verdict"] == "rejected:allof-cycle" and b["outcome"] == "ok":
            bad = "inheritance cycle accepted"
        elif sp["verdict"] == "unjudged" and b["outcome"] == "ok":
            for t in (1, 2, 3, 4):
                want = [(pname(c["owner"], c["idx"]), "@t%d" % c["inh"] if c["inh"] else "") for c in sp["props"][t - 1]]
                if children_of(b["json"], t) != want:
                    bad = "children of @t%d: expected %s observed %s" % (t, want, children_of(b["json"], t))
                    break
    if bad:
        chk.violation("reproduced: " + bad, rp, rp.get("signature"))
