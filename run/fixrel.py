"""Relational drivers over the repository's own fixture corpus (testdata/**/*.jst).

The relational properties (C05 C07 C08 C10 C18 C20) compare two real runs and need no oracle for the
common value, so they can be driven by any document - in particular by the ≈560 root files the
library's authors wrote to cover the language, which use far more of it than the JSightApi generator
does (regex / any / empty notations, or-types, arrays, nested rules, macros in macros, includes of
includes, JSON-RPC, headers, every response code ...).

The document model used for rewriting is the REAL one: the lexeme stream of the real scanner (where
directive lines begin, what precedes them) and the forest the real scan stage built (which
directives are top-level blocks, which are children of which, which are parenthesised).  The
transformation itself is a text edit at positions named by that model; the choice of positions is
seeded by VERIF_SEED.  Guards (a transformed document must have the forest the transformation
intends, up to positions) are evaluated on the real forest of the transformed document and skip -
never accuse - a pair whose transformation did not do what was meant."""
import os
import random
import re

import common
from common import b64, harness, seed

KW, PARAM, ANNOT, SCHEMA, JSON_, TEXT, OPEN, CLOSE, ENUM = range(9)
_INC = re.compile(rb"(?m)^[ \t]*INCLUDE[ \t]+\"?([^\s\"]+)")


class Fx:
    __slots__ = ("path", "name", "files", "root", "data", "nl", "lex", "obs", "forest", "kwl", "err")

    def text_files(self, data=None):
        f = dict(self.files)
        if data is not None:
            f[self.root] = data
        return f


def _reach(base, rel, files, depth=0):
    p = os.path.normpath(os.path.join(base, rel))
    if rel in files or depth > 8 or not os.path.isfile(p) or not p.startswith(base):
        return
    try:
        data = open(p, "rb").read()
    except OSError:
        return
    files[rel] = data
    for m in _INC.finditer(data):
        nm = m.group(1).decode("latin1")
        sub = os.path.normpath(os.path.join(os.path.dirname(rel), nm))
        if not sub.startswith(".."):
            _reach(base, sub, files, depth + 1)


def case(cid, files, root, **kw):
    c = {"id": cid, "files": {k: b64(v) for k, v in files.items()}, "root": root}
    c.update(kw)
    for f in ("banned", "banned2"):
        if f in c:
            c[f] = ["200" if k == "HTTP-response-code" else k for k in c[f]]
    return c


def line_start(data, i):
    while i > 0 and data[i - 1:i] not in (b"\n", b"\r"):
        i -= 1
    return i


def newline_of(data):
    crlf = data.count(b"\r\n")
    lf = data.count(b"\n") - crlf
    cr = data.count(b"\r") - crlf
    kinds = [(crlf, b"\r\n"), (lf, b"\n"), (cr, b"\r")]
    used = [k for k in kinds if k[0]]
    if len(used) > 1:
        return None
    return used[0][1] if used else b"\n"


def load(tier, want_ok=None, limit=None, salt=0, single_file=False):
    """fixture projects (root = a file that holds a JSIGHT directive) with lexemes, base observation and forest.
    want_ok: None = all, True = accepted only.  limit: sample size (seeded)."""
    root = os.path.join(common.REPO, "testdata")
    roots = []
    for d, _, ff in os.walk(root):
        for f in sorted(ff):
            if f.endswith(".jst"):
                roots.append(os.path.join(d, f))
    roots.sort()
    fxs = []
    for p in roots:
        try:
            data = open(p, "rb").read()
        except OSError:
            continue
        if not re.search(rb"(?m)^[ \t]*JSIGHT[ \t]", data) or len(data) > 60000:
            continue
        fx = Fx()
        fx.path, fx.name = p, os.path.relpath(p, root)
        fx.root = os.path.basename(p)
        fx.files = {}
        _reach(os.path.dirname(p), fx.root, fx.files)
        if fx.root not in fx.files or (single_file and len(fx.files) > 1):
            continue
        if sum(len(v) for v in fx.files.values()) > 120000:
            continue
        fx.data = data
        fx.nl = newline_of(data)
        fxs.append(fx)
    rnd = random.Random(seed() * 7919 + salt)
    if limit and len(fxs) > limit * 2:
        # the base runs decide which are usable: take a superset, trim later
        fxs = rnd.sample(fxs, min(len(fxs), limit * 2))
        fxs.sort(key=lambda f: f.name)
    lex = harness("lex", [{"id": fx.name, "b64": b64(fx.data)} for fx in fxs])
    obs = harness("run", [case(fx.name, fx.files, fx.root, want=["forest"]) for fx in fxs])
    res = []
    for fx in fxs:
        lo, o = lex[fx.name], obs[fx.name]
        if lo.get("panic") or o["outcome"] not in ("ok", "error"):
            continue
        if want_ok and o["outcome"] != "ok":
            continue
        fx.lex = [tuple(x) for x in lo["lex"]]
        fx.err = lo["err_idx"]
        fx.obs = o
        fx.forest = o.get("forest") or []
        fx.kwl = kwlines(fx)
        res.append(fx)
    if limit and len(res) > limit:
        res = rnd.sample(res, limit)
        res.sort(key=lambda f: f.name)
    return res


def from_texts(items):
    """single-file documents given as (name, text): the same model (lexemes, base observation, forest)"""
    fxs = []
    for name, text in items:
        fx = Fx()
        fx.path, fx.name, fx.root = None, name, "main.jst"
        fx.data = text.encode("utf-8") if isinstance(text, str) else text
        fx.files = {"main.jst": fx.data}
        fx.nl = newline_of(fx.data)
        fxs.append(fx)
    lex = harness("lex", [{"id": fx.name, "b64": b64(fx.data)} for fx in fxs])
    obs = harness("run", [case(fx.name, fx.files, fx.root, want=["forest"]) for fx in fxs])
    res = []
    for fx in fxs:
        lo, o = lex[fx.name], obs[fx.name]
        if lo.get("panic") or o["outcome"] not in ("ok", "error"):
            continue
        fx.lex = [tuple(x) for x in lo["lex"]]
        fx.err = lo["err_idx"]
        fx.obs = o
        fx.forest = o.get("forest") or []
        fx.kwl = kwlines(fx)
        res.append(fx)
    return res


def kwlines(fx):
    """lexemes that begin their line: (line start, lexeme begin, lexeme index, type, type of the previous lexeme)"""
    res = []
    d = fx.data
    for k, (t, b, e) in enumerate(fx.lex):
        if t in (KW, OPEN, CLOSE):
            ls = line_start(d, b)
            if d[ls:b].strip(b" \t") == b"":
                res.append((ls, b, k, t, fx.lex[k - 1][0] if k else -1))
    return res


def line_end(data, i):
    """index of the first byte of the line end after position i (or len)"""
    while i < len(data) and data[i:i + 1] not in (b"\n", b"\r"):
        i += 1
    return i


def after_line(data, i):
    i = line_end(data, i)
    if data[i:i + 2] == b"\r\n":
        return i + 2
    return min(len(data), i + 1)


# ------------------------------------------------------------------------------------------------
# C05 rewritings


def _ins_positions(fx):
    """line starts of directive keyword lines before which trivia lines may be inserted: a keyword that begins its
    line, is not preceded by bare Description text (the inserted line would be read as text) and is not the first
    lexeme after the keyword of its own directive"""
    return [ls for (ls, b, k, t, pt) in fx.kwl if t == KW and pt != TEXT]


def rw_comments(fx, rnd):
    if fx.nl is None:
        return None
    pos = [p for p in _ins_positions(fx) if rnd.random() < 0.5]
    if not pos:
        return None
    out, last = [], 0
    n = 0
    for p in pos:
        out.append(fx.data[last:p])
        n += 1
        kind = rnd.randrange(4)
        if kind == 0:
            out.append(b"# c%d" % n + fx.nl)
        elif kind == 1:
            out.append(b"  \t# note %d #" % n + fx.nl)
        elif kind == 2:
            out.append(b"###" + fx.nl + b" block %d" % n + fx.nl + b" GET /not-a-directive" + fx.nl + b"###" + fx.nl)
        else:
            out.append(b"#c" + fx.nl + b"# d" + fx.nl)
        last = p
    out.append(fx.data[last:])
    return b"".join(out)


def rw_blank(fx, rnd):
    if fx.nl is None:
        return None
    pos = [p for p in _ins_positions(fx) if rnd.random() < 0.5]
    if not pos:
        return None
    out, last = [], 0
    for p in pos:
        out.append(fx.data[last:p])
        out.append(rnd.choice([fx.nl, fx.nl * 2, b"   " + fx.nl, b"\t" + fx.nl + fx.nl]))
        last = p
    out.append(fx.data[last:])
    return b"".join(out)


def rw_indent(fx, rnd):
    """changes the indentation of directive lines (keyword, '(' and ')' lines); body and text lines keep theirs"""
    ind = rnd.choice([b"", b" ", b"    ", b"\t", b"      \t"])
    out, last = [], 0
    changed = False
    for (ls, b, k, t, pt) in fx.kwl:
        if t in (OPEN, CLOSE):
            # the parentheses of a description enclose text whose indentation is meaningful relative to nothing but
            # itself; a '(' / ')' line may move freely
            pass
        new = ind if rnd.random() < 0.8 else rnd.choice([b"", b"  ", b"\t\t"])
        if fx.data[ls:b] != new:
            changed = True
        out.append(fx.data[last:ls])
        out.append(new)
        last = b
    out.append(fx.data[last:])
    return b"".join(out) if changed else None


def rw_trailing(fx, rnd):
    """blanks at the end of directive lines whose last lexeme is a keyword, a parameter or an annotation"""
    d = fx.data
    ends = []
    for k, (t, b, e) in enumerate(fx.lex):
        if t not in (KW, PARAM, ANNOT, OPEN, CLOSE):
            continue
        le = line_end(d, e if e >= b else b)
        nxt = fx.lex[k + 1][1] if k + 1 < len(fx.lex) else len(d) + 1
        if nxt < le:
            continue            # not the last lexeme of its line
        tail = d[e + 1:le]
        if t == ANNOT:
            # the lexeme of a // annotation ends with the text; of a block annotation before the closing delimiter
            if tail.strip(b" \t") not in (b"", b"*/"):
                continue
            if b"\n" in d[b:e + 1] or b"\r" in d[b:e + 1]:
                continue
        elif tail.strip(b" \t") != b"":
            continue
        ends.append(le)
    ends = sorted(set(p for p in ends if rnd.random() < 0.6))
    if not ends:
        return None
    out, last = [], 0
    for p in ends:
        out.append(d[last:p])
        out.append(rnd.choice([b" ", b"   ", b"\t", b" \t "]))
        last = p
    out.append(d[last:])
    return b"".join(out)


def rw_trailcomment(fx, rnd):
    """comments written at the END of directive lines: a one-line comment, or a block comment that begins there and hides
    the following lines (which look like directives) up to its closing marker"""
    if fx.nl is None:
        return None
    d = fx.data
    ends = []
    for k, (t, b, e) in enumerate(fx.lex):
        if t not in (KW, PARAM, OPEN, CLOSE):
            continue
        le = line_end(d, e if e >= b else b)
        nxt = fx.lex[k + 1][1] if k + 1 < len(fx.lex) else len(d) + 1
        if nxt < le or d[e + 1:le].strip(b" \t") != b"" or le >= len(d):
            continue
        if t == KW and d[b:e + 1] == b"Description":
            continue            # what follows on the next lines is its text
        ends.append((le, t))
    ends = [x for x in ends if rnd.random() < 0.4]
    if not ends:
        return None
    out, last = [], 0
    n = 0
    for p, t in ends:
        out.append(d[last:p])
        n += 1
        kind = rnd.randrange(3)
        if kind == 0:
            out.append(b" # tc%d" % n)
        elif kind == 1:
            out.append(b"\t#tc %d #" % n)        # (not "##": at a body position a comment follows the schema library's syntax, F-29)
        else:
            out.append(b" ###" + fx.nl + b"GET /vfhidden%d" % n + fx.nl + b"  200 any" + fx.nl + b"###")
        last = p
    out.append(d[last:])
    return b"".join(out)


def rw_final_newline(fx, rnd):
    """the line end (and blank lines) after the last line removed, or - if there is none - one added"""
    d = fx.data
    stripped = d.rstrip(b"\r\n \t")
    if stripped != d and stripped:
        # the last lexeme must end before the stripped tail (a body that ends with the file keeps its own bytes)
        return stripped
    if d and not d.endswith((b"\n", b"\r")):
        return d + (fx.nl or b"\n")
    return None


SKIPS_COMMENTS_BEFORE_BODY = {"Request", "Query", "Path", "Headers", "ENUM", "Params", "Result"}


def rw_comment_before_body(fx, rnd):
    """comment lines between the line of a directive and its body on the following lines, for the directives that skip
    comments there themselves (a response code too) - in every comment spelling, the double hash included"""
    if fx.nl is None:
        return None
    d = fx.data
    pos = []
    for k, (t, b, e) in enumerate(fx.lex):
        if t not in (SCHEMA, ENUM):
            continue
        j = k - 1
        while j >= 0 and fx.lex[j][0] in (PARAM, ANNOT):
            j -= 1
        if j < 0 or fx.lex[j][0] != KW:
            continue
        kw = d[fx.lex[j][1]:fx.lex[j][2] + 1].decode("latin1")
        if not (kw in SKIPS_COMMENTS_BEFORE_BODY or kw.isdigit()):
            continue
        ls = line_start(d, b)
        if ls <= fx.lex[j][1] or d[ls:b].strip(b" \t") != b"":
            continue                # the body begins on the line of the keyword
        if rnd.random() < 0.6:
            pos.append(ls)
    if not pos:
        return None
    out, last = [], 0
    for n, p in enumerate(pos):
        out.append(d[last:p])
        out.append(rnd.choice([b"# c", b"## c%d" % n, b"##", b"  ###### ", b"### block ###", b"### b" + fx.nl + b"GET /hidden" + fx.nl + b"###", b"#"]) + fx.nl)
        last = p
    out.append(d[last:])
    return b"".join(out)


def rw_newlines(fx, rnd, to):
    if fx.nl != b"\n" or to == b"\n":
        return None
    return fx.data.replace(b"\n", to)


def _subtree_last_lexeme(fx, node, nxt_begin):
    """index of the last lexeme that starts before nxt_begin"""
    last = None
    for k, (t, b, e) in enumerate(fx.lex):
        if b < nxt_begin:
            last = k
    return last


def preorder(forest, root_only=None):
    out = []

    def rec(n, parent, depth):
        out.append((n, parent, depth))
        for c in n["c"]:
            rec(c, n, depth + 1)
    for n in forest:
        rec(n, None, 0)
    return out


def rw_parens(fx, rnd):
    """puts the children of directives that nest implicitly into explicit parentheses"""
    if fx.nl is None or fx.obs["outcome"] != "ok":
        return None
    d = fx.data
    nodes = [x for x in preorder(fx.forest) if x[0]["f"] == fx.root]
    if any(n["f"] != fx.root for n, _, _ in preorder(fx.forest)):
        return None                 # children from included files: the run is not contiguous in one file
    kwb = sorted(b for (ls, b, k, t, pt) in fx.kwl if t == KW)
    lsof = {b: ls for (ls, b, k, t, pt) in fx.kwl if t == KW}
    edits = []
    flat = [n for n, _, _ in nodes]
    for i, (n, parent, depth) in enumerate(nodes):
        if not n["c"] or n["x"] or n["k"] in ("MACRO",) or rnd.random() < 0.5:
            continue
        if any(x["k"] == "PASTE" for x, _, _ in preorder([n])):
            continue            # what a PASTE brings need not nest where the PASTE stands
        first = n["c"][0]["b"]
        # end of the subtree = begin of the next directive in pre-order that is not a descendant
        size = len(preorder([n]))
        nxt = flat[i + size]["b"] if i + size < len(flat) else None
        if first not in lsof or (nxt is not None and nxt not in lsof):
            continue
        # the last lexeme of the subtree must not be bare text: a ')' line after it would be read as text
        endpos = lsof[nxt] if nxt is not None else len(d)
        last = None
        for (t, b, e) in fx.lex:
            if b < (nxt if nxt is not None else len(d) + 1):
                last = (t, b, e)
        if last is None or last[0] == TEXT:
            continue
        # an open parenthesis between the directive and its first child (Description "(") would be confused: skip when
        # any OPEN/CLOSE lexeme lies between the keyword and the first child
        if any(t in (OPEN, CLOSE) and n["b"] < b < first for (t, b, e) in fx.lex):
            continue
        if nxt is None and not d.endswith((b"\n", b"\r")):
            edits.append((len(d), fx.nl + b")" + fx.nl))
        else:
            edits.append((endpos, b")" + fx.nl))
        edits.append((lsof[first], b"(" + fx.nl))
    if not edits:
        return None
    # closing parentheses of inner subtrees come before those of outer ones at the same position
    out = bytearray(d)
    for pos, txt in sorted(edits, key=lambda x: (-x[0], 0 if x[1].startswith(b"(") else 1)):
        out[pos:pos] = txt
    return bytes(out)


C05_FAMILIES = {
    "comments": rw_comments, "comment_before_body": rw_comment_before_body, "final_newline": rw_final_newline, "trailcomment": rw_trailcomment, "blank": rw_blank, "indent": rw_indent, "trailing": rw_trailing, "parens": rw_parens,
    "crlf": lambda fx, rnd: rw_newlines(fx, rnd, b"\r\n"), "cr": lambda fx, rnd: rw_newlines(fx, rnd, b"\r"),
}


# ------------------------------------------------------------------------------------------------
# blocks


def shape(n):
    """a directive subtree without positions"""
    return [n["k"], n.get("kw", ""), bool(n["x"]), sorted((n.get("p") or {}).items()), n.get("u") or [], n.get("a", ""),
            bool(n.get("body")), [shape(c) for c in n["c"]]]


def top_blocks(fx):
    """top-level blocks of the root file: [(start, end, node)], the JSIGHT block excluded; None if the file's top
    level is not a clean sequence of lines (or a top-level node comes from another file in between)"""
    d = fx.data
    lsof = {b: ls for (ls, b, k, t, pt) in fx.kwl if t == KW}
    tops = fx.forest
    if not tops or tops[0]["k"] != "JSIGHT" or tops[0]["f"] != fx.root:
        return None
    res = []
    mine = [n for n in tops]
    for i, n in enumerate(mine):
        if n["f"] != fx.root:
            return None          # top-level directives that come from an included file: positions are not comparable
        if n["b"] not in lsof:
            return None
    for i, n in enumerate(mine):
        s = lsof[n["b"]]
        e = lsof[mine[i + 1]["b"]] if i + 1 < len(mine) else len(d)
        res.append((s, e, n))
    if not d.endswith((b"\n", b"\r")):
        return None
    return res[1:], res[0]


# ------------------------------------------------------------------------------------------------
# drivers (called from the cNN modules)


def c05(chk, tier):
    import rel
    thorough = tier == "thorough"
    fxs = load(tier, limit=None, salt=5)
    rnd = random.Random(seed() * 31 + 5)
    cases, meta = [], {}
    for n, fx in enumerate(fxs):
        names = list(C05_FAMILIES)
        if not thorough:
            names = rnd.sample(names, 3)
            for rare in ("comment_before_body", "final_newline"):      # seldom applicable, cheap: always tried
                if rare not in names:
                    names.append(rare)
        for nm in names:
            for rep in range(2 if thorough and nm in ("comments", "trailcomment", "blank", "indent", "parens", "trailing") else 1):
                try:
                    data = C05_FAMILIES[nm](fx, random.Random(rnd.random()))
                except Exception as ex:        # a rewriting that cannot be applied to this fixture
                    chk.extra.setdefault("fixture_rewrite_errors", []).append("%s %s %r" % (fx.name, nm, ex))
                    data = None
                if data is None or data == fx.data:
                    continue
                cid = "fx%d_%s_%d" % (n, nm, rep)
                cases.append(case(cid, fx.text_files(data), fx.root))
                meta[cid] = (fx, nm, data)
    obs = harness("run", cases)
    judged = 0
    for cid, (fx, nm, data) in meta.items():
        a, b = fx.obs, obs[cid]
        chk.evaluations += 1
        chk.traces += 1
        judged += 1
        chk.nontrivial.add(("fx", fx.name, nm, data))
        if rel.result_key(a) != rel.result_key(b):
            d = rel.json_diff(a["json"], b["json"]) if a["outcome"] == b["outcome"] == "ok" else None
            sig = {"rewrite": "fixture-" + nm, "base": a["outcome"], "variant": b["outcome"],
                   "msg": (b.get("err") or {}).get("msg", "") + b.get("panic", ""), "detail": fx.name}
            chk.violation("rewriting '%s' of fixture %s changed the result: original %s, rewritten %s %s | rewritten root file:\n%s" % (
                nm, fx.name, rel.describe(a), rel.describe(b), d or "", data.decode("latin1")[:1500]),
                {"kind": "fxpair", "rewrite": nm, "fixture": fx.name, "root": fx.root,
                 "files_a": {k: b64(v) for k, v in fx.files.items()}, "files_b": {k: b64(v) for k, v in fx.text_files(data).items()},
                 "signature": sig}, sig)
    chk.extra["fixture_pairs_c05"] = judged
    chk.extra["fixtures_used_c05"] = len(fxs)


def _allof_depth(data):
    """length of the longest allOf chain written in the file (textual: 'allOf' followed by type names on its line)"""
    g = {}
    for m in re.finditer(rb"(?ms)^[ \t]*TYPE[ \t]+(@[A-Za-z0-9_]+)(.*?)(?=^[ \t]*(?:TYPE|ENUM|URL|GET|POST|PUT|PATCH|DELETE|SERVER|INFO|TAG|MACRO)\b|\Z)", data):
        g[m.group(1)] = set(x for ln in re.findall(rb"allOf[^\r\n]*", m.group(2)) for x in re.findall(rb"@[A-Za-z0-9_]+", ln))

    def dep(n, seen=()):
        if n not in g or n in seen:
            return 0
        return max([1 + dep(x, seen + (n,)) for x in g[n]] + [0])
    return max([dep(n) for n in g] + [0])


def _top_shapes(forest):
    return sorted(repr(shape(n)) for n in forest)


def c10(chk, tier):
    """top-level blocks of accepted single-file fixtures in other orders"""
    import c10 as C10
    thorough = tier == "thorough"
    fxs = [fx for fx in load(tier, want_ok=True, limit=None if thorough else 160, salt=10) if len(fx.files) == 1]
    rnd = random.Random(seed() * 31 + 10)
    cases, meta = [], {}
    for n, fx in enumerate(fxs):
        tb = top_blocks(fx)
        if not tb or len(tb[0]) < 2:
            continue
        blocks, head = tb
        idx = list(range(len(blocks)))
        perms = [idx[::-1]]
        for _ in range(4 if thorough else 2):
            p = idx[:]
            rnd.shuffle(p)
            if p != idx and p not in perms:
                perms.append(p)
        # rotate: the last block first (a declaration used by everything above it)
        rot = idx[-1:] + idx[:-1]
        if rot not in perms and rot != idx:
            perms.append(rot)
        for j, p in enumerate(perms):
            data = fx.data[:blocks[0][0]] + b"".join(fx.data[blocks[i][0]:blocks[i][1]] for i in p)
            cid = "fp%d_%d" % (n, j)
            cases.append(case(cid, {fx.root: data}, fx.root, want=["forest"]))
            meta[cid] = (fx, p, data)
    obs = harness("run", cases)
    judged = skipped = 0
    for cid, (fx, p, data) in meta.items():
        a, b = fx.obs, obs[cid]
        if b["outcome"] in ("ok", "error") and "scan" in (b.get("stages") or []) and _top_shapes(b.get("forest") or []) != _top_shapes(fx.forest):
            skipped += 1        # in this order a block nests differently (implicit contexts): not a permutation of declarations
            continue
        if "scan" not in (b.get("stages") or []) and b["outcome"] == "error":
            skipped += 1        # rejected while scanning: the order changed what the lines mean
            continue
        judged += 1
        chk.evaluations += 1
        chk.traces += 1
        chk.nontrivial.add(("fx", fx.name, tuple(p)))
        bad = C10.compare_perm(a, b, None, p)
        if bad:
            sig = {"what": "usedUserTypes-only" if "[only usedUserTypes differ]" in bad else bad.split(":")[0][:60],
                   "allof_depth": str(_allof_depth(fx.data)), "msg": (b.get("err") or {}).get("msg", ""), "fixture": fx.name}
            chk.violation("reordering the top-level blocks of fixture %s as %s: %s | permuted document:\n%s" % (
                fx.name, p, bad, data.decode("latin1")[:1500]),
                {"kind": "fxpair", "fixture": fx.name, "root": fx.root, "perm": p,
                 "files_a": {fx.root: b64(fx.data)}, "files_b": {fx.root: b64(data)}, "signature": sig}, sig)
    chk.extra["fixture_permutations_judged"] = judged
    chk.extra["fixture_permutations_skipped_nesting_changed"] = skipped


def sibling_runs(fx, rnd, count, kinds_excluded=("JSIGHT",)):
    """runs of complete sibling subtrees of a single-file fixture: (start, end, parent kind or None, nodes).  The run
    is a whole number of lines, balanced in parentheses, and its parent is not parenthesised."""
    d = fx.data
    if len(fx.files) != 1 or fx.nl is None or not d.endswith((b"\n", b"\r")):
        return []
    flat = preorder(fx.forest)
    if any(n["f"] != fx.root for n, _, _ in flat):
        return []
    lsof = {b: ls for (ls, b, k, t, pt) in fx.kwl if t == KW}
    if any(n["b"] not in lsof for n, _, _ in flat):
        return []
    pos = {id(n): i for i, (n, _, _) in enumerate(flat)}
    groups = [(None, fx.forest)] + [(n, n["c"]) for n, _, _ in flat if n["c"] and not n["x"]]
    cands = []
    for parent, ch in groups:
        for i in range(len(ch)):
            for j in range(i, len(ch)):
                cands.append((parent, ch, i, j))
    rnd.shuffle(cands)
    res = []
    for parent, ch, i, j in cands:
        if len(res) >= count:
            break
        nodes = ch[i:j + 1]
        sub = [x for n in nodes for x, _, _ in preorder([n])]
        if any(x["k"] in kinds_excluded for x in sub):
            continue
        start = lsof[ch[i]["b"]]
        after = pos[id(ch[j])] + len(preorder([ch[j]]))
        end = lsof[flat[after][0]["b"]] if after < len(flat) else len(d)
        bal = 0
        ok = True
        for (t, b, e) in fx.lex:
            if start <= b < end:
                if t == OPEN:
                    bal += 1
                elif t == CLOSE:
                    bal -= 1
                    if bal < 0:
                        ok = False
        if not ok or bal != 0:
            continue
        res.append((start, end, parent["k"] if parent else None, nodes))
    return res


FOLLOWERS = [["Headers", "{", '  "vfh": 1', "}"], ["Query", "{", '  "vfq": 1', "}"], ["Body any"], ["200 any"], ["Path", "{", '  "vfp": 1', "}"],
             ['Title "vf"'], ['BaseUrl "http://vf"'], ["Description", "  vf text"], ["Method vfm"], ["Params", "{}"], ["Request any"],
             ["Protocol json-rpc-2.0"], ["GET"], ["Version 2"], ["Result", "{}"]]


def c08(chk, tier, extra=None):
    """runs of complete top-level directives / complete children of an implicitly nested directive moved into an included
    file.  Documents: the fixture corpus and (extra) generated API documents.  Each (document, run) is also tried with
    a directive line put right after the run that does not belong there: when the one-file document is rejected for it,
    the two-file project must be rejected too (what follows an INCLUDE nests as it would after the included lines)."""
    import rel
    thorough = tier == "thorough"
    fxs = load(tier, limit=None if thorough else 160, salt=8, single_file=True) + list(extra or [])
    rnd = random.Random(seed() * 31 + 8)
    cases, meta = [], {}
    for n, fx in enumerate(fxs):
        for j, (s, e, pk, nodes) in enumerate(sibling_runs(fx, random.Random(rnd.random()), 6 if thorough else 2)):
            name = rnd.choice(["vfpart.jst", "vfsub/part.jst", "vfsub/deep/p.jst"])
            ind = fx.data[s:len(fx.data) - len(fx.data[s:].lstrip(b" \t"))]
            depth = sum(1 if t == OPEN else -1 for (t, b, e2) in fx.lex if t in (OPEN, CLOSE) and b < s)
            variants = [("", b"")]
            if fx.obs["outcome"] == "ok" and depth == 0:
                for fl in rnd.sample(FOLLOWERS, 4 if thorough else 2):
                    variants.append((fl[0].split()[0], b"".join(ind + x.encode() + fx.nl for x in fl)))
            for v, (fk, ftxt) in enumerate(variants):
                flat = fx.data[:e] + ftxt + fx.data[e:]
                main = fx.data[:s] + ind + b"INCLUDE " + name.encode() + fx.nl + ftxt + fx.data[e:]
                files = {fx.root: main, name: fx.data[s:e]}
                cid = "fi%d_%d_%d" % (n, j, v)
                cases.append(case(cid, files, fx.root))
                if fk:
                    cases.append(case(cid + "f", {fx.root: flat}, fx.root))
                meta[cid] = (fx, pk, files, name, depth, fk, flat)
    obs = harness("run", cases)
    nfollow = 0
    for cid, (fx, pk, files, name, depth, fk, flat) in meta.items():
        a, b = (obs[cid + "f"] if fk else fx.obs), obs[cid]
        if fk and a["outcome"] == "ok":
            continue        # the added line is acceptable there: an ordinary pair, covered without followers
        if fk:
            nfollow += 1
        chk.evaluations += 1
        chk.traces += 1
        chk.nontrivial.add(("fx", fx.name, files[fx.root]))
        if rel.result_key(a) != rel.result_key(b):
            d = rel.json_diff(a["json"], b["json"]) if a["outcome"] == b["outcome"] == "ok" else ""
            sig = {"form": "fixture-run:" + (pk or "top"), "what": "moving directives into included files changed the result", "frames": ",".join(b.get("frames") or []),
                   "fixture": fx.name, "msg": (b.get("err") or {}).get("msg", ""),
                   "detail": "include-inside-open-parenthesis" if depth > 0 and a["outcome"] == "ok" and b["outcome"] == "error"
                   and (b["err"] or {}).get("file", "").endswith(name) else ""}
            chk.violation("moving a run of complete %s of %s into %s changed the result%s: one file %s, two files %s %s | main file:\n%s\n--- %s:\n%s" % (
                "children of " + pk if pk else "top-level directives", fx.name, name,
                " (a misplaced %s line follows the run)" % fk if fk else "", rel.describe(a), rel.describe(b), d,
                files[fx.root].decode("latin1")[:1200], name, files[name].decode("latin1")[:600]),
                {"kind": "fxpair", "fixture": fx.name, "root": fx.root, "files_a": {fx.root: b64(flat if fk else fx.data)},
                 "files_b": {k: b64(v) for k, v in files.items()}, "signature": sig}, sig)
    chk.extra["fixture_include_pairs"] = len(meta)
    chk.extra["fixture_include_pairs_with_misplaced_follower"] = nfollow


def c07(chk, tier):
    """the same runs moved into a MACRO and pasted in their place: if the macro form is accepted, the fixture (= the
    inlined document) is accepted with the same catalog"""
    import json
    import rel
    thorough = tier == "thorough"
    fxs = load(tier, limit=None if thorough else 160, salt=7, single_file=True)
    rnd = random.Random(seed() * 31 + 7)
    cases, meta = [], {}
    for n, fx in enumerate(fxs):
        tops = fx.forest
        if not tops or tops[0]["k"] != "JSIGHT":
            continue
        lsof = {b: ls for (ls, b, k, t, pt) in fx.kwl if t == KW}
        for j, (s, e, pk, nodes) in enumerate(sibling_runs(fx, random.Random(rnd.random()), 6 if thorough else 2, kinds_excluded=("JSIGHT", "MACRO"))):
            mname = b"@vfMacro%d" % j
            body = fx.data[s:e]
            macro = b"MACRO " + mname + fx.nl + b"(" + fx.nl + body + b")" + fx.nl
            paste = b"PASTE " + mname + fx.nl
            where = rnd.choice(["end", "begin"])
            if where == "end" or len(tops) < 2 or tops[1]["b"] not in lsof:
                data = fx.data[:s] + paste + fx.data[e:] + macro
            else:
                at = lsof[tops[1]["b"]]
                if at > s:
                    continue
                data = fx.data[:at] + macro + fx.data[at:s] + paste + fx.data[e:]
            cid = "fm%d_%d" % (n, j)
            cases.append(case(cid, {fx.root: data}, fx.root, timeout=15000))
            meta[cid] = (fx, pk, data, where)
    obs = harness("run", cases)
    accepted = 0
    for cid, (fx, pk, data, where) in meta.items():
        a, b = fx.obs, obs[cid]
        chk.evaluations += 1
        chk.traces += 1
        bad = None
        if b["outcome"] in ("panic", "fatal", "timeout"):
            bad = "macro form: %s" % rel.describe(b)
        elif b["outcome"] == "ok":
            accepted += 1
            chk.nontrivial.add(("fx", fx.name, data))
            if a["outcome"] != "ok":
                bad = "macro form accepted but the inlined document is not: %s" % rel.describe(a)
            elif json.loads(a["json"]) != json.loads(b["json"]):
                bad = "catalog of the macro form differs from the inlined document: %s" % rel.json_diff(a["json"], b["json"])
        if bad:
            sig = {"variant": "fixture-run:" + (pk or "top"), "what": bad.split(":")[0][:60], "frames": ",".join(b.get("frames") or []), "fixture": fx.name}
            chk.violation("%s (run of %s of fixture %s moved into a macro, defined at the %s) | macro form:\n%s" % (
                bad, "children of " + pk if pk else "top-level directives", fx.name, where, data.decode("latin1")[:1500]),
                {"kind": "fxpair", "fixture": fx.name, "root": fx.root, "files_a": {fx.root: b64(fx.data)}, "files_b": {fx.root: b64(data)},
                 "signature": sig}, sig)
    chk.extra["fixture_macro_forms"] = len(meta)
    chk.extra["fixture_macro_forms_accepted"] = accepted


ALL_KINDS = ["JSIGHT", "INFO", "Title", "Version", "Description", "SERVER", "BaseUrl", "URL", "GET", "POST", "PUT", "PATCH",
             "DELETE", "Body", "Request", "HTTP-response-code", "Path", "Headers", "Query", "TYPE", "ENUM", "MACRO", "PASTE",
             "INCLUDE", "Protocol", "Method", "Params", "Result", "TAG", "Tags"]


def c18(chk, tier):
    """accepted fixture projects (one file or many) with ban sets: a kind that occurs => 'not allowed' at a directive of
    that kind, nothing read for a banned INCLUDE; no banned kind occurs => exactly the result without the option"""
    import rel
    thorough = tier == "thorough"
    fxs = load(tier, want_ok=True, limit=None if thorough else 200, salt=18)
    rnd = random.Random(seed() * 31 + 18)
    cases, meta = [], {}
    for n, fx in enumerate(fxs):
        flat = preorder(fx.forest)
        used = {}
        for nd, _, _ in flat:
            used.setdefault(nd["k"], []).append((nd["f"], nd["b"]))
        if len(fx.files) > 1 or _INC.search(fx.data):
            for rel_, data in fx.files.items():
                for m in _INC.finditer(data):
                    used.setdefault("INCLUDE", []).append((rel_, m.start() + len(m.group(0)) - len(m.group(0).lstrip(b" \t"))))
        kinds = sorted(used)
        picks = kinds if thorough else rnd.sample(kinds, min(2, len(kinds)))
        for k in picks:
            if k == "JSIGHT":
                continue
            cid = "fb%d_%s" % (n, k)
            others = rnd.sample([x for x in ALL_KINDS if x not in used], rnd.randrange(0, 3))
            ban = [k] + others
            rnd.shuffle(ban)
            cases.append(case(cid, fx.files, fx.root, banned=ban))
            meta[cid] = (fx, ban, [k], used)
        unused = [x for x in ALL_KINDS if x not in used]
        for j in range(3 if thorough else 1):
            if not unused:
                break
            ban = rnd.sample(unused, rnd.randrange(1, min(6, len(unused)) + 1))
            cid = "fu%d_%d" % (n, j)
            kw = {"banned": ban}
            if j == 1 and len(ban) > 1:
                kw = {"banned": ban[:1], "banned2": ban[1:]}
            cases.append(case(cid, fx.files, fx.root, **kw))
            meta[cid] = (fx, ban, [], used)
    # the same fixtures without their JSIGHT line (rejected for that) with JSIGHT - which does not occur any more - and
    # other unused kinds banned: the rejection is the one given without the option
    nj = {}
    for n, fx in enumerate(fxs):
        if len(fx.files) != 1 or n % (1 if thorough else 6):
            continue
        m = re.search(rb"(?m)^[ \t]*JSIGHT[^\r\n]*(\r\n|\r|\n)", fx.data)
        if not m:
            continue
        data = fx.data[:m.start()] + fx.data[m.end():]
        kinds_used = {nd["k"] for nd, _, _ in preorder(fx.forest)} - {"JSIGHT"}
        free = [k for k in ALL_KINDS if k not in kinds_used and k != "INCLUDE"]
        ban = ["JSIGHT"] + rnd.sample([k for k in free if k != "JSIGHT"], rnd.randrange(0, 3))
        cases.append(case("nj%d_a" % n, {fx.root: data}, fx.root))
        cases.append(case("nj%d_b" % n, {fx.root: data}, fx.root, banned=ban))
        nj[n] = (fx, ban, data)
    obs = harness("run", cases)
    for n, (fx, ban, data) in nj.items():
        a, b = obs["nj%d_a" % n], obs["nj%d_b" % n]
        chk.evaluations += 1
        chk.traces += 1
        chk.nontrivial.add(("fx-nojsight", fx.name, tuple(ban)))
        ka = (a["outcome"], (a.get("err") or {}).get("index"), a.get("json"))
        kb = (b["outcome"], (b.get("err") or {}).get("index"), b.get("json"))
        if ka != kb:
            sig = {"ban": "none", "form": "fixture-without-jsight", "fixture": fx.name, "what": "unrelated ban changed result"}
            chk.violation("no banned kind occurs (banned %s, the document has no JSIGHT directive) but the result differs from the run without the option: %s vs %s | fixture %s without its JSIGHT line" % (
                ban, rel.describe(a), rel.describe(b), fx.name),
                {"kind": "fxban", "fixture": fx.name, "root": fx.root, "ban": ban, "occurs": [], "files_a": {fx.root: b64(data)}, "signature": sig}, sig)
    hit = 0
    for cid, (fx, ban, occurs, used) in meta.items():
        a, b = fx.obs, obs[cid]
        chk.evaluations += 1
        chk.traces += 1
        chk.nontrivial.add(("fx", fx.name, tuple(sorted(ban))))
        bad = None
        sig = {"ban": ",".join(occurs) or "none", "form": "fixture", "fixture": fx.name}
        if occurs:
            hit += 1
            if b["outcome"] != "error":
                bad = "banned kind(s) %s occur in the project, but the run was: %s" % (occurs, rel.describe(b))
                sig["what"] = "not rejected"
            else:
                e = b["err"]
                places = [(f, i) for k in ban for (f, i) in used.get(k, [])]
                if "not allowed" not in e["msg"]:
                    bad = "banned kind(s) %s occur, rejected but not with a 'not allowed' diagnostic: %r" % (occurs, e["msg"])
                    sig["what"] = "other diagnostic"
                elif not any(e["index"] == i and (e["file"] == f or e["file"].endswith("/" + f) or f.endswith("/" + e["file"])) for (f, i) in places):
                    bad = "'not allowed' diagnostic at %s:%d (byte %d), which is not a directive of a banned kind %s" % (e["file"], e["line"], e["index"], ban)
                    sig["what"] = "wrong location"
                if "INCLUDE" in ban and any(op == "read" for op, _ in b.get("fileops") or []):
                    bad = "INCLUDE is banned but an included file was read: %s" % b["fileops"]
                    sig["what"] = "file read"
        elif rel.result_key(a) != rel.result_key(b):
            bad = "no banned kind occurs (banned %s) but the result differs from the run without the option: %s vs %s" % (
                ban, rel.describe(a), rel.describe(b))
            sig["what"] = "unrelated ban changed result"
        if bad:
            chk.violation("%s | fixture %s" % (bad, fx.name),
                          {"kind": "fxban", "fixture": fx.name, "root": fx.root, "ban": ban, "occurs": occurs,
                           "files_a": {k: b64(v) for k, v in fx.files.items()}, "signature": sig}, sig)
    chk.extra["fixture_ban_cases"] = len(meta)
    chk.extra["fixture_ban_cases_with_banned_kind_present"] = hit


FRESH = [
    ("TYPE", ["TYPE @vfFreshType", "{", '  "vf": 1, // {optional: true}', '  "vg": "s"', "}"], [("userTypes", "@vfFreshType")]),
    ("TYPE", ["TYPE @vfFreshAny any"], [("userTypes", "@vfFreshAny")]),
    ("TYPE", ["TYPE @vfFreshRe regex", "  /^v[0-9]+$/"], [("userTypes", "@vfFreshRe")]),
    ("ENUM", ["ENUM @vfFreshEnum // fresh", "[", '  "a", // first', "  2", "]"], [("userEnums", "@vfFreshEnum")]),
    ("SERVER", ["SERVER @vfFreshServer // fresh", '  BaseUrl "https://vf.example.com/api"'], [("servers", "@vfFreshServer")]),
    ("TAG", ["TAG @vfFreshTag // Fresh"], [("tags", "@vfFreshTag")]),
    ("MACRO", ["MACRO @vfFreshMacro", "(", "  TYPE @vfNeverPasted any", "  ENUM @vfNeverE", '  ["q"]', ")"], []),
    ("GET", ["GET /vffreshroot/{vfid}/x // fresh", "  Path", "  {", '    "vfid": 1', "  }", "  200 any"],
     [("interactions", "http GET /vffreshroot/{vfid}/x"), ("tags", "@vffreshroot")]),
    ("URL", ["URL /vffreshrpc", "  Protocol json-rpc-2.0", "  Method vfm", "    Params", "      [1]", "    Result", "      {", '        "id": 1', "      }"],
     [("interactions", "json-rpc-2.0 vfm /vffreshrpc"), ("tags", "@vffreshrpc")]),
]
_DECL = {"TYPE": "userTypes", "ENUM": "userEnums", "SERVER": "servers", "TAG": "tags", "MACRO": None}


def _mirror_blocks(fx, rnd, count):
    """fresh methods whose paths repeat the shape of paths the document already has - same segments, same places of the
    parameters - under a first segment of their own and with parameter names of their own: unrelated to every existing
    path, however similar they look"""
    import json
    try:
        inter = json.loads(fx.obs["json"]).get("interactions") or {}
    except (ValueError, KeyError):
        return []
    paths = sorted({v.get("path", "") for v in inter.values() if v.get("protocol", "http") == "http" and "{" in v.get("path", "")})
    rnd.shuffle(paths)
    res = []
    for k, p in enumerate(paths[:count]):
        segs = [x for x in p.split("/") if x != ""]
        if len(segs) < 2 or not all(re.match(r"^[A-Za-z0-9_.{}-]+$", x) for x in segs):
            continue
        n = 0
        out = ["vfmirror%d" % k]
        for x in segs[1:] if not segs[0].startswith("{") else segs:
            if x.startswith("{") and x.endswith("}"):
                n += 1
                out.append("{vfm%d}" % n)
            else:
                out.append(x)
        if n == 0:
            continue
        path = "/" + "/".join(out)
        res.append(("GET", ["GET %s // mirror" % path, "  200 any"], [("interactions", "http GET " + path), ("tags", "@vfmirror%d" % k)]))
    # a first segment that differs from an existing one only in letter case is another segment with another tag
    allp = sorted({v.get("path", "") for v in inter.values()})
    firsts = {p.split("/")[1] for p in allp if p.startswith("/") and len(p.split("/")) > 1}
    for seg in sorted(firsts):
        sw = seg.swapcase()
        if re.match(r"^[A-Za-z]+$", seg) and sw != seg and sw not in firsts and ("@" + sw) not in (json.loads(fx.obs["json"]).get("tags") or {}):
            path = "/%s/vfcase" % sw
            res.append(("GET", ["GET %s // other case" % path, "  200 any"], [("interactions", "http GET " + path), ("tags", "@" + sw)]))
            break
    return res


def c20(chk, tier, extra=None):
    """fresh declarations appended to / inserted into accepted fixtures (and, extra, generated documents); top-level
    declarations whose name occurs nowhere else removed"""
    import json
    import c20 as C20
    thorough = tier == "thorough"
    fxs = load(tier, want_ok=True, limit=None, salt=20) + [f for f in (extra or []) if f.obs["outcome"] == "ok"]
    rnd = random.Random(seed() * 31 + 20)
    cases, meta = [], {}
    for n, fx in enumerate(fxs):
        if fx.nl is None or not fx.data.endswith((b"\n", b"\r")):
            continue
        alltext = b"\n".join(fx.files.values())
        if b"vfFresh" in alltext or b"vffresh" in alltext:
            continue
        tb = top_blocks(fx) if len(fx.files) == 1 else None
        fresh = (FRESH if thorough else rnd.sample(FRESH, 2)) + _mirror_blocks(fx, rnd, 5 if thorough else 3)
        mnames = re.findall(rb"(?m)^[ \t]*MACRO[ \t]+(@[A-Za-z0-9_]+)", alltext)
        if mnames and fx.obs["outcome"] == "ok":
            mn = rnd.choice(mnames).decode()
            fresh.append(("MACRO", ["MACRO @vfFreshTwice", "(", "  GET /vftwice/a", "    PASTE " + mn, "  POST /vftwice/b", "    PASTE " + mn,
                                    "  MACRO_PLACEHOLDER"], []))
            fresh[-1] = ("MACRO", [x for x in fresh[-1][1] if x != "  MACRO_PLACEHOLDER"] + [")"], [])
            if len(mnames) > 1:
                m2 = rnd.choice([x for x in mnames if x.decode() != mn] or mnames).decode()
                fresh.append(("MACRO", ["MACRO @vfFreshLeft", "(", "  PASTE " + mn, ")", "MACRO @vfFreshRight", "(", "  PASTE " + mn, "  PASTE " + m2, ")",
                                        "MACRO @vfFreshTop", "(", "  PASTE @vfFreshLeft", "  PASTE @vfFreshRight", ")"], []))
        for j, (kind, lines, keys) in enumerate(fresh):
            blk = fx.nl.join(x.encode() for x in lines) + fx.nl
            where = "end"
            data = fx.data + blk
            if tb and tb[0] and kind in ("TYPE", "ENUM", "SERVER") and rnd.random() < 0.6:
                cand = [b for b in tb[0] if b[2]["k"] not in ("PASTE", "TAG", "Description")]
                if cand:
                    at = rnd.choice(cand)[0]
                    data = fx.data[:at] + blk + fx.data[at:]
                    where = "before a top-level block"
            cid = "fa%d_%d" % (n, j)
            cases.append(case(cid, fx.text_files(data), fx.root, want=["forest"]))
            meta[cid] = (fx, "add", kind, keys, data, where, None)
        if tb:
            removable = list(tb[0])
            rnd.shuffle(removable)
            taken = 0
            for (st, en, node) in removable:
                if taken >= (8 if thorough else 3) or fx.obs.get("ms", 0) > 400:
                    break
                coll = _DECL.get(node["k"], "x")
                if coll == "x":
                    continue
                m = re.match(rb"[ \t]*[A-Za-z]+[ \t]+(@[A-Za-z0-9_]+)", fx.data[st:en])
                if not m:
                    continue
                nm = m.group(1)
                if len(re.findall(re.escape(nm) + rb"(?![A-Za-z0-9_])", alltext)) != 1:
                    continue
                data = fx.data[:st] + fx.data[en:]
                cid = "fr%d_%d" % (n, st)
                taken += 1
                cases.append(case(cid, {fx.root: data}, fx.root, want=["forest"]))
                meta[cid] = (fx, "remove", node["k"], [(coll, nm.decode())] if coll else [], data, "", repr(shape(node)))
    obs = harness("run", cases)
    judged = skipped = 0
    if os.environ.get("VERIF_DEBUG"):
        print(sorted(((o["ms"], k) for k, o in obs.items()), reverse=True)[:10])
    for cid, (fx, op, kind, keys, data, where, removed_shape) in meta.items():
        o = obs[cid]
        base_shapes = _top_shapes(fx.forest)
        shapes = _top_shapes(o.get("forest") or []) if "scan" in (o.get("stages") or []) else None
        if shapes is not None:
            if op == "add":
                extra = list(shapes)
                for x in base_shapes:
                    if x in extra:
                        extra.remove(x)
                if len(shapes) != len(base_shapes) + 1 or len(extra) != 1:
                    skipped += 1     # the fresh block changed where a neighbour nests: not an independent addition
                    continue
            else:
                rest = list(base_shapes)
                if removed_shape in rest:
                    rest.remove(removed_shape)
                if sorted(rest) != shapes:
                    skipped += 1
                    continue
        judged += 1
        chk.evaluations += 1
        chk.traces += 1
        chk.nontrivial.add(("fx", fx.name, op, kind, data))
        if op == "add":
            bad = C20.compare(fx.obs, o, keys)
        else:
            bad = C20.compare(o, fx.obs, keys)
        if bad:
            sig = {"what": bad.split(":")[0][:50], "kind": "fixture-" + op + "-" + kind, "fixture": fx.name}
            chk.violation("%s an independent %s block (%s) in fixture %s: %s | changed root file:\n%s" % (
                "adding" if op == "add" else "removing", kind, where, fx.name, bad, data.decode("latin1")[-1200:]),
                {"kind": "fxpair", "fixture": fx.name, "root": fx.root, "op": op, "keys": keys,
                 "files_a": {k: b64(v) for k, v in fx.files.items()}, "files_b": {k: b64(v) for k, v in fx.text_files(data).items()},
                 "signature": sig}, sig)
    chk.extra["fixture_locality_pairs"] = judged
    chk.extra["fixture_locality_skipped_nesting_changed"] = skipped


REQUIRED_PARAM = ["TYPE", "ENUM", "MACRO", "PASTE", "SERVER", "URL", "TAG", "Tags", "INCLUDE", "Title", "Version", "BaseUrl",
                  "Method", "Protocol", "JSIGHT"]
SINGLETON_CHILD = ["Title", "Version", "Description", "Query", "Path", "Protocol", "Body", "Headers", "BaseUrl", "Params", "Result", "Request"]
NAMED_DECL = ["TYPE", "ENUM", "MACRO", "SERVER", "TAG", "URL"]


def _directive_spans(fx):
    """[(keyword text, line start, keyword begin, end of the directive = line start of the next keyword or ')' line, lexeme index)]
    for keywords that begin their line"""
    d = fx.data
    starts = [(ls, b, k, t) for (ls, b, k, t, pt) in fx.kwl]
    res = []
    for i, (ls, b, k, t) in enumerate(starts):
        if t != KW:
            continue
        e = fx.lex[k][2]
        end = starts[i + 1][0] if i + 1 < len(starts) else len(d)
        res.append((d[b:e + 1].decode("latin1"), ls, b, end, k))
    return res


def c11(chk, tier):
    """single faults injected into accepted single-file fixtures by text edits at positions named by the real lexeme stream
    and forest: a required parameter deleted, a singleton child written twice, a named top-level declaration written
    twice.  The project must be rejected and the diagnostic must lie inside the directive at fault (either copy of a
    duplicate; for a directive pasted from a macro also the PASTE line)."""
    import rel
    thorough = tier == "thorough"
    fxs = load(tier, want_ok=True, limit=None, salt=11, single_file=True)
    rnd = random.Random(seed() * 31 + 11)
    cases, meta = [], {}
    percls = {}
    cap = 400 if thorough else 30          # per (fault, directive kind), over the whole corpus
    rnd.shuffle(fxs)
    for n, fx in enumerate(fxs):
        d = fx.data
        if fx.nl is None or not d.endswith((b"\n", b"\r")):
            continue
        spans = _directive_spans(fx)
        flat = preorder(fx.forest)
        bynode = {nd["b"]: (nd, par) for nd, par, _ in flat if nd["f"] == fx.root}
        paste_lines = [(ls, end) for (kw, ls, b, end, k) in spans if kw == "PASTE"]
        macro_spans = []
        tb = top_blocks(fx)
        if tb:
            macro_spans = [(st, en) for (st, en, nd) in tb[0] if nd["k"] == "MACRO"]
        cands = []
        order = [nd for nd, _, _ in flat]
        posn = {nd["b"]: i for i, nd in enumerate(order)}
        lsof = {b: ls for (kw, ls, b, end, k) in spans}

        def subtree_end(b):
            """line start of the first directive after the subtree of the directive at b"""
            nd = bynode[b][0]
            after = posn[b] + len(preorder([nd]))
            if after < len(order) and order[after]["b"] in lsof:
                return lsof[order[after]["b"]]
            return len(d)
        for (kw, ls, b, end, k) in spans:
            if b not in bynode:
                continue
            send = max(end, subtree_end(b))
            # 1. a required parameter deleted (all parameters of the line; the annotation stays)
            if kw in REQUIRED_PARAM:
                params = []
                j = k + 1
                le = line_end(d, b)
                while j < len(fx.lex) and fx.lex[j][0] == PARAM and fx.lex[j][1] < le:
                    params.append(fx.lex[j])
                    j += 1
                if params:
                    pb, pe = params[0][1], params[-1][2]
                    cut_from = fx.lex[k][2] + 1
                    cut_to = pe + 1
                    if d[cut_to:cut_to + 1] == b'"':
                        cut_to += 1
                    cut = cut_to - cut_from
                    sites = [(ls, send - cut + 1)]
                    # the name disappears with the parameter: a directive that refers to it is at fault as well
                    name = d[pb:pe + 1].split()[0].strip(b'"') if d[pb:pe + 1].split() else b""
                    if name.startswith(b"@"):
                        for (kw2, ls2, b2, end2, k2) in spans:
                            if b2 != b and re.search(re.escape(name) + rb"(?![A-Za-z0-9_])", d[ls2:end2]):
                                sh = -cut if ls2 > ls else 0
                                sites.append((ls2 + sh, end2 + sh))
                    if any(ls <= pl < send for (pl, _) in paste_lines):
                        # what the directive's subtree pastes belongs to it: a fault that shows in the pasted lines may be
                        # located in the macro they come from
                        sites += [(ms + (-cut if ms > ls else 0), me + (-cut if ms > ls else 0)) for (ms, me) in macro_spans]
                    cands.append(("missing_param", kw, d[:cut_from] + d[cut_to:], sites, ls))
                    if (fx.lex[k - 1][0] if k else -1) == TEXT:
                        # ... right after the text of a bare Description, with a comment glued to the keyword
                        glue = b"# gone"
                        cands.append(("missing_param_glued_comment", kw, d[:cut_from] + glue + d[cut_to:],
                                      [(st, en + len(glue) if st <= ls else en + len(glue)) for (st, en) in sites], ls))
            # 2. a singleton child written twice
            if kw in SINGLETON_CHILD and bynode[b][1] is not None and not bynode[b][0]["x"]:
                nd = bynode[b][0]
                if not nd["c"] and (fx.lex[k + 1][0] if k + 1 < len(fx.lex) else -1) != OPEN:
                    inside = [x for x in fx.lex if b <= x[1] < end]
                    if True:
                        cands.append(("dup_child", kw, d[:end] + d[ls:end] + d[end:], [(ls, end + (end - ls) + 1)], ls))
                        # ... the first copy with an empty quoted parameter: two children all the same
                        pj = [x for x in fx.lex[k + 1:k + 3] if x[0] == PARAM and x[1] < line_end(d, b)]
                        if pj and kw in ("Title", "Version", "BaseUrl", "Protocol", "Query"):
                            pb, pe = pj[0][1], pj[0][2]
                            q0 = pb - 1 if d[pb - 1:pb] == b'"' else pb
                            q1 = pe + 2 if d[pe + 1:pe + 2] == b'"' else pe + 1
                            first = d[ls:q0] + b'""' + d[q1:end]
                            cands.append(("dup_child_first_empty", kw, d[:ls] + first + d[ls:end] + d[end:], [(ls, ls + len(first) + (end - ls) + 1)], ls))
        if tb:
            for (st, en, nd) in tb[0]:
                if nd["k"] in NAMED_DECL:
                    cands.append(("dup_name", nd["k"], d + d[st:en], [(st, en), (len(d), len(d) + en - st)], st))
        rnd.shuffle(cands)
        for j, (fault, kw, data, sites, at) in enumerate(cands):
            inmacro = any(st <= at < en for (st, en) in macro_spans)
            cls = (fault, kw, inmacro)
            if percls.get(cls, 0) >= cap:
                continue
            percls[cls] = percls.get(cls, 0) + 1
            # a duplicate that arises inside a macro body may be reported at the PASTE lines that bring it in; a directive
            # that lacks its parameter is at fault where it stands
            if inmacro and fault != "missing_param":
                sites = sites + [(ls2 + (len(data) - len(d) if ls2 > at else 0), e2 + (len(data) - len(d) if ls2 > at else 0)) for (ls2, e2) in paste_lines]
            cid = "ff%d_%d" % (n, j)
            cases.append(case(cid, {fx.root: data}, fx.root))
            meta[cid] = (fx, fault, kw, data, sites)
    obs = harness("run", cases)
    kinds = {}
    for cid, (fx, fault, kw, data, sites) in meta.items():
        o = obs[cid]
        chk.evaluations += 1
        chk.traces += 1
        chk.nontrivial.add(("fx", fx.name, fault, data))
        kinds[fault + ":" + kw] = kinds.get(fault + ":" + kw, 0) + 1
        bad, what = None, ""
        if o["outcome"] in ("panic", "fatal", "timeout"):
            continue          # C01's
        if o["outcome"] != "error":
            bad = "fault %s:%s injected into fixture %s, but the document was: %s" % (fault, kw, fx.name, rel.describe(o))
            what = "not rejected"
        else:
            e = o["err"]
            if not (e["file"].endswith(fx.root) and any(st <= e["index"] < en for (st, en) in sites)):
                bad = "fault %s:%s in fixture %s rejected (%r) but the diagnostic at byte %d (line %d) is outside the directive(s) at fault %s" % (
                    fault, kw, fx.name, e["msg"], e["index"], e["line"], sites)
                what = "located elsewhere"
        if bad:
            sig = {"fault": fault.split("_glued")[0], "via": "fixture", "what": what, "block": kw.lower(), "detail": "glued-comment" if "_glued" in fault else "", "outcome": o["outcome"],
                   "msg": (o.get("err") or {}).get("msg", ""), "frames": ",".join(o.get("frames") or []), "fixture": fx.name}
            chk.violation("%s | document:\n%s" % (bad, data.decode("latin1")[:1500]),
                          {"kind": "fxfault", "fixture": fx.name, "root": fx.root, "fault": fault, "kw": kw, "sites": sites,
                           "files_b": {fx.root: b64(data)}, "signature": sig}, sig)
    chk.extra["fixture_faults_by_kind"] = kinds


def replay(pid, rp):
    """re-runs a recorded fixture case and judges it by the rule of property pid"""
    import json
    import rel
    from common import Check
    chk = Check(pid, "quick")
    chk.evaluations = 1
    sig = rp.get("signature")
    if rp["kind"] == "fxfault":
        o = harness("run", [{"id": "b", "files": rp["files_b"], "root": rp["root"]}])["b"]
        if o["outcome"] != "error" or not any(st <= o["err"]["index"] < en for (st, en) in rp["sites"]):
            chk.violation("reproduced: %s" % rel.describe(o), rp, sig)
        return chk.finish()
    if rp["kind"] == "fxban":
        o = harness("run", [{"id": "a", "files": rp["files_a"], "root": rp["root"]},
                            {"id": "b", "files": rp["files_a"], "root": rp["root"],
                             "banned": ["200" if k == "HTTP-response-code" else k for k in rp["ban"]]}])
        a, b = o["a"], o["b"]
        if rp["occurs"]:
            if b["outcome"] != "error" or "not allowed" not in b["err"]["msg"] or sig.get("what") == "wrong location":
                chk.violation("reproduced: with %s banned the run was %s" % (rp["ban"], rel.describe(b)), rp, sig)
        elif rel.result_key(a) != rel.result_key(b):
            chk.violation("reproduced: %s vs %s" % (rel.describe(a), rel.describe(b)), rp, sig)
        return chk.finish()
    o = harness("run", [{"id": "a", "files": rp["files_a"], "root": rp["root"], "want": ["forest"]},
                        {"id": "b", "files": rp["files_b"], "root": rp["root"], "want": ["forest"]}])
    a, b = o["a"], o["b"]
    bad = None
    if pid in ("C05", "C08"):
        if rel.result_key(a) != rel.result_key(b):
            bad = "the two forms differ: %s vs %s" % (rel.describe(a), rel.describe(b))
    elif pid == "C07":
        if b["outcome"] in ("panic", "fatal", "timeout"):
            bad = "macro form: %s" % rel.describe(b)
        elif b["outcome"] == "ok" and (a["outcome"] != "ok" or json.loads(a["json"]) != json.loads(b["json"])):
            bad = "macro form accepted, inlined document %s" % rel.describe(a)
    elif pid == "C10":
        import c10 as C10
        bad = C10.compare_perm(a, b, None, rp.get("perm"))
    elif pid == "C20":
        import c20 as C20
        keys = [tuple(k) for k in rp["keys"]]
        bad = C20.compare(a, b, keys) if rp["op"] == "add" else C20.compare(b, a, keys)
    if bad:
        chk.violation("reproduced: " + bad, rp, sig)
    return chk.finish()


if __name__ == "__main__":
    import sys
    import time
    from common import Check
    common.EVID = "/tmp/fixrel-evid"
    common.build_harness()
    fam = sys.argv[1]
    tier = sys.argv[2] if len(sys.argv) > 2 else "quick"
    chk = Check(fam.upper(), tier)
    t0 = time.time()
    globals()[fam](chk, tier)
    print("took %.1fs" % (time.time() - t0), {k: v for k, v in chk.extra.items()})
    sys.exit(chk.finish())
