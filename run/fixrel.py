"""Relational drivers over the repository's own fixture corpus (testdata/**/*.jst).

The relational properties (C05 C07 C08 C10 C18 C20) compare two real runs and need no oracle for the
common value, so they can be driven by any document - in particular by the ≈560 root files the
library's authors wrote to cover the language, which use far more of it than the JSightApi generator
does (regex / any / empty notations, or-types, arrays, nested rules, macros in macros, includes of
includes, JSON-RPC, headers, every response code ...).

The document model used for rewriting is the REAL one: the lexeme stream of the real scanner (where
directive lines begin, what precedes them) and the forest the real scan stage built (which
directives are top-level blocks, which are children of which, which are parenthesised).  The
transformation itself is a text edit at positions named by that model; the choice of positions is
seeded by VERIF_SEED.  Guards (a transformed document must have the forest the transformation
intends, up to positions) are evaluated on the real forest of the transformed document and skip -
never accuse - a pair whose transformation did not do what was meant."""
import os
import random
import re

import common
from common import b64, harness, seed

KW, PARAM, ANNOT, SCHEMA, JSON_, TEXT, OPEN, CLOSE, ENUM = range(9)
_INC = re.compile(rb"(?m)^[ \t]*INCLUDE[ \t]+\"?([^\s\"]+)")


class Fx:
    __slots__ = ("path", "name", "files", "root", "data", "nl", "lex", "obs", "forest", "kwl", "err")

    def text_files(self, data=None):
        f = dict(self.files)
        if data is not None:
            f[self.root] = data
        return f


def _reach(base, rel, files, depth=0):
    p = os.path.normpath(os.path.join(base, rel))
    if rel in files or depth > 8 or not os.path.isfile(p) or not p.startswith(base):
        return
    try:
        data = open(p, "rb").read()
    except OSError:
        return
    files[rel] = data
    for m in _INC.finditer(data):
        nm = m.group(1).decode("latin1")
        sub = os.path.normpath(os.path.join(os.path.dirname(rel), nm))
        if not sub.startswith(".."):
            _reach(base, sub, files, depth + 1)


def case(cid, files, root, **kw):
    c = {"id": cid, "files": {k: b64(v) for k, v in files.items()}, "root": root}
    c.update(kw)
    return c


def line_start(data, i):
    while i > 0 and data[i - 1:i] not in (b"\n", b"\r"):
        i -= 1
    return i


def newline_of(data):
    crlf = data.count(b"\r\n")
    lf = data.count(b"\n") - crlf
    cr = data.count(b"\r") - crlf
    kinds = [(crlf, b"\r\n"), (lf, b"\n"), (cr, b"\r")]
    used = [k for k in kinds if k[0]]
    if len(used) > 1:
        return None
    return used[0][1] if used else b"\n"


def load(tier, want_ok=None, limit=None, salt=0, single_file=False):
    """fixture projects (root = a file that holds a JSIGHT directive) with lexemes, base observation and forest.
    want_ok: None = all, True = accepted only.  limit: sample size (seeded)."""
    root = os.path.join(common.REPO, "testdata")
    roots = []
    for d, _, ff in os.walk(root):
        for f in sorted(ff):
            if f.endswith(".jst"):
                roots.append(os.path.join(d, f))
    roots.sort()
    fxs = []
    for p in roots:
        try:
            data = open(p, "rb").read()
        except OSError:
            continue
        if not re.search(rb"(?m)^[ \t]*JSIGHT[ \t]", data) or len(data) > 60000:
            continue
        fx = Fx()
        fx.path, fx.name = p, os.path.relpath(p, root)
        fx.root = os.path.basename(p)
        fx.files = {}
        _reach(os.path.dirname(p), fx.root, fx.files)
        if fx.root not in fx.files or (single_file and len(fx.files) > 1):
            continue
        if sum(len(v) for v in fx.files.values()) > 120000:
            continue
        fx.data = data
        fx.nl = newline_of(data)
        fxs.append(fx)
    rnd = random.Random(seed() * 7919 + salt)
    if limit and len(fxs) > limit * 2:
        # the base runs decide which are usable: take a superset, trim later
        fxs = rnd.sample(fxs, min(len(fxs), limit * 2))
        fxs.sort(key=lambda f: f.name)
    lex = harness("lex", [{"id": fx.name, "b64": b64(fx.data)} for fx in fxs])
    obs = harness("run", [case(fx.name, fx.files, fx.root, want=["forest"]) for fx in fxs])
    res = []
    for fx in fxs:
        lo, o = lex[fx.name], obs[fx.name]
        if lo.get("panic") or o["outcome"] not in ("ok", "error"):
            continue
        if want_ok and o["outcome"] != "ok":
            continue
        fx.lex = [tuple(x) for x in lo["lex"]]
        fx.err = lo["err_idx"]
        fx.obs = o
        fx.forest = o.get("forest") or []
        fx.kwl = kwlines(fx)
        res.append(fx)
    if limit and len(res) > limit:
        res = rnd.sample(res, limit)
        res.sort(key=lambda f: f.name)
    return res


def kwlines(fx):
    """lexemes that begin their line: (line start, lexeme begin, lexeme index, type, type of the previous lexeme)"""
    res = []
    d = fx.data
    for k, (t, b, e) in enumerate(fx.lex):
        if t in (KW, OPEN, CLOSE):
            ls = line_start(d, b)
            if d[ls:b].strip(b" \t") == b"":
                res.append((ls, b, k, t, fx.lex[k - 1][0] if k else -1))
    return res


def line_end(data, i):
    """index of the first byte of the line end after position i (or len)"""
    while i < len(data) and data[i:i + 1] not in (b"\n", b"\r"):
        i += 1
    return i


def after_line(data, i):
    i = line_end(data, i)
    if data[i:i + 2] == b"\r\n":
        return i + 2
    return min(len(data), i + 1)


# ------------------------------------------------------------------------------------------------
# C05 rewritings


def _ins_positions(fx):
    """line starts of directive keyword lines before which trivia lines may be inserted: a keyword that begins its
    line, is not preceded by bare Description text (the inserted line would be read as text) and is not the first
    lexeme after the keyword of its own directive"""
    return [ls for (ls, b, k, t, pt) in fx.kwl if t == KW and pt != TEXT]


def rw_comments(fx, rnd):
    if fx.nl is None:
        return None
    pos = [p for p in _ins_positions(fx) if rnd.random() < 0.5]
    if not pos:
        return None
    out, last = [], 0
    n = 0
    for p in pos:
        out.append(fx.data[last:p])
        n += 1
        kind = rnd.randrange(4)
        if kind == 0:
            out.append(b"# c%d" % n + fx.nl)
        elif kind == 1:
            out.append(b"  \t# note %d #" % n + fx.nl)
        elif kind == 2:
            out.append(b"###" + fx.nl + b" block %d" % n + fx.nl + b" GET /not-a-directive" + fx.nl + b"###" + fx.nl)
        else:
            out.append(b"#c" + fx.nl + b"# d" + fx.nl)
        last = p
    out.append(fx.data[last:])
    return b"".join(out)


def rw_blank(fx, rnd):
    if fx.nl is None:
        return None
    pos = [p for p in _ins_positions(fx) if rnd.random() < 0.5]
    if not pos:
        return None
    out, last = [], 0
    for p in pos:
        out.append(fx.data[last:p])
        out.append(rnd.choice([fx.nl, fx.nl * 2, b"   " + fx.nl, b"\t" + fx.nl + fx.nl]))
        last = p
    out.append(fx.data[last:])
    return b"".join(out)


def rw_indent(fx, rnd):
    """changes the indentation of directive lines (keyword, '(' and ')' lines); body and text lines keep theirs"""
    ind = rnd.choice([b"", b" ", b"    ", b"\t", b"      \t"])
    out, last = [], 0
    changed = False
    for (ls, b, k, t, pt) in fx.kwl:
        if t in (OPEN, CLOSE):
            # the parentheses of a description enclose text whose indentation is meaningful relative to nothing but
            # itself; a '(' / ')' line may move freely
            pass
        new = ind if rnd.random() < 0.8 else rnd.choice([b"", b"  ", b"\t\t"])
        if fx.data[ls:b] != new:
            changed = True
        out.append(fx.data[last:ls])
        out.append(new)
        last = b
    out.append(fx.data[last:])
    return b"".join(out) if changed else None


def rw_trailing(fx, rnd):
    """blanks at the end of directive lines whose last lexeme is a keyword, a parameter or an annotation"""
    d = fx.data
    ends = []
    for k, (t, b, e) in enumerate(fx.lex):
        if t not in (KW, PARAM, ANNOT, OPEN, CLOSE):
            continue
        le = line_end(d, e if e >= b else b)
        nxt = fx.lex[k + 1][1] if k + 1 < len(fx.lex) else len(d) + 1
        if nxt < le:
            continue            # not the last lexeme of its line
        tail = d[e + 1:le]
        if t == ANNOT:
            # the lexeme of a // annotation ends with the text; of a block annotation before the closing delimiter
            if tail.strip(b" \t") not in (b"", b"*/"):
                continue
            if b"\n" in d[b:e + 1] or b"\r" in d[b:e + 1]:
                continue
        elif tail.strip(b" \t") != b"":
            continue
        ends.append(le)
    ends = sorted(set(p for p in ends if rnd.random() < 0.6))
    if not ends:
        return None
    out, last = [], 0
    for p in ends:
        out.append(d[last:p])
        out.append(rnd.choice([b" ", b"   ", b"\t", b" \t "]))
        last = p
    out.append(d[last:])
    return b"".join(out)


def rw_newlines(fx, rnd, to):
    if fx.nl != b"\n" or to == b"\n":
        return None
    return fx.data.replace(b"\n", to)


def _subtree_last_lexeme(fx, node, nxt_begin):
    """index of the last lexeme that starts before nxt_begin"""
    last = None
    for k, (t, b, e) in enumerate(fx.lex):
        if b < nxt_begin:
            last = k
    return last


def preorder(forest, root_only=None):
    out = []

    def rec(n, parent, depth):
        out.append((n, parent, depth))
        for c in n["c"]:
            rec(c, n, depth + 1)
    for n in forest:
        rec(n, None, 0)
    return out


def rw_parens(fx, rnd):
    """puts the children of directives that nest implicitly into explicit parentheses"""
    if fx.nl is None or fx.obs["outcome"] != "ok":
        return None
    d = fx.data
    nodes = [x for x in preorder(fx.forest) if x[0]["f"] == fx.root]
    if any(n["f"] != fx.root for n, _, _ in preorder(fx.forest)):
        return None                 # children from included files: the run is not contiguous in one file
    kwb = sorted(b for (ls, b, k, t, pt) in fx.kwl if t == KW)
    lsof = {b: ls for (ls, b, k, t, pt) in fx.kwl if t == KW}
    edits = []
    flat = [n for n, _, _ in nodes]
    for i, (n, parent, depth) in enumerate(nodes):
        if not n["c"] or n["x"] or n["k"] in ("MACRO",) or rnd.random() < 0.5:
            continue
        first = n["c"][0]["b"]
        # end of the subtree = begin of the next directive in pre-order that is not a descendant
        size = len(preorder([n]))
        nxt = flat[i + size]["b"] if i + size < len(flat) else None
        if first not in lsof or (nxt is not None and nxt not in lsof):
            continue
        # the last lexeme of the subtree must not be bare text: a ')' line after it would be read as text
        endpos = lsof[nxt] if nxt is not None else len(d)
        last = None
        for (t, b, e) in fx.lex:
            if b < (nxt if nxt is not None else len(d) + 1):
                last = (t, b, e)
        if last is None or last[0] == TEXT:
            continue
        # an open parenthesis between the directive and its first child (Description "(") would be confused: skip when
        # any OPEN/CLOSE lexeme lies between the keyword and the first child
        if any(t in (OPEN, CLOSE) and n["b"] < b < first for (t, b, e) in fx.lex):
            continue
        if nxt is None and not d.endswith((b"\n", b"\r")):
            edits.append((len(d), fx.nl + b")" + fx.nl))
        else:
            edits.append((endpos, b")" + fx.nl))
        edits.append((lsof[first], b"(" + fx.nl))
    if not edits:
        return None
    # closing parentheses of inner subtrees come before those of outer ones at the same position
    out = bytearray(d)
    for pos, txt in sorted(edits, key=lambda x: (-x[0], 0 if x[1].startswith(b"(") else 1)):
        out[pos:pos] = txt
    return bytes(out)


C05_FAMILIES = {
    "comments": rw_comments, "blank": rw_blank, "indent": rw_indent, "trailing": rw_trailing, "parens": rw_parens,
    "crlf": lambda fx, rnd: rw_newlines(fx, rnd, b"\r\n"), "cr": lambda fx, rnd: rw_newlines(fx, rnd, b"\r"),
}


# ------------------------------------------------------------------------------------------------
# blocks


def shape(n):
    """a directive subtree without positions"""
    return [n["k"], n.get("kw", ""), bool(n["x"]), sorted((n.get("p") or {}).items()), n.get("u") or [], n.get("a", ""),
            bool(n.get("body")), [shape(c) for c in n["c"]]]


def top_blocks(fx):
    """top-level blocks of the root file: [(start, end, node)], the JSIGHT block excluded; None if the file's top
    level is not a clean sequence of lines (or a top-level node comes from another file in between)"""
    d = fx.data
    lsof = {b: ls for (ls, b, k, t, pt) in fx.kwl if t == KW}
    tops = fx.forest
    if not tops or tops[0]["k"] != "JSIGHT" or tops[0]["f"] != fx.root:
        return None
    res = []
    mine = [n for n in tops]
    for i, n in enumerate(mine):
        if n["f"] != fx.root:
            return None          # top-level directives that come from an included file: positions are not comparable
        if n["b"] not in lsof:
            return None
    for i, n in enumerate(mine):
        s = lsof[n["b"]]
        e = lsof[mine[i + 1]["b"]] if i + 1 < len(mine) else len(d)
        res.append((s, e, n))
    if not d.endswith((b"\n", b"\r")):
        return None
    return res[1:], res[0]


# ------------------------------------------------------------------------------------------------
# drivers (called from the cNN modules)


def c05(chk, tier):
    import rel
    thorough = tier == "thorough"
    fxs = load(tier, limit=None if thorough else 140, salt=5)
    rnd = random.Random(seed() * 31 + 5)
    cases, meta = [], {}
    for n, fx in enumerate(fxs):
        names = list(C05_FAMILIES)
        if not thorough:
            names = rnd.sample(names, 3)
        for nm in names:
            for rep in range(2 if thorough and nm in ("comments", "blank", "indent", "parens", "trailing") else 1):
                try:
                    data = C05_FAMILIES[nm](fx, random.Random(rnd.random()))
                except Exception as ex:        # a rewriting that cannot be applied to this fixture
                    chk.extra.setdefault("fixture_rewrite_errors", []).append("%s %s %r" % (fx.name, nm, ex))
                    data = None
                if data is None or data == fx.data:
                    continue
                cid = "fx%d_%s_%d" % (n, nm, rep)
                cases.append(case(cid, fx.text_files(data), fx.root))
                meta[cid] = (fx, nm, data)
    obs = harness("run", cases)
    judged = 0
    for cid, (fx, nm, data) in meta.items():
        a, b = fx.obs, obs[cid]
        chk.evaluations += 1
        chk.traces += 1
        judged += 1
        chk.nontrivial.add(("fx", fx.name, nm, data))
        if rel.result_key(a) != rel.result_key(b):
            d = rel.json_diff(a["json"], b["json"]) if a["outcome"] == b["outcome"] == "ok" else None
            sig = {"rewrite": "fixture-" + nm, "base": a["outcome"], "variant": b["outcome"],
                   "msg": (b.get("err") or {}).get("msg", "") + b.get("panic", ""), "detail": fx.name}
            chk.violation("rewriting '%s' of fixture %s changed the result: original %s, rewritten %s %s | rewritten root file:\n%s" % (
                nm, fx.name, rel.describe(a), rel.describe(b), d or "", data.decode("latin1")[:1500]),
                {"kind": "fxpair", "rewrite": nm, "fixture": fx.name, "root": fx.root,
                 "files_a": {k: b64(v) for k, v in fx.files.items()}, "files_b": {k: b64(v) for k, v in fx.text_files(data).items()},
                 "signature": sig}, sig)
    chk.extra["fixture_pairs_c05"] = judged
    chk.extra["fixtures_used_c05"] = len(fxs)


def replay_pair(rp):
    """two runs of a recorded fixture pair"""
    o = harness("run", [{"id": "a", "files": rp["files_a"], "root": rp["root"], "want": ["forest"]},
                        {"id": "b", "files": rp["files_b"], "root": rp["root"], "want": ["forest"]}])
    return o["a"], o["b"]


if __name__ == "__main__":
    import sys
    import time
    from common import Check
    common.EVID = "/tmp/fixrel-evid"
    common.build_harness()
    fam = sys.argv[1]
    tier = sys.argv[2] if len(sys.argv) > 2 else "quick"
    chk = Check(fam.upper(), tier)
    t0 = time.time()
    globals()[fam](chk, tier)
    print("took %.1fs" % (time.time() - t0), {k: v for k, v in chk.extra.items()})
    sys.exit(chk.finish())
