"""C15 Descriptions and annotations are normalised text, the same in either spelling.

(1) The real description normaliser (verif export) evaluated on every string over
    {a b sp TAB CR LF #} up to the bound; TLC judges the table against the declarative normal
    form NF, idempotence and the parenthesised spelling (JSightText!DescriptionJudge).
(2) catalog.Annotation on every string over {a sp TAB CR LF}: whitespace runs collapsed.
(3) End to end through the scanner: texts made of lines (plain, indented, blank, '#'-lines,
    digit lines, keyword-looking lines in the parenthesised spelling only) under the four
    description hosts, bare and parenthesised; annotations after '//' and in '/* */';
    TLC judges the catalog texts against NF / AnnotNF of the intended text."""
import itertools
import json
import re
import random

import rel
import textfn
from common import Check, b64, harness, seed

D_ALPHA = ["a", "b", " ", "\t", "\r", "\n", "#"]
A_ALPHA = ["a", " ", "\t", "\r", "\n"]

HOSTS = {
    "info": ("JSIGHT 0.3\nINFO\n  Title \"T\"\n  Description\n%s", lambda c: c["info"].get("description")),
    "http": ("JSIGHT 0.3\nGET /d\n  Description\n%s  200 any\n", lambda c: next(iter(c["interactions"].values())).get("description")),
    # a bare description ends at the next directive line: response codes with every kind of digit
    "http409": ("JSIGHT 0.3\nGET /d\n  Description\n%s  409 any\n", lambda c: next(iter(c["interactions"].values())).get("description")),
    "http599": ("JSIGHT 0.3\nPOST /d\n  Description\n%s  599 any\n  190 any\n", lambda c: next(iter(c["interactions"].values())).get("description")),
    "rpc": ("JSIGHT 0.3\nURL /r\n  Protocol json-rpc-2.0\n  Method m\n    Description\n%s    Result\n    {}\n",
            lambda c: next(iter(c["interactions"].values())).get("description")),
    "tag": ("JSIGHT 0.3\nTAG @t\n  Description\n%s", lambda c: c["tags"]["@t"].get("description")),
    # the same Description directive expanded twice from one macro: both copies must read the same text
    "macro_twice": ("JSIGHT 0.3\nMACRO @d\n(\n  Description\n%s)\nGET /first\n  PASTE @d\n  200 any\nGET /second\n  PASTE @d\n  200 any\n",
                    lambda c: (c["interactions"]["http GET /first"].get("description"), c["interactions"]["http GET /second"].get("description"))),
}
SAFE_LINES = ["text one", "  indented two", "", "    deeper", "\ttabbed", "# not a comment", "x  y", "  ", "1 is a digit", "- item"]
PAREN_ONLY_LINES = ["GET it", "URL shortener", "200 reasons", "Description of it", "Body"]


def dec_text(o):
    return textfn.unb64(o["out"]).decode("utf-8", "surrogateescape")


def table_description(chk, tier):
    maxlen = 5 if tier == "thorough" else 4
    ins = list(textfn.all_strings(D_ALPHA, maxlen))
    o1 = textfn.text_rows("description", ins)
    outs = [dec_text(o) for o in o1]
    o2 = textfn.text_rows("description", outs)
    o3 = textfn.text_rows("description", ["(\n" + s + "\n)" for s in ins])
    rows = []
    for s, a, b, c in zip(ins, o1, o2, o3):
        rows.append({"in": textfn.enc(s), "out": textfn.enc(dec_text(a)), "err": bool(a.get("err")),
                     "out2": textfn.enc(dec_text(b)), "alt": textfn.enc(dec_text(c)), "alterr": bool(c.get("err")),
                     "panic": bool(a.get("panic") or b.get("panic") or c.get("panic"))})
    for rep in textfn.judge(chk, "description", D_ALPHA, maxlen, rows, "description_table"):
        s = ins[rep["row"] - 1] if rep["row"] else ""
        r = rows[rep["row"] - 1] if rep["row"] else {}
        sig = {"level": "function", "what": rep["why"], "cls": desc_class(s)}
        chk.violation("description(%r) = %r (twice: %r, parenthesised: %r): %s" % (
            s, textfn.dec(r.get("out", [])), textfn.dec(r.get("out2", [])), textfn.dec(r.get("alt", [])), rep["why"]),
            {"kind": "description_fn", "text": s, "why": rep["why"], "signature": sig}, sig)
    chk.nontrivial.update("d:" + s for s in ins[:3000])
    # second table: texts built from whole lines (deeper structure than the character bound reaches)
    pool = ["a", " a", "  a", "   b", " ", "  ", "", "\ta", "b"]
    nl = 4 if tier == "thorough" else 3
    ins2 = sorted(set("\n".join(t) for n in range(1, nl + 1) for t in itertools.product(pool, repeat=n)))
    o1 = textfn.text_rows("description", ins2)
    outs = [dec_text(o) for o in o1]
    o2 = textfn.text_rows("description", outs)
    o3 = textfn.text_rows("description", ["(\n" + s + "\n)" for s in ins2])
    rows = []
    for s, a, b, c in zip(ins2, o1, o2, o3):
        rows.append({"in": textfn.enc(s), "out": textfn.enc(dec_text(a)), "err": bool(a.get("err")),
                     "out2": textfn.enc(dec_text(b)), "alt": textfn.enc(dec_text(c)), "alterr": bool(c.get("err")),
                     "panic": bool(a.get("panic") or b.get("panic") or c.get("panic"))})
    for rep in textfn.judge(chk, "description_lines", ["a", "b", " ", "\t", "\n"], 10 ** 6, rows, "description_line_table"):
        s = ins2[rep["row"] - 1] if rep["row"] else ""
        r = rows[rep["row"] - 1] if rep["row"] else {}
        sig = {"level": "function", "what": rep["why"], "cls": desc_class(s)}
        chk.violation("description(%r) = %r (twice: %r, parenthesised: %r): %s" % (
            s, textfn.dec(r.get("out", [])), textfn.dec(r.get("out2", [])), textfn.dec(r.get("alt", [])), rep["why"]),
            {"kind": "description_fn", "text": s, "why": rep["why"], "signature": sig}, sig)


def desc_class(s):
    lines = s.replace("\r\n", "\n").replace("\r", "\n").split("\n")
    first = next((x for x in lines if x.strip(" \t")), "")
    if lines and lines[0].strip(" \t") == "" and lines[0] != "" and first:
        return "leading-blank-line-with-spaces"
    if any(x.strip(" \t") == "" and x != "" for x in lines):
        return "whitespace-only-line"
    if "\t" in s and " " in s:
        return "mixed-tabs-spaces"
    return "other"


def table_annotation(chk, tier):
    maxlen = 6 if tier == "thorough" else 5
    ins = list(textfn.all_strings(A_ALPHA, maxlen))
    o1 = textfn.text_rows("annotation", ins)
    rows = [{"in": textfn.enc(s), "out": textfn.enc(dec_text(a)), "err": False, "panic": bool(a.get("panic"))} for s, a in zip(ins, o1)]
    for rep in textfn.judge(chk, "annotation", A_ALPHA, maxlen, rows, "annotation_table"):
        s = ins[rep["row"] - 1] if rep["row"] else ""
        sig = {"level": "function", "what": rep["why"], "cls": "annotation"}
        chk.violation("Annotation(%r): %s" % (s, rep["why"]), {"kind": "annotation_fn", "text": s, "signature": sig}, sig)


def e2e_descriptions(chk, tier, rnd):
    texts = []
    pool = SAFE_LINES
    for n in (1, 2, 3):
        for t in itertools.product(pool, repeat=n):
            texts.append(("\n".join(t), True))
    rnd.shuffle(texts)
    texts = texts[:(1500 if tier == "thorough" else 250)]
    for _ in range(300 if tier == "thorough" else 60):
        k = rnd.randrange(1, 5)
        ls = [rnd.choice(SAFE_LINES + PAREN_ONLY_LINES) for _ in range(k)]
        texts.append(("\n".join(ls), not any(x in PAREN_ONLY_LINES for x in ls)))
    cases, meta = [], {}
    n = 0
    for text, bare_ok in texts:
        first = next((x for x in text.split("\n") if x.strip()), "")
        if first.lstrip().startswith("(") or any(x.lstrip(" \t").startswith(")") for x in text.split("\n")):
            continue
        for host, (tpl, get) in HOSTS.items():
            if tier != "thorough" and rnd.random() < 0.5:
                continue
            ind = "      "
            bare = "".join(ind + ln + "\n" for ln in text.split("\n"))
            par = ind + "(\n" + "".join(ind + ln + "\n" for ln in text.split("\n")) + ind + ")\n"
            cb, cp = "b%d" % n, "p%d" % n
            n += 1
            nl = rnd.choice(["\n", "\n", "\r\n", "\r"])       # the whole file in one newline convention
            if rnd.random() < 0.35:
                # the directive lines of the host indented with TABs (the text keeps its blanks)
                tpl = re.sub(r"(?m)(^|%s)( +)(?=\S)", lambda mm: mm.group(1) + "\t" * max(1, len(mm.group(2)) // 2), tpl)
            if bare_ok:
                cases.append(rel.case(cb, (tpl % bare).replace("\n", nl)))
            cases.append(rel.case(cp, (tpl % par).replace("\n", nl)))
            meta[n] = (text, host, get, cb if bare_ok else None, cp, ind)
    obs = harness("run", cases)
    rows, src = [], []
    for k, (text, host, get, cb, cp, ind) in meta.items():
        def val(cid):
            o = obs[cid]
            if o["outcome"] == "ok":
                try:
                    v = get(json.loads(o["json"]))
                    if isinstance(v, tuple):      # two expansions of one macro: they must agree; a disagreement is
                        v = v[0] if v[0] == v[1] else "<<first: %r second: %r>>" % v   # shown as a text no NF can equal
                    return v or "", False, False
                except Exception:
                    return "", True, False
            return "", True, o["outcome"] != "error"
        intended = "\n".join(ind + ln for ln in text.split("\n"))
        ob, eb, pb = val(cb) if cb else ("", False, False)
        op, ep, pp = val(cp)
        rows.append({"in": textfn.enc(intended), "out": textfn.enc(ob), "err": eb, "hasbare": cb is not None,
                     "alt": textfn.enc(op), "alterr": ep, "panic": pb or pp})
        src.append((text, host, cb, cp))
    alphabet = sorted(set(c for r in rows for c in r["in"]) | set("ab"))
    rep_alpha = [textfn.DEC.get(c, c) for c in alphabet]
    for rep in textfn.judge(chk, "description_e2e", rep_alpha, 10 ** 6, rows, "description_end_to_end"):
        text, host, cb, cp = src[rep["row"] - 1]
        r = rows[rep["row"] - 1]
        sig = {"level": "end-to-end", "what": rep["why"], "cls": desc_class(text), "host": host}
        chk.violation("description under %s, text %r: %s (bare -> %r, parenthesised -> %r)" % (
            host, text, rep["why"], textfn.dec(r["out"]), textfn.dec(r["alt"])),
            {"kind": "description_e2e", "text": text, "host": host, "signature": sig}, sig)
    chk.nontrivial.update("e:" + s[0] + s[1] for s in src)


def twin_file_descriptions(chk):
    """descriptions and annotations written at the same offsets of different included files keep their own text"""
    import c08
    from common import b64
    for nm, flat_text, main_text, files in c08.twin_projects():
        if not nm.startswith("twins"):
            continue          # (the long include chains of C08 hold no descriptions)
        ff = {"main.jst": b64(main_text)}
        ff.update({k: b64(v) for k, v in files.items()})
        o = harness("run", [{"id": "tw", "files": ff, "root": "main.jst"}])["tw"]
        chk.evaluations += 1
        chk.traces += 1
        chk.nontrivial.add("twin" + nm)
        bad = None
        if o["outcome"] != "ok":
            bad = "project of template files not accepted: %s" % rel.describe(o)
        else:
            cat = json.loads(o["json"])
            words = {"a": "cats", "b": "dogs"} if nm == "twins" else {"a": "hens", "b": "pigs", "c": "owls"}
            for n, w in words.items():
                got = {"method description": cat["interactions"]["http GET /tw" + n].get("description"),
                       "method annotation": cat["interactions"]["http GET /tw" + n].get("annotation"),
                       "rpc description": cat["interactions"]["json-rpc-2.0 m%s /rtw%s" % (n, n)].get("description"),
                       "tag description": cat["tags"]["@gw" + n].get("description")}
                want = {"method description": "text of " + w, "method annotation": "note " + n, "rpc description": "rpc text " + w,
                        "tag description": "tag text " + w}
                for k in want:
                    if got[k] != want[k]:
                        bad = "%s in res/%s.jst is %r, written there: %r" % (k, n, got[k], want[k])
        if bad:
            sig = {"level": "end-to-end", "what": "text of another file", "cls": "description"}
            chk.violation(bad + " | files: " + json.dumps(files)[:600], {"kind": "twin_files", "main": main_text, "files": files, "observed": o, "signature": sig}, sig)


def e2e_annotations(chk, tier, rnd):
    words = ["a", "b c", "x  y", "tab\there", " lead", "trail ", "q", "*", "**", "x*", "x **", "* x *", "a*b", "a/b", "/ x"]
    texts = [" ".join(t) for n in (1, 2) for t in itertools.product(words, repeat=n)]
    multi = [a + "\n" + b for a in words[:4] for b in words[:4]] + [a + "\r\n  " + b for a in words[:3] for b in words[:3]]
    # block annotations of several lines whose continuation lines begin with asterisks (a bullet list, a comment-style
    # margin): the asterisks are text
    stars = ["*", "**", "* x", "*x", "x*"]
    multi += [a + nl + ind + b for a in ("Formats:", "a") for b in stars for nl in ("\n", "\r\n") for ind in ("", " ", "\t")]
    multi += ["Formats:\n * json\n * xml", "a\r\n * b\r\n * c", "l1\n*\n* l3", "* first\n* second"]
    cases, meta, compact = [], {}, {}
    for n, t in enumerate(texts + multi):
        single = "\n" not in t
        tpl = "JSIGHT 0.3\nGET /a %s\n  200 any\n"
        if single:
            cases.append(rel.case("s%d" % n, tpl % ("// " + t)))
        cases.append(rel.case("m%d" % n, tpl % ("/* " + t + " */")))
        meta[n] = (t, single)
        # the delimiters written right against the text: "/*x**/" ends at the first "*/"
        if "*/" not in t and not t.endswith("/") and t.strip() == t:
            cases.append(rel.case("k%d" % n, tpl % ("/*" + t + "*/")))
            compact[n] = t
    obs = harness("run", cases)
    rows, src = [], []
    for n, (t, single) in meta.items():
        def val(cid):
            o = obs[cid]
            if o["outcome"] == "ok":
                return next(iter(json.loads(o["json"])["interactions"].values())).get("annotation", ""), False, False
            return "", True, o["outcome"] != "error"
        a, ea, pa = val("s%d" % n) if single else ("", False, False)
        b, eb, pb = val("m%d" % n)
        rows.append({"in": textfn.enc(t), "out": textfn.enc(a), "err": ea, "hasbare": single, "alt": textfn.enc(b), "alterr": eb,
                     "panic": pa or pb})
        src.append(t)
        if n in compact:
            c, ec, pc = val("k%d" % n)
            rows.append({"in": textfn.enc(t), "out": textfn.enc(""), "err": False, "hasbare": False, "alt": textfn.enc(c), "alterr": ec, "panic": pc})
            src.append(t)
    alphabet = sorted(set(c for r in rows for c in r["in"]))
    for rep in textfn.judge(chk, "annotation_e2e", [textfn.DEC.get(c, c) for c in alphabet], 10 ** 6, rows, "annotation_end_to_end"):
        t = src[rep["row"] - 1]
        sig = {"level": "end-to-end", "what": rep["why"], "cls": "annotation"}
        chk.violation("annotation %r: %s (// -> %r, /* */ -> %r)" % (t, rep["why"], textfn.dec(rows[rep["row"] - 1]["out"]),
                                                                     textfn.dec(rows[rep["row"] - 1]["alt"])),
                      {"kind": "annotation_e2e", "text": t, "signature": sig}, sig)


def main(tier):
    chk = Check("C15", tier)
    rnd = random.Random(seed())
    table_description(chk, tier)
    table_annotation(chk, tier)
    e2e_descriptions(chk, tier, rnd)
    e2e_annotations(chk, tier, rnd)
    twin_file_descriptions(chk)
    for k, (text, iid) in enumerate([('JSIGHT 0.3\nGET /zsame // List the  cats\n  Description\n    List the cats\n  200 any\n', "http GET /zsame"),
                                     ('JSIGHT 0.3\nGET /zsame /* List\n the cats */\n  Description\n  (\n    List the cats\n  )\n  200 any\n', "http GET /zsame"),
                                     ('JSIGHT 0.3\nURL /zr\n  Protocol json-rpc-2.0\n  Method zm // Ping\n    Description\n      Ping\n    Result\n    {}\n', "json-rpc-2.0 zm /zr")]):
        o = harness("run", [rel.case("sa", text)])["sa"]
        chk.evaluations += 1
        chk.traces += 1
        chk.nontrivial.add("same_as_annotation:%d" % k)
        want = "Ping" if "Ping" in text else "List the cats"
        got = json.loads(o["json"])["interactions"][iid].get("description") if o["outcome"] == "ok" else None
        if got != want:
            sig = {"level": "end-to-end", "what": "description lost", "cls": "equals-annotation"}
            chk.violation("a Description whose text equals the annotation of its method: description in the catalog %r, written %r | document:\n%s" % (got, want, text),
                          {"kind": "desc_equals_annotation", "file": text, "signature": sig}, sig)
    chk.sample({"description_alphabet": "ab sp TAB CR LF #", "hosts": list(HOSTS), "line_pool": SAFE_LINES})
    chk.rule = ("function tables exhaustive over the stated alphabets and bounds (see coverage.*_table); end to end: line "
                "sequences of length 1..3 over the pool under 4 hosts in both spellings; annotations in both spellings")
    chk.assumptions += ["NF (spec/JSightText.tla) is the reading of the property's sentence: lines split on CRLF/CR/LF, "
                        "blank lines (only blanks/tabs) at both ends removed, longest common leading-blank prefix of the "
                        "non-blank lines removed, trailing blanks of the last line removed"]
    return chk.finish()


def replay(path):
    rp = json.load(open(path))["replay"]
    chk = Check("C15", "quick")
    chk.evaluations = 1
    if rp["kind"] == "description_fn":
        o = textfn.text_rows("description", [rp["text"]])[0]
        print("description(%r) = %r err=%r" % (rp["text"], dec_text(o), o.get("err")))
    return chk.finish()
