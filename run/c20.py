"""C20 Locality: adding/removing an independent declaration affects only its own entry.

TLC (JSightApi!Tx) names, for each generated valid document, the blocks that are independent
(Valid without them, nothing refers to them, no shared automatic tag or path prefix, no
explicit tags) and the catalog keys each contributes.  Two real runs - with and without the
block - are compared: both accepted, every entry present in both is byte-identical, the
larger catalog has exactly the predicted extra keys."""
import json

import apidoc
import rel
from c10 import entries
from common import Check, b64, harness


def compare(a, b, keys):
    """a: without the block, b: with it"""
    if a["outcome"] != "ok" or b["outcome"] != "ok":
        return "both documents are valid, but: without the block %s, with it %s" % (rel.describe(a), rel.describe(b))
    ea, eb = entries(a["json"]), entries(b["json"])
    for k, v in ea.items():
        if k not in eb:
            return "entry %s/%s exists only without the added declaration" % k
        if eb[k] != v:
            return "unrelated entry %s/%s changed: %s" % (k[0], k[1], apidoc.first_diff(v, eb[k], k[1]))
    extra = sorted(k for k in eb if k not in ea)
    want = sorted((c, n) for c, n in keys)
    if extra != want:
        return "new entries %s, expected exactly %s" % (extra, want)
    return None


# constructs outside the generator's fragment, written with names of their own: they are part of the document before and
# after every insertion / removal, so their entries must stay byte-identical too (shared schema nodes, caches)
PREAMBLE = {"t": "raw", "label": "TYPE", "lines": [
    'TYPE @zpk', '{', '  "zk": 1 // {optional: true}', '}',
    'TYPE @zbase', '{', '  "zb": 1', '}',
    'TYPE @zpk2', '{ // {allOf: "@zbase"}', '  "zc": 1 // {optional: true}', '}',
    'TYPE @zpo', '{', '  "zo": 1, // {optional: true}', '  "zq": "s" // {optional: true}', '}',      # used by nothing in the preamble
    'TYPE @zalias', '@zpk2',
    'URL /zpre/{zk}', '  Path', '    @zpk', '  GET', '    200 any',
    'URL /zpre2/{zb}/{zc}', '  Path', '    @zalias', '  GET', '    200 @zpk2', '  PUT', '    Request @zpk', '    200 [@zpk]',
    'ENUM @zen', '[', '  "x", // first', '  "y"', ']',
    'TYPE @zuse', '{', '  "e": "x", // {enum: @zen}', '  "o": @zpk | @zpk2', '}']}


def main(tier):
    chk = Check("C20", tier)
    docs = rel.valid_docs(chk, tier, [(600, 4), (500, 7)], [(6000, 4), (6000, 7), (3000, 9)])
    cases, meta = [], {}
    for n, m in enumerate(docs):
        tx = m["tx"][0]
        d = m["doc"] + ([PREAMBLE] if n % 2 == 0 else [])
        full, _, _ = apidoc.render(d)
        cases.append(rel.case("f%d" % n, full))
        for j, ad in enumerate(tx["adds"]):
            more, _, _ = apidoc.render(d[:ad["pos"]] + [ad["b"]] + d[ad["pos"]:])
            cid = "a%d_%d" % (n, j)
            cases.append(rel.case(cid, more))
            meta[cid] = (cid, m, ad["pos"], ad["keys"], more, full, ad["b"]["t"])
        if n % 2 == 0:
            # fresh declarations that USE what the preamble declares (nothing refers to them): only their own entries appear
            uses = [({"t": "raw", "label": "GET", "lines": ['GET /zfresh/{zk}', '  Path', '    @zpk', '  200 @zpk2']},
                     [["interactions", "http GET /zfresh/{zk}"], ["tags", "@zfresh"]]),
                    ({"t": "raw", "label": "GET", "lines": ['GET /zfresh2/{zb}/{zc}', '  Path', '    @zalias', '  Query', '  { // {allOf: "@zbase"}', '    "q": 1', '  }', '  200 [@zuse]']},
                     [["interactions", "http GET /zfresh2/{zb}/{zc}"], ["tags", "@zfresh2"]]),
                    ({"t": "raw", "label": "GET", "lines": ['GET /zfresh3/{zo}/{zq}', '  Path', '    @zpo', '  200 any']},
                     [["interactions", "http GET /zfresh3/{zo}/{zq}"], ["tags", "@zfresh3"]]),
                    ({"t": "raw", "label": "TYPE", "lines": ['TYPE @zfresht', '{ // {allOf: ["@zpk", "@zbase"]}', '  "own": @zuse', '}']},
                     [["userTypes", "@zfresht"]]),
                    ({"t": "raw", "label": "TYPE", "lines": ['TYPE @zfreshempty', '{ // {allOf: "@zpk2"}', '}']}, [["userTypes", "@zfreshempty"]]),
                    ({"t": "raw", "label": "TYPE", "lines": ['TYPE @zfreshempty2', '{} // {allOf: "@zpk2"}']}, [["userTypes", "@zfreshempty2"]])]
            for j, (blk, keys) in enumerate(uses):
                pos = (n + j) % (len(d) + 1)
                more, _, _ = apidoc.render(d[:pos] + [blk] + d[pos:])
                cid = "a%d_u%d" % (n, j)
                cases.append(rel.case(cid, more))
                meta[cid] = (cid, m, pos, keys, more, full, "uses_existing")
        for r in tx["removable"]:
            i = r["i"]
            less, _, _ = apidoc.render(d[:i - 1] + d[i:])
            cid = "r%d_%d" % (n, i)
            cases.append(rel.case(cid, less))
            meta[cid] = ("f%d" % n, m, i, r["keys"], full, less, d[i - 1]["t"])
            meta[cid + "x"] = None
    meta = {k: v for k, v in meta.items() if v is not None}
    for cid in list(meta):
        if cid.startswith("a"):   # added block: 'with' is the case itself, 'without' the full document
            v = meta[cid]
            meta[cid] = (cid, v[1], v[2], v[3], v[4], v[5], v[6], "f" + cid[1:].split("_")[0])
    # a fresh URL block that INCLUDEs a file the document already includes elsewhere (a method with its Path directive),
    # and an unreferenced method removed from between two inclusions of that file
    item = '  GET\n    Path\n    {\n      "id": 1\n    }\n    200 any\n'
    u = "URL /%s/{id}\nINCLUDE parts/item.jst\n"
    bird = "POST /zbirds/{k}\n  200 any\n"
    tw = {"twa_0": ("JSIGHT 0.3\n" + u % "zcats", "JSIGHT 0.3\n" + u % "zcats" + u % "zdogs", [["interactions", "http GET /zdogs/{id}"], ["tags", "@zdogs"]]),
          "twa_1": ("JSIGHT 0.3\n" + u % "zcats" + bird, "JSIGHT 0.3\n" + u % "zcats" + bird + u % "zdogs", [["interactions", "http GET /zdogs/{id}"], ["tags", "@zdogs"]]),
          "twr_0": ("JSIGHT 0.3\n" + u % "zcats" + u % "zdogs", "JSIGHT 0.3\n" + u % "zcats" + bird + u % "zdogs", [["interactions", "http POST /zbirds/{k}"], ["tags", "@zbirds"]])}
    # the same with a MACRO pasted under the URL blocks instead of a file included there
    mg = 'MACRO @zg\n(\n' + item + ')\n'
    up = "URL /%s/{id}\n  PASTE @zg\n"
    tw.update({"twm_0": ("JSIGHT 0.3\n" + mg + up % "zcats", "JSIGHT 0.3\n" + mg + up % "zcats" + up % "zdogs", [["interactions", "http GET /zdogs/{id}"], ["tags", "@zdogs"]]),
               "twm_1": ("JSIGHT 0.3\n" + mg + up % "zcats" + up % "zdogs", "JSIGHT 0.3\n" + mg + up % "zcats" + bird + up % "zdogs",
                         [["interactions", "http POST /zbirds/{k}"], ["tags", "@zbirds"]])})
    # a schema that uses a regex type with a character class: its generated example must not change when an unrelated
    # declaration is added elsewhere
    rex = 'TYPE @zre regex\n  /[a-z]{8}/\n'
    user = 'GET /zb\n  200\n  {\n    "y": @zre\n  }\n'
    fresh_t = 'TYPE @zfresh\n{\n  "q": 1\n}\n'
    tw.update({"twx_0": ("JSIGHT 0.3\n" + rex + user, "JSIGHT 0.3\n" + rex + fresh_t + user, [["userTypes", "@zfresh"]]),
               "twx_1": ("JSIGHT 0.3\n" + rex + user, "JSIGHT 0.3\n" + rex + user + fresh_t, [["userTypes", "@zfresh"]]),
               "twx_2": ("JSIGHT 0.3\n" + user + rex, "JSIGHT 0.3\n" + fresh_t + user + rex, [["userTypes", "@zfresh"]])})
    for cid, (without, with_, keys) in tw.items():
        for sfx, t in (("w", without), ("f", with_)):
            cases.append({"id": cid + sfx, "files": {"main.jst": b64(t), "parts/item.jst": b64(item)}, "root": "main.jst"})
    obs = harness("run", cases)
    for cid, (without, with_, keys) in tw.items():
        chk.evaluations += 1
        chk.traces += 1
        chk.nontrivial.add(cid)
        bad = compare(obs[cid + "w"], obs[cid + "f"], keys)
        if bad:
            sig = {"what": bad.split(":")[0][:50], "kind": "same-file-included-twice"}
            if cid.startswith("twx"):
                # a user of a regex type: do the catalogs differ in generated examples only?
                a, b = obs[cid + "w"], obs[cid + "f"]
                sa, sb = rel.strip_examples(a.get("json") or "null"), rel.strip_examples(b.get("json") or "null")
                if a["outcome"] == b["outcome"] == "ok" and sa is not None and compare(dict(a, json=json.dumps(sa)), dict(b, json=json.dumps(sb)), keys) is None:
                    sig = {"what": "example-only", "kind": "regex-example-drift"}
            chk.violation("adding/removing an independent block next to a file that is included twice: %s | with the block:\n%s--- parts/item.jst\n%s" % (bad, with_, item),
                          {"kind": "locality_files", "files_with": {"main.jst": with_, "parts/item.jst": item}, "files_without": {"main.jst": without, "parts/item.jst": item},
                           "keys": keys, "signature": sig}, sig)
    for cid, v in meta.items():
        fid, m, i, keys, full, less, kind = v[:7]
        wo = v[7] if len(v) > 7 else cid     # id of the run without the block
        chk.evaluations += 1
        chk.traces += 1
        chk.nontrivial.add(json.dumps([m["doc"], i, kind, cid[0]], sort_keys=True))
        bad = compare(obs[wo], obs[fid], keys)
        if bad:
            sig = {"what": bad.split(":")[0][:50], "kind": kind}
            chk.violation("adding/removing independent %s block at %d: %s | document with the block:\n%s" % (
                kind, i, bad, full[:1200]),
                {"kind": "locality", "doc": m["doc"], "block": i, "keys": keys, "with": full, "without": less,
                 "observed_with": obs[fid], "observed_without": obs[wo], "signature": sig}, sig)
    import fixrel
    gen = fixrel.from_texts([("generated-%d" % n, apidoc.render(m["doc"])[0]) for n, m in enumerate(docs) if n % (2 if tier == "thorough" else 3) == 0])
    fixrel.c20(chk, tier, extra=gen)
    if meta:
        x = next(iter(meta.values()))
        chk.sample({"doc": x[1]["doc"], "independent_block": x[2], "its_catalog_keys": x[3]})
    chk.rule = ("triples (valid document, independent block chosen by JSightApi!Removable, position); the document "
                "without the block is the 'before' and with it the 'after' of an insertion at that position - and "
                "vice versa for deletion; distinct = distinct (document, block) pairs")
    chk.assumptions += ["independence as defined in JSightApi!Independent"]
    return chk.finish()


def replay(path):
    rp = json.load(open(path))["replay"]
    if rp.get("kind") in ("fxpair", "fxban"):
        import fixrel
        return fixrel.replay("C20", rp)
    chk = Check("C20", "quick")
    if rp.get("kind") == "locality_files":
        obs = harness("run", [{"id": "a", "files": {k: b64(v) for k, v in rp["files_without"].items()}, "root": "main.jst"},
                              {"id": "b", "files": {k: b64(v) for k, v in rp["files_with"].items()}, "root": "main.jst"}])
        chk.evaluations = 1
        bad = compare(obs["a"], obs["b"], rp["keys"])
        if bad:
            chk.violation(bad, rp, rp.get("signature"))
        return chk.finish()
    obs = harness("run", [rel.case("a", rp["without"]), rel.case("b", rp["with"])])
    chk.evaluations = 1
    bad = compare(obs["a"], obs["b"], rp["keys"])
    if bad:
        chk.violation(bad, rp, rp.get("signature"))
    return chk.finish()
