import json, sys, glob
import jsonschema
m=json.load(open('/verif/MANIFEST.json'))
jsonschema.validate(m,json.load(open('/root/.vp/MANIFEST.schema.json')))
es=json.load(open('/root/.vp/EVIDENCE.schema.json'))
for c in m['checks']:
    try:
        jsonschema.validate(json.load(open(c['evidence_file'])),es)
    except Exception as e:
        print('EVIDENCE INVALID', c['property_id'], str(e)[:300])
print('manifest valid; checks:', [c['property_id'] for c in m['checks']])
