package main

import (
	"github.com/jsightapi/jsight-schema-go-library/bytes"

	"github.com/jsightapi/jsight-api-go-library/directive"
	"github.com/jsightapi/jsight-api-go-library/notation"
)

func uintIndex(i int) bytes.Index { return bytes.Index(i) }

// tables dumps the data tables of the real code, cell by cell through public
// functions, so that the TLA+ vocabulary can be checked against them.
func tables() map[string]interface{} {
	kinds := []string{}
	for i := 0; i < 64; i++ {
		ok := true
		var s string
		func() {
			defer func() {
				if recover() != nil {
					ok = false
				}
			}()
			s = directive.Enumeration(i).String()
		}()
		if !ok {
			break
		}
		kinds = append(kinds, s)
	}
	admits := map[string][]string{}
	root := []string{}
	httpm := []string{}
	known := map[string]string{}
	for i, p := range kinds {
		pe := directive.Enumeration(i)
		if pe.IsAllowedForRootContext() {
			root = append(root, p)
		}
		if pe.IsHTTPRequestMethod() {
			httpm = append(httpm, p)
		}
		cc := []string{}
		for j, c := range kinds {
			if pe.IsAllowedForDirectiveContext(directive.Enumeration(j)) {
				cc = append(cc, c)
			}
		}
		admits[p] = cc
		if e, err := directive.NewDirectiveType(p); err == nil {
			known[p] = e.String()
		}
	}
	codes := []string{}
	for _, s := range []string{"099", "100", "199", "200", "299", "404", "500", "599", "600", "999", "20", "2000", "2xx"} {
		if e, err := directive.NewDirectiveType(s); err == nil && e == directive.HTTPResponseCode {
			codes = append(codes, s)
		}
	}
	nots := map[string]string{}
	for _, s := range []string{"", "jsight", "regex", "any", "empty", "json", "JSIGHT"} {
		if n, err := notation.NewSchemaNotation(s); err == nil {
			nots[s] = string(n)
		}
	}
	return map[string]interface{}{
		"kinds": kinds, "admits": admits, "root": root, "http": httpm,
		"keywords": known, "codes_ok": codes, "notations": nots,
	}
}
