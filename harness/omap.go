package main

import (
	"encoding/json"
	"fmt"
	"math/rand"
	"runtime"
	"sort"
	"strconv"
	"strings"
	"sync"
	"sync/atomic"

	"github.com/jsightapi/jsight-api-go-library/catalog"
	"github.com/jsightapi/jsight-api-go-library/directive"
)

// A collection under test, reduced to integer values so that histories can be
// replayed by the TLA+ specification OrderedMapAtomic.
type coll interface {
	Set(k string, v int)
	SetToTop(k string, v int)
	Update(k string) // increments the value if the key exists
	Get(k string) (int, bool)
	Has(k string) bool
	Len() int
	Each() string // "k=v,k=v" in iteration order
	EachReverse() string
	MapInc()               // Map: increments every value under the write lock
	Find(min int) string   // key of the first entry (in order) whose value is >= min, or "none"
	JSONKeys() string
}

func itoa(i int) string { return strconv.Itoa(i) }
func atoi(s string) int { n, _ := strconv.Atoi(s); return n }

// --- adapters --------------------------------------------------------------

type serversColl struct{ m *catalog.Servers }

func (c serversColl) Set(k string, v int)      { c.m.Set(k, &catalog.Server{Annotation: itoa(v)}) }
func (c serversColl) SetToTop(k string, v int) { c.m.SetToTop(k, &catalog.Server{Annotation: itoa(v)}) }
func (c serversColl) Update(k string) {
	c.m.Update(k, func(s *catalog.Server) *catalog.Server {
		return &catalog.Server{Annotation: itoa(atoi(s.Annotation) + 1)}
	})
}
func (c serversColl) Get(k string) (int, bool) {
	v, ok := c.m.Get(k)
	if !ok {
		return 0, false
	}
	return atoi(v.Annotation), true
}
func (c serversColl) Has(k string) bool { return c.m.Has(k) }
func (c serversColl) Len() int          { return c.m.Len() }
func (c serversColl) Each() string {
	var p []string
	_ = c.m.Each(func(k string, v *catalog.Server) error { p = append(p, k+"="+v.Annotation); return nil })
	return strings.Join(p, ",")
}
func (c serversColl) JSONKeys() string { return jsonKeys(c.m) }
func (c serversColl) EachReverse() string {
	var p []string
	_ = c.m.EachReverse(func(k string, v *catalog.Server) error { p = append(p, string(k)+"="+v.Annotation); return nil })
	return strings.Join(p, ",")
}
func (c serversColl) MapInc() {
	_ = c.m.Map(func(k string, v *catalog.Server) (*catalog.Server, error) { return &catalog.Server{Annotation: itoa(atoi(v.Annotation) + 1)}, nil })
}
func (c serversColl) Find(min int) string {
	it, ok := c.m.Find(func(k string, v *catalog.Server) bool { return atoi(v.Annotation) >= min })
	if !ok {
		return "none"
	}
	return string(it.Key)
}


type typesColl struct{ m *catalog.UserTypes }

func (c typesColl) Set(k string, v int)      { c.m.Set(k, &catalog.UserType{Annotation: itoa(v)}) }
func (c typesColl) SetToTop(k string, v int) { c.m.SetToTop(k, &catalog.UserType{Annotation: itoa(v)}) }
func (c typesColl) Update(k string) {
	c.m.Update(k, func(s *catalog.UserType) *catalog.UserType {
		return &catalog.UserType{Annotation: itoa(atoi(s.Annotation) + 1)}
	})
}
func (c typesColl) Get(k string) (int, bool) {
	v, ok := c.m.Get(k)
	if !ok {
		return 0, false
	}
	return atoi(v.Annotation), true
}
func (c typesColl) Has(k string) bool { return c.m.Has(k) }
func (c typesColl) Len() int          { return c.m.Len() }
func (c typesColl) Each() string {
	var p []string
	_ = c.m.Each(func(k string, v *catalog.UserType) error { p = append(p, k+"="+v.Annotation); return nil })
	return strings.Join(p, ",")
}
func (c typesColl) JSONKeys() string { return "" } // values hold schemas without notation: not serialisable here
func (c typesColl) EachReverse() string {
	var p []string
	_ = c.m.EachReverse(func(k string, v *catalog.UserType) error { p = append(p, string(k)+"="+v.Annotation); return nil })
	return strings.Join(p, ",")
}
func (c typesColl) MapInc() {
	_ = c.m.Map(func(k string, v *catalog.UserType) (*catalog.UserType, error) { return &catalog.UserType{Annotation: itoa(atoi(v.Annotation) + 1)}, nil })
}
func (c typesColl) Find(min int) string {
	it, ok := c.m.Find(func(k string, v *catalog.UserType) bool { return atoi(v.Annotation) >= min })
	if !ok {
		return "none"
	}
	return string(it.Key)
}


type rulesColl struct{ m *catalog.UserRules }

func (c rulesColl) Set(k string, v int)      { c.m.Set(k, &catalog.UserRule{Annotation: itoa(v)}) }
func (c rulesColl) SetToTop(k string, v int) { c.m.SetToTop(k, &catalog.UserRule{Annotation: itoa(v)}) }
func (c rulesColl) Update(k string) {
	c.m.Update(k, func(s *catalog.UserRule) *catalog.UserRule {
		return &catalog.UserRule{Annotation: itoa(atoi(s.Annotation) + 1)}
	})
}
func (c rulesColl) Get(k string) (int, bool) {
	v, ok := c.m.Get(k)
	if !ok {
		return 0, false
	}
	return atoi(v.Annotation), true
}
func (c rulesColl) Has(k string) bool { return c.m.Has(k) }
func (c rulesColl) Len() int          { return c.m.Len() }
func (c rulesColl) Each() string {
	var p []string
	_ = c.m.Each(func(k string, v *catalog.UserRule) error { p = append(p, k+"="+v.Annotation); return nil })
	return strings.Join(p, ",")
}
func (c rulesColl) JSONKeys() string { return jsonKeys(c.m) }
func (c rulesColl) EachReverse() string {
	var p []string
	_ = c.m.EachReverse(func(k string, v *catalog.UserRule) error { p = append(p, string(k)+"="+v.Annotation); return nil })
	return strings.Join(p, ",")
}
func (c rulesColl) MapInc() {
	_ = c.m.Map(func(k string, v *catalog.UserRule) (*catalog.UserRule, error) { return &catalog.UserRule{Annotation: itoa(atoi(v.Annotation) + 1)}, nil })
}
func (c rulesColl) Find(min int) string {
	it, ok := c.m.Find(func(k string, v *catalog.UserRule) bool { return atoi(v.Annotation) >= min })
	if !ok {
		return "none"
	}
	return string(it.Key)
}


type tagsColl struct{ m *catalog.Tags }

func (c tagsColl) Set(k string, v int) { c.m.Set(catalog.TagName(k), catalog.NewTag(k, itoa(v))) }
func (c tagsColl) SetToTop(k string, v int) {
	c.m.SetToTop(catalog.TagName(k), catalog.NewTag(k, itoa(v)))
}
func (c tagsColl) Update(k string) {
	c.m.Update(catalog.TagName(k), func(s *catalog.Tag) *catalog.Tag {
		return catalog.NewTag(k, itoa(atoi(s.Title)+1))
	})
}
func (c tagsColl) Get(k string) (int, bool) {
	v, ok := c.m.Get(catalog.TagName(k))
	if !ok {
		return 0, false
	}
	return atoi(v.Title), true
}
func (c tagsColl) Has(k string) bool { return c.m.Has(catalog.TagName(k)) }
func (c tagsColl) Len() int          { return c.m.Len() }
func (c tagsColl) Each() string {
	var p []string
	_ = c.m.Each(func(k catalog.TagName, v *catalog.Tag) error { p = append(p, string(k)+"="+v.Title); return nil })
	return strings.Join(p, ",")
}
func (c tagsColl) JSONKeys() string { return jsonKeys(c.m) }
func (c tagsColl) EachReverse() string {
	var p []string
	_ = c.m.EachReverse(func(k catalog.TagName, v *catalog.Tag) error { p = append(p, string(k)+"="+v.Title); return nil })
	return strings.Join(p, ",")
}
func (c tagsColl) MapInc() {
	_ = c.m.Map(func(k catalog.TagName, v *catalog.Tag) (*catalog.Tag, error) { return catalog.NewTag(string(k), itoa(atoi(v.Title)+1)), nil })
}
func (c tagsColl) Find(min int) string {
	it, ok := c.m.Find(func(k catalog.TagName, v *catalog.Tag) bool { return atoi(v.Title) >= min })
	if !ok {
		return "none"
	}
	return string(it.Key)
}


type dirsColl struct{ m *directive.Directives }

func mkDir(v int) *directive.Directive {
	d := directive.New(directive.Type, directive.Coords{})
	d.Annotation = itoa(v)
	return d
}
func (c dirsColl) Set(k string, v int)      { c.m.Set(k, mkDir(v)) }
func (c dirsColl) SetToTop(k string, v int) { c.m.SetToTop(k, mkDir(v)) }
func (c dirsColl) Update(k string) {
	c.m.Update(k, func(s *directive.Directive) *directive.Directive { return mkDir(atoi(s.Annotation) + 1) })
}
func (c dirsColl) Get(k string) (int, bool) {
	v, ok := c.m.Get(k)
	if !ok {
		return 0, false
	}
	return atoi(v.Annotation), true
}
func (c dirsColl) Has(k string) bool { return c.m.Has(k) }
func (c dirsColl) Len() int          { return c.m.Len() }
func (c dirsColl) Each() string {
	var p []string
	_ = c.m.Each(func(k string, v *directive.Directive) error { p = append(p, k+"="+v.Annotation); return nil })
	return strings.Join(p, ",")
}
func (c dirsColl) JSONKeys() string { return "" }
func (c dirsColl) EachReverse() string {
	var p []string
	_ = c.m.EachReverse(func(k string, v *directive.Directive) error { p = append(p, string(k)+"="+v.Annotation); return nil })
	return strings.Join(p, ",")
}
func (c dirsColl) MapInc() {
	_ = c.m.Map(func(k string, v *directive.Directive) (*directive.Directive, error) { return mkDir(atoi(v.Annotation) + 1), nil })
}
func (c dirsColl) Find(min int) string {
	it, ok := c.m.Find(func(k string, v *directive.Directive) bool { return atoi(v.Annotation) >= min })
	if !ok {
		return "none"
	}
	return string(it.Key)
}


func jsonKeys(m json.Marshaler) string {
	b, err := m.MarshalJSON()
	if err != nil {
		return "error:" + err.Error()
	}
	dec := json.NewDecoder(strings.NewReader(string(b)))
	var keys []string
	depth := 0
	expectKey := false
	for {
		t, err := dec.Token()
		if err != nil {
			break
		}
		switch v := t.(type) {
		case json.Delim:
			switch v {
			case '{':
				depth++
				expectKey = depth == 1
			case '[':
				depth++
			case '}', ']':
				depth--
				expectKey = depth == 1
			}
		case string:
			if depth == 1 && expectKey {
				keys = append(keys, v)
				expectKey = false
				continue
			}
			if depth == 1 {
				expectKey = true
			}
		default:
			if depth == 1 {
				expectKey = true
			}
		}
	}
	return strings.Join(keys, ",")
}

func newColl(kind string) coll {
	switch kind {
	case "Servers":
		return serversColl{&catalog.Servers{}}
	case "UserTypes":
		return typesColl{&catalog.UserTypes{}}
	case "UserRules":
		return rulesColl{&catalog.UserRules{}}
	case "Tags":
		return tagsColl{&catalog.Tags{}}
	case "Directives":
		return dirsColl{&directive.Directives{}}
	}
	return nil
}

// --- history driver -------------------------------------------------------

type omapCase struct {
	ID         string   `json:"id"`
	Kind       string   `json:"kind"`
	Goroutines int      `json:"goroutines"`
	Rounds     int      `json:"rounds"`
	OpsPerG    int      `json:"ops"`
	Keys       []string `json:"keys"`
	Seed       int64    `json:"seed"`
	// Program, if given, fixes the operations: program[round][goroutine] = list of [op,k,v]
	Program [][][][3]string `json:"program"`
	// Stress > 0: one writer puts this many NEW keys on top (SetToTop) or at the end (Set) while two readers serialise the
	// collection; every serialisation is checked on the spot: no key twice, and every key whose insertion had returned
	// before the serialisation began is there
	Stress int `json:"stress"`
	// Counter > 0: Goroutines goroutines call Update (value + 1) this many times each on two keys that exist, next to two
	// goroutines that read; afterwards every key must hold exactly Goroutines * Counter: no update is lost
	Counter int `json:"counter"`
}

type stressObs struct {
	ID       string `json:"id"`
	Kind     string `json:"kind"`
	Reads    int    `json:"reads"`
	DupReads int    `json:"dup_reads"`
	Missing  int    `json:"missing_reads"`
	Example  string `json:"example,omitempty"`
	Panic    string `json:"panic,omitempty"`
	Lost     int    `json:"lost_updates"`
}

// stringSet: Goroutines goroutines add Counter values each to one catalog.StringSet (half of the values shared by all,
// half their own) next to readers; afterwards every value is there exactly once, in Data and in Len
func stringSet(c omapCase, emit func(interface{})) {
	o := &stressObs{ID: c.ID, Kind: c.Kind}
	g := c.Goroutines
	if g < 2 {
		g = 4
	}
	n := c.Counter
	if n < 1 {
		n = 200
	}
	set := &catalog.StringSet{}
	var wg sync.WaitGroup
	var stop int32
	for r := 0; r < 2; r++ {
		go func() {
			for atomic.LoadInt32(&stop) == 0 {
				set.Has("shared-1")
				set.Len()
				_ = set.Data()
			}
		}()
	}
	for i := 0; i < g; i++ {
		wg.Add(1)
		go func(i int) {
			defer wg.Done()
			for k := 0; k < n; k++ {
				if k%2 == 0 {
					set.Add("shared-" + itoa(k))
				} else {
					set.Add("own-" + itoa(i) + "-" + itoa(k))
				}
			}
		}(i)
	}
	wg.Wait()
	atomic.StoreInt32(&stop, 1)
	want := (n+1)/2 + g*(n/2)
	seen := map[string]int{}
	for _, v := range set.Data() {
		seen[v]++
	}
	o.Reads = g * n
	for v, k := range seen {
		if k != 1 {
			o.DupReads++
			o.Example = "value " + v + " " + itoa(k) + " times in Data()"
		}
	}
	if len(seen) != want || set.Len() != want {
		o.Lost = want - len(seen)
		if o.Lost == 0 {
			o.Lost = want - set.Len()
		}
		o.Example += " " + itoa(want) + " distinct values added, Data() holds " + itoa(len(seen)) + ", Len() = " + itoa(set.Len())
	}
	emit(o)
}

func counter(c omapCase, m coll, emit func(interface{})) {
	o := &stressObs{ID: c.ID, Kind: c.Kind}
	g := c.Goroutines
	if g < 2 {
		g = 4
	}
	keys := []string{"c1", "c2"}
	for _, k := range keys {
		m.Set(k, 0)
	}
	var wg sync.WaitGroup
	var stop int32
	var mu sync.Mutex
	for r := 0; r < 2; r++ {
		go func() {
			for atomic.LoadInt32(&stop) == 0 {
				m.Get("c1")
				m.Each()
				m.Len()
			}
		}()
	}
	for i := 0; i < g; i++ {
		wg.Add(1)
		go func(i int) {
			defer wg.Done()
			defer func() {
				if x := recover(); x != nil {
					mu.Lock()
					o.Panic = fmt.Sprint(x)
					mu.Unlock()
				}
			}()
			for n := 0; n < c.Counter; n++ {
				m.Update(keys[(i+n)%2])
			}
		}(i)
	}
	wg.Wait()
	atomic.StoreInt32(&stop, 1)
	total := 0
	for _, k := range keys {
		v, _ := m.Get(k)
		total += v
	}
	o.Reads = g * c.Counter
	o.Lost = g*c.Counter - total
	if o.Lost != 0 {
		o.Example = itoa(g) + " goroutines x " + itoa(c.Counter) + " updates, the values add up to " + itoa(total)
	}
	emit(o)
}

func stress(c omapCase, m coll, emit func(interface{})) {
	o := &stressObs{ID: c.ID, Kind: c.Kind}
	var done int64 // number of insertions that have returned
	var stop int32
	var mu sync.Mutex
	var wg sync.WaitGroup
	for r := 0; r < 2; r++ {
		wg.Add(1)
		go func() {
			defer wg.Done()
			defer func() {
				if x := recover(); x != nil {
					mu.Lock()
					o.Panic = fmt.Sprint(x)
					mu.Unlock()
				}
			}()
			for atomic.LoadInt32(&stop) == 0 {
				before := atomic.LoadInt64(&done)
				keys := strings.Split(m.JSONKeys(), ",")
				seen := map[string]bool{}
				dup := ""
				for _, k := range keys {
					if seen[k] {
						dup = k
					}
					seen[k] = true
				}
				missing := ""
				for i := int64(0); i < before; i++ {
					if !seen["s"+itoa(int(i))] {
						missing = "s" + itoa(int(i))
						break
					}
				}
				mu.Lock()
				o.Reads++
				if dup != "" {
					o.DupReads++
					if o.Example == "" {
						o.Example = "key " + dup + " twice among " + itoa(len(keys))
					}
				}
				if missing != "" {
					o.Missing++
					if o.Example == "" {
						o.Example = "key " + missing + " (inserted before the read began) is absent"
					}
				}
				mu.Unlock()
			}
		}()
	}
	for i := 0; i < c.Stress; i++ {
		if i%2 == 0 {
			m.SetToTop("s"+itoa(i), i)
		} else {
			m.Set("s"+itoa(i), i)
		}
		atomic.AddInt64(&done, 1)
		if i%8 == 0 {
			runtime.Gosched()
		}
	}
	atomic.StoreInt32(&stop, 1)
	wg.Wait()
	emit(o)
}

type event struct {
	Seq int64  `json:"seq"`
	E   string `json:"e"` // inv | ret | barrier
	T   int    `json:"t"`
	Op  string `json:"op,omitempty"`
	K   string `json:"k,omitempty"`
	V   int    `json:"v"`
	R   string `json:"r,omitempty"`
}

type omapObs struct {
	ID     string  `json:"id"`
	Kind   string  `json:"kind"`
	Events []event `json:"events"`
	Final  string  `json:"final"`
	Len    int     `json:"len"`
	Panic  string  `json:"panic,omitempty"`
}

var opNames = []string{"Set", "Set", "SetToTop", "Update", "Update", "Get", "Has", "Len", "Each", "JSON", "EachReverse", "Map", "Find"}

func cmdOmap(line []byte, emit func(interface{})) {
	var c omapCase
	if err := json.Unmarshal(line, &c); err != nil {
		emit(map[string]string{"harness_error": err.Error()})
		return
	}
	emit(map[string]string{"begin": c.ID})
	if c.Kind == "StringSet" {
		stringSet(c, emit)
		return
	}
	m := newColl(c.Kind)
	if m == nil {
		emit(map[string]string{"harness_error": "unknown collection " + c.Kind})
		return
	}
	if c.Stress > 0 {
		stress(c, m, emit)
		return
	}
	if c.Counter > 0 {
		counter(c, m, emit)
		return
	}
	o := &omapObs{ID: c.ID, Kind: c.Kind}
	var seq int64
	var mu sync.Mutex
	rec := func(e event) {
		mu.Lock()
		o.Events = append(o.Events, e)
		mu.Unlock()
	}
	rounds := c.Rounds
	if len(c.Program) > 0 {
		rounds = len(c.Program)
	}
	for r := 0; r < rounds; r++ {
		var wg sync.WaitGroup
		start := make(chan struct{})
		ng := c.Goroutines
		if len(c.Program) > 0 {
			ng = len(c.Program[r])
		}
		for g := 0; g < ng; g++ {
			wg.Add(1)
			go func(g int) {
				defer wg.Done()
				defer func() {
					if x := recover(); x != nil {
						mu.Lock()
						o.Panic = fmt.Sprint(x)
						mu.Unlock()
					}
				}()
				rnd := rand.New(rand.NewSource(c.Seed*1000 + int64(r)*100 + int64(g)))
				<-start
				nops := c.OpsPerG
				if len(c.Program) > 0 {
					nops = len(c.Program[r][g])
				}
				for i := 0; i < nops; i++ {
					var op, k string
					var v int
					if len(c.Program) > 0 {
						op, k, v = c.Program[r][g][i][0], c.Program[r][g][i][1], atoi(c.Program[r][g][i][2])
					} else {
						op = opNames[rnd.Intn(len(opNames))]
						k = c.Keys[rnd.Intn(len(c.Keys))]
						v = rnd.Intn(90) + 10
					}
					if op == "JSON" && m.JSONKeys() == "" && m.Len() > 0 {
						op = "Each"
					}
					rec(event{Seq: atomic.AddInt64(&seq, 1), E: "inv", T: g + 1, Op: op, K: k, V: v})
					if rnd.Intn(2) == 0 {
						runtime.Gosched() // widen the window between invoke and effect
					}
					var res string
					switch op {
					case "Set":
						m.Set(k, v)
						res = "ok"
					case "SetToTop":
						m.SetToTop(k, v)
						res = "ok"
					case "Update":
						m.Update(k)
						res = "ok"
					case "Get":
						x, ok := m.Get(k)
						if ok {
							res = itoa(x)
						} else {
							res = "none"
						}
					case "Has":
						res = strconv.FormatBool(m.Has(k))
					case "Len":
						res = itoa(m.Len())
					case "Each":
						res = m.Each()
					case "JSON":
						res = m.JSONKeys()
					case "EachReverse":
						res = m.EachReverse()
					case "Map":
						m.MapInc()
						res = "ok"
					case "Find":
						res = m.Find(v)
					}
					rec(event{Seq: atomic.AddInt64(&seq, 1), E: "ret", T: g + 1, R: res})
				}
			}(g)
		}
		close(start)
		wg.Wait()
		rec(event{Seq: atomic.AddInt64(&seq, 1), E: "barrier"})
	}
	sort.Slice(o.Events, func(i, j int) bool { return o.Events[i].Seq < o.Events[j].Seq })
	o.Final = m.Each()
	o.Len = m.Len()
	emit(o)
}
