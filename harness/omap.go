package main

func cmdOmap(line []byte, emit func(interface{})) { emit(map[string]string{"harness_error": "omap not built yet"}) }
