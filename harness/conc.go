package main

import (
	"bytes"
	"encoding/json"
	"fmt"
	"os"
	"path/filepath"
	"strings"
	"sync"
	"time"

	"github.com/jsightapi/jsight-api-go-library/catalog"
	"github.com/jsightapi/jsight-api-go-library/core"
	"github.com/jsightapi/jsight-api-go-library/kit"
	sfs "github.com/jsightapi/jsight-schema-go-library/fs"
)

// concCase: several projects processed concurrently in one process, each several
// times; every result is compared with the result of the same project processed alone
// (before the concurrent phase starts).
type concCase struct {
	ID      string    `json:"id"`
	Cases   []runCase `json:"cases"`
	Reps    int       `json:"reps"`
	Readers int       `json:"readers"` // goroutines serialising one validated catalog concurrently
	// Cold: this many goroutines validate each project at the same moment BEFORE it was ever processed
	// in this process (first contact with its files happens concurrently)
	Cold int `json:"cold"`
	// SharedBan: one WithBannedDirectives option VALUE built from these kinds is given to every case that asks for it
	SharedBan []string `json:"shared_ban"`
	// Writers: while Readers goroutines serialise one validated catalog, this many goroutines add tags and servers with
	// fresh names to its collections (public setters); watchdog 20 s
	Writers int `json:"writers"`
}

type concObs struct {
	ID     string   `json:"id"`
	Runs   int      `json:"runs"`
	Diffs  []string `json:"diffs"`
	Solo   []string `json:"solo"` // outcome of each solo run
	Panics []string `json:"panics"`
}

func cmdConc(line []byte, emit func(interface{})) {
	var c concCase
	if err := json.Unmarshal(line, &c); err != nil {
		emit(map[string]string{"harness_error": err.Error()})
		return
	}
	emit(map[string]string{"begin": c.ID})
	sharedOption = nil
	if len(c.SharedBan) > 0 {
		if so, err := bannedOpts(c.SharedBan); err == nil {
			sharedOption = so[0]
		}
	}
	defer func() { sharedOption = nil }()
	o := &concObs{ID: c.ID, Diffs: []string{}, Solo: []string{}, Panics: []string{}}
	tops := make([]string, len(c.Cases))
	defer func() {
		for _, t := range tops {
			if t != "" {
				os.RemoveAll(t)
			}
		}
	}()
	solo := make([]*runObs, len(c.Cases))
	for i := range c.Cases {
		top, err := materialise(&c.Cases[i])
		tops[i] = top
		if err != nil {
			emit(map[string]string{"harness_error": err.Error()})
			return
		}
	}
	cold := make([][]*runObs, len(c.Cases))
	if c.Cold > 1 {
		for i := range c.Cases {
			cold[i] = make([]*runObs, c.Cold)
			start := make(chan struct{})
			var cg sync.WaitGroup
			for g := 0; g < c.Cold; g++ {
				cg.Add(1)
				go func(g int) {
					defer cg.Done()
					<-start
					cold[i][g] = once(&c.Cases[i], filepath.Join(tops[i], "proj"), map[string]bool{})
				}(g)
			}
			close(start)
			cg.Wait()
		}
	}
	for i := range c.Cases {
		solo[i] = once(&c.Cases[i], filepath.Join(tops[i], "proj"), map[string]bool{})
		o.Solo = append(o.Solo, solo[i].Outcome)
		for g, x := range cold[i] {
			o.Runs++
			if obsKey(x) != obsKey(solo[i]) && len(o.Diffs) < 5 {
				b, _ := json.Marshal(map[string]interface{}{"case": c.Cases[i].ID, "rep": g, "cold": true, "solo": solo[i].Outcome,
					"concurrent": x.Outcome, "solo_err": solo[i].Err, "conc_err": x.Err, "panic": x.Panic, "json_diff": firstDiff(solo[i].JSON, x.JSON), "solo_json": solo[i].JSON, "conc_json": x.JSON})
				o.Diffs = append(o.Diffs, string(b))
			}
		}
	}
	reps := c.Reps
	if reps < 1 {
		reps = 1
	}
	var mu sync.Mutex
	var wg sync.WaitGroup
	for i := range c.Cases {
		wg.Add(1)
		go func(i int) {
			defer wg.Done()
			for r := 0; r < reps; r++ {
				x := once(&c.Cases[i], filepath.Join(tops[i], "proj"), map[string]bool{})
				mu.Lock()
				o.Runs++
				if obsKey(x) != obsKey(solo[i]) && len(o.Diffs) < 5 {
					b, _ := json.Marshal(map[string]interface{}{"case": c.Cases[i].ID, "rep": r, "solo": solo[i].Outcome,
						"concurrent": x.Outcome, "solo_err": solo[i].Err, "conc_err": x.Err, "panic": x.Panic, "json_diff": firstDiff(solo[i].JSON, x.JSON), "solo_json": solo[i].JSON, "conc_json": x.JSON})
					o.Diffs = append(o.Diffs, string(b))
				}
				mu.Unlock()
			}
		}(i)
	}
	wg.Wait()
	// one validated catalog serialised and read from many goroutines at once
	if c.Readers > 0 {
		for i := range c.Cases {
			if solo[i].Outcome != "ok" {
				continue
			}
			j, err := kit.NewJapi(filepath.Join(tops[i], "proj", c.Cases[i].Root), core.WithFixedSeedForRegex())
			if err != nil || j.ValidateJAPI() != nil {
				continue
			}
			first, _ := j.ToJson()
			var rg sync.WaitGroup
			for r := 0; r < c.Readers; r++ {
				rg.Add(1)
				go func(r int) {
					defer rg.Done()
					var b []byte
					if r%2 == 0 {
						b, _ = j.ToJson()
					} else {
						bi, _ := j.ToJsonIndent()
						var buf bytes.Buffer
						_ = json.Compact(&buf, bi)
						b = buf.Bytes()
					}
					t := j.Title()
					mu.Lock()
					o.Runs++
					if (string(b) != string(first) || t != solo[i].Title) && len(o.Diffs) < 5 {
						d, _ := json.Marshal(map[string]interface{}{"case": c.Cases[i].ID, "reader": r, "solo": "ok", "concurrent": "ok",
							"json_diff": firstDiff(string(first), string(b)), "solo_json": string(first), "conc_json": string(b), "readers": true})
						o.Diffs = append(o.Diffs, string(d))
					}
					mu.Unlock()
				}(r)
			}
			rg.Wait()
		}
	}
	// the rules of every schema node of every user type of one validated catalog looked up BY NAME (Rules.Get / Has) from
	// many goroutines at once, the first by-name lookups this catalog ever sees: each gives what a lookup gives alone
	// (the expectation comes from a second catalog built from the same bytes and read by one goroutine)
	if c.Readers > 0 {
		for i := range c.Cases {
			if solo[i].Outcome != "ok" {
				continue
			}
			rootPath := filepath.Join(tops[i], "proj", c.Cases[i].Root)
			content, err := os.ReadFile(rootPath)
			if err != nil {
				continue
			}
			ref := core.NewJApiCore(sfs.NewFile(rootPath, content), core.WithFixedSeedForRegex())
			cr := core.NewJApiCore(sfs.NewFile(rootPath, content), core.WithFixedSeedForRegex())
			if ref.ValidateJAPI() != nil || cr.ValidateJAPI() != nil {
				continue
			}
			want := ruleWalk(ref.Catalog(), nil)
			if len(want) == 0 {
				continue
			}
			start := make(chan struct{})
			var rg sync.WaitGroup
			for r := 0; r < c.Readers; r++ {
				rg.Add(1)
				go func(r int) {
					defer rg.Done()
					<-start
					got := ruleWalk(cr.Catalog(), want)
					mu.Lock()
					o.Runs++
					if d := firstDiff(strings.Join(want, "\n"), strings.Join(got, "\n")); d != "" && len(o.Diffs) < 5 {
						b, _ := json.Marshal(map[string]interface{}{"case": c.Cases[i].ID, "reader": r, "solo": "ok", "concurrent": "rules looked up by name differ",
							"json_diff": d, "readers": true, "rules": true})
						o.Diffs = append(o.Diffs, string(b))
					}
					mu.Unlock()
				}(r)
			}
			close(start)
			rg.Wait()
		}
	}
	if c.Writers > 0 {
		for i := range c.Cases {
			if solo[i].Outcome != "ok" || i >= 4 {
				continue
			}
			rootPath := filepath.Join(tops[i], "proj", c.Cases[i].Root)
			content, err := os.ReadFile(rootPath)
			if err != nil {
				continue
			}
			cr := core.NewJApiCore(sfs.NewFile(rootPath, content), core.WithFixedSeedForRegex())
			if cr.ValidateJAPI() != nil {
				continue
			}
			nr := c.Readers
			if nr < 2 {
				nr = 2
			}
			const perWriter = 60
			done := make(chan struct{})
			var bad []string
			var bmu sync.Mutex
			go func() {
				var wg sync.WaitGroup
				for r := 0; r < nr; r++ {
					wg.Add(1)
					go func(r int) {
						defer wg.Done()
						for k := 0; k < 25; k++ {
							var b []byte
							var err error
							if (r+k)%2 == 0 {
								b, err = cr.Catalog().ToJson()
							} else {
								b, err = cr.Catalog().ToJsonIndent()
							}
							if err != nil || !json.Valid(b) {
								bmu.Lock()
								bad = append(bad, fmt.Sprintf("serialisation next to writers: err=%v valid=%v", err, json.Valid(b)))
								bmu.Unlock()
								return
							}
						}
					}(r)
				}
				for w := 0; w < c.Writers; w++ {
					wg.Add(1)
					go func(w int) {
						defer wg.Done()
						for k := 0; k < perWriter; k++ {
							_ = cr.Catalog().AddTag(fmt.Sprintf("@vfw%dx%d", w, k), "t")
							_ = cr.Catalog().AddServer(fmt.Sprintf("@vfs%dx%d", w, k), "s")
						}
					}(w)
				}
				wg.Wait()
				close(done)
			}()
			o.Runs++
			select {
			case <-done:
				final, _ := cr.Catalog().ToJson()
				for w := 0; w < c.Writers; w++ {
					for k := 0; k < perWriter; k++ {
						for _, key := range []string{fmt.Sprintf("\"@vfw%dx%d\":", w, k), fmt.Sprintf("\"@vfs%dx%d\":", w, k)} {
							if n := strings.Count(string(final), key); n != 1 {
								bad = append(bad, fmt.Sprintf("key %s appears %d times after the writers finished", key, n))
							}
						}
					}
				}
			case <-time.After(20 * time.Second):
				bad = append(bad, "deadlock: serialisations and writers of one catalog did not finish in 20 s")
			}
			if len(bad) > 0 && len(o.Diffs) < 5 {
				d, _ := json.Marshal(map[string]interface{}{"case": c.Cases[i].ID, "writers": true, "solo": "ok", "concurrent": bad[0], "problems": len(bad)})
				o.Diffs = append(o.Diffs, string(d))
			}
		}
	}
	emit(o)
}

// ruleWalk lists, for every schema node of every user type in document order, "type/path rule=value" for each rule of the
// node. With keys == nil the rule names come from Rules.Each (no by-name lookup happens); otherwise the names are taken from
// the lines of keys and every value is fetched with Rules.Get and confirmed with Rules.Has, plus one name that is absent.
func ruleWalk(cat *catalog.Catalog, keys []string) []string {
	var out []string
	k := 0
	var node func(path string, n *catalog.SchemaContentJSight)
	node = func(path string, n *catalog.SchemaContentJSight) {
		if n == nil {
			return
		}
		if keys == nil {
			if n.Rules != nil {
				_ = n.Rules.Each(func(name string, v catalog.Rule) error {
					out = append(out, path+" "+name+"="+v.ScalarValue+"/"+string(v.TokenType))
					return nil
				})
			}
		} else {
			for k < len(keys) && strings.HasPrefix(keys[k], path+" ") {
				name := keys[k][len(path)+1:]
				if eq := strings.IndexByte(name, '='); eq >= 0 {
					name = name[:eq]
				}
				v, ok := n.Rules.Get(name)
				if !ok || !n.Rules.Has(name) || n.Rules.Has("no such rule") {
					out = append(out, path+" "+name+" NOT FOUND")
				} else {
					out = append(out, path+" "+name+"="+v.ScalarValue+"/"+string(v.TokenType))
				}
				k++
			}
		}
		for j, ch := range n.Children {
			node(fmt.Sprintf("%s/%d", path, j), ch)
		}
	}
	_ = cat.UserTypes.Each(func(name string, ut *catalog.UserType) error {
		node(name, ut.Schema.ContentJSight)
		return nil
	})
	return out
}

func firstDiff(a, b string) string {
	n := len(a)
	if len(b) < n {
		n = len(b)
	}
	for i := 0; i < n; i++ {
		if a[i] != b[i] {
			lo := i - 60
			if lo < 0 {
				lo = 0
			}
			hi := i + 60
			ha, hb := hi, hi
			if ha > len(a) {
				ha = len(a)
			}
			if hb > len(b) {
				hb = len(b)
			}
			return a[lo:ha] + "  <<<>>>  " + b[lo:hb]
		}
	}
	if len(a) != len(b) {
		return "length differs"
	}
	return ""
}
