// Command verifharness drives the real jsight-api-go-library code for the
// TLA+ model-based checks in /verif. It reads NDJSON cases on stdin and writes
// NDJSON observations on stdout. It contains no oracle: every expected value
// the orchestrator compares against is produced by TLC.
package main

import (
	"bufio"
	"encoding/json"
	"fmt"
	"os"
	"runtime/debug"
	"strconv"
	"syscall"
)

func main() {
	if len(os.Args) < 2 {
		fmt.Fprintln(os.Stderr, "usage: verifharness run|lex|text|tables|omap|conc")
		os.Exit(2)
	}
	debug.SetMaxStack(48 << 20)
	// VERIF_NOFILE=n: at most n open files for this process, garbage collection off (no finaliser closes a forgotten
	// file): a library that does not close what it opens runs out of descriptors after n reads
	if v := os.Getenv("VERIF_NOFILE"); v != "" {
		if n, err := strconv.Atoi(v); err == nil && n > 16 {
			lim := syscall.Rlimit{Cur: uint64(n), Max: uint64(n)}
			_ = syscall.Setrlimit(syscall.RLIMIT_NOFILE, &lim)
			debug.SetGCPercent(-1)
		}
	}
	in := bufio.NewReaderSize(os.Stdin, 1<<20)
	out := bufio.NewWriterSize(os.Stdout, 1<<16)
	defer out.Flush()
	emit := func(v interface{}) {
		b, err := json.Marshal(v)
		if err != nil {
			b, _ = json.Marshal(map[string]string{"harness_error": err.Error()})
		}
		out.Write(b)
		out.WriteByte('\n')
		out.Flush()
	}
	switch os.Args[1] {
	case "tables":
		emit(tables())
	case "run":
		eachLine(in, func(line []byte) { cmdRun(line, emit) })
	case "lex":
		eachLine(in, func(line []byte) { cmdLex(line, emit) })
	case "text":
		eachLine(in, func(line []byte) { cmdText(line, emit) })
	case "omap":
		eachLine(in, func(line []byte) { cmdOmap(line, emit) })
	case "conc":
		eachLine(in, func(line []byte) { cmdConc(line, emit) })
	default:
		fmt.Fprintln(os.Stderr, "unknown subcommand")
		os.Exit(2)
	}
}

func eachLine(in *bufio.Reader, f func([]byte)) {
	for {
		line, err := in.ReadBytes('\n')
		if len(line) > 1 {
			f(line)
		}
		if err != nil {
			return
		}
	}
}
