// Command verifharness drives the real jsight-api-go-library code for the
// TLA+ model-based checks in /verif. It reads NDJSON cases on stdin and writes
// NDJSON observations on stdout. It contains no oracle: every expected value
// the orchestrator compares against is produced by TLC.
package main

import (
	"bufio"
	"encoding/json"
	"fmt"
	"os"
	"runtime/debug"
)

func main() {
	if len(os.Args) < 2 {
		fmt.Fprintln(os.Stderr, "usage: verifharness run|lex|text|tables|omap|conc")
		os.Exit(2)
	}
	debug.SetMaxStack(48 << 20)
	in := bufio.NewReaderSize(os.Stdin, 1<<20)
	out := bufio.NewWriterSize(os.Stdout, 1<<16)
	defer out.Flush()
	emit := func(v interface{}) {
		b, err := json.Marshal(v)
		if err != nil {
			b, _ = json.Marshal(map[string]string{"harness_error": err.Error()})
		}
		out.Write(b)
		out.WriteByte('\n')
		out.Flush()
	}
	switch os.Args[1] {
	case "tables":
		emit(tables())
	case "run":
		eachLine(in, func(line []byte) { cmdRun(line, emit) })
	case "lex":
		eachLine(in, func(line []byte) { cmdLex(line, emit) })
	case "text":
		eachLine(in, func(line []byte) { cmdText(line, emit) })
	case "omap":
		eachLine(in, func(line []byte) { cmdOmap(line, emit) })
	case "conc":
		eachLine(in, func(line []byte) { cmdConc(line, emit) })
	default:
		fmt.Fprintln(os.Stderr, "unknown subcommand")
		os.Exit(2)
	}
}

func eachLine(in *bufio.Reader, f func([]byte)) {
	for {
		line, err := in.ReadBytes('\n')
		if len(line) > 1 {
			f(line)
		}
		if err != nil {
			return
		}
	}
}
