package main

import (
	"unicode/utf8"
	"bytes"
	"encoding/base64"
	"encoding/json"
	"fmt"
	"os"
	"path/filepath"
	"runtime"
	"strings"
	"sync"
	"time"

	"github.com/jsightapi/jsight-api-go-library/core"
	"github.com/jsightapi/jsight-api-go-library/directive"
	"github.com/jsightapi/jsight-api-go-library/jerr"
	"github.com/jsightapi/jsight-api-go-library/kit"
	sfs "github.com/jsightapi/jsight-schema-go-library/fs"
	"github.com/jsightapi/jsight-schema-go-library/notations/jschema"
)

// runCase is one project to be processed by the real library.
type runCase struct {
	ID      string            `json:"id"`
	Files   map[string]string `json:"files"`   // relative path -> base64 content
	Dirs    []string          `json:"dirs"`    // directories to create (relative)
	NoRead  []string          `json:"noread"`  // files to chmod 000
	Root    string            `json:"root"`    // relative path of the root file
	Banned  []string          `json:"banned"`  // directive keywords to ban
	Reps    int               `json:"reps"`    // how many times to run (determinism); default 1
	Want    []string          `json:"want"`    // "forest","pastes","json","lex"
	Timeout int               `json:"timeout"` // ms, default 10000
	Outside []string          `json:"outside"` // files created in a sibling dir of the project dir
	Banned2 []string          `json:"banned2"` // a second, separate WithBannedDirectives option
	RawRoot string            `json:"rawroot"` // if set: spelling of the root path relative to the project dir, used verbatim
	Warm    []string          `json:"warm"`    // other root files of the same directory, validated first in this process (results dropped)
	// DefaultOpts: do not pass WithFixedSeedForRegex (the harness passes it otherwise, as the library's own tests do)
	DefaultOpts bool `json:"default_opts"`
	// SharedBan: use the option VALUE shared by all cases of a concurrent group (set by the conc driver) before the own ones
	SharedBan bool `json:"shared_ban"`
	// Mem: the root file is read once; every repetition goes through kit.NewJApiFromFile over the SAME byte slice
	Mem bool `json:"mem"`
	// Symlinks: relative path in the project -> link target (as given to os.Symlink)
	Symlinks map[string]string `json:"symlinks"`
}

// memFiles: case id -> content of the root file, shared by the repetitions of the case
var memFiles = map[string][]byte{}

// sharedOption is one core.Option value handed to several projects (conc driver)
var sharedOption core.Option

type errObs struct {
	Msg   string      `json:"msg"`
	Full  string      `json:"full"`
	Full2 string      `json:"full2"` // Error() asked once more after everything else was read
	File  string      `json:"file"`
	Index uint        `json:"index"`
	Line  uint        `json:"line"`
	Quote string      `json:"quote"`
	Trace [][2]string `json:"trace"`
	FLen  int         `json:"flen"` // length of the file the error names, -1 if unknown
	// DepFault: the diagnostic text is a Go runtime fault and calling the schema library directly
	// on the bytes at the error position reproduces exactly this text ("Len" | "compile")
	DepFault string `json:"dep_fault,omitempty"`
}

type node struct {
	K    string            `json:"k"`
	Kw   string            `json:"kw"`
	X    bool              `json:"x"`
	F    string            `json:"f"`
	B    uint              `json:"b"`
	P    map[string]string `json:"p,omitempty"`
	U    []string          `json:"u,omitempty"`
	A    string            `json:"a,omitempty"`
	Body bool              `json:"body"`
	C    []node            `json:"c"`
}

type runObs struct {
	ID        string      `json:"id"`
	Outcome   string      `json:"outcome"` // ok | error | panic | timeout | readerr
	Panic     string      `json:"panic,omitempty"`
	Frames    []string    `json:"frames,omitempty"`
	Err       *errObs     `json:"err,omitempty"`
	JSON      string      `json:"json,omitempty"`
	IndentOK  *bool       `json:"indent_ok,omitempty"`
	JSONErr   string      `json:"json_err,omitempty"`
	// JSONUtf8: the bytes returned by ToJson / ToJsonIndent are valid UTF-8 (the observation itself is re-encoded, which
	// would hide invalid bytes)
	JSONUtf8 *bool `json:"json_utf8,omitempty"`
	Title     string      `json:"title"`
	Stages    []string    `json:"stages"`
	Forest    []node      `json:"forest,omitempty"`
	Pastes    []node      `json:"pastes,omitempty"`
	Chain     []string    `json:"chain,omitempty"`
	FileOps   [][2]string `json:"fileops"`
	Ms        float64     `json:"ms"`
	RepDiff   string      `json:"rep_diff,omitempty"` // first difference between repetitions
	Reps      int         `json:"reps"`
	Recovered []string    `json:"recovered,omitempty"`
}

type pendingReg struct {
	o    *runObs
	want map[string]bool
	base string
}

// All processing of one project happens synchronously in one goroutine, so the
// hook events are attributed to the case by goroutine id.
var regMu sync.Mutex
var pending = map[int64]pendingReg{}

func init() {
	core.VerifSink = func(c *core.JApiCore, ev string, arg string) {
		regMu.Lock()
		p, ok := pending[goid()]
		regMu.Unlock()
		if !ok {
			return
		}
		o := p.o
		switch ev {
		case "stage":
			o.Stages = append(o.Stages, arg)
			if arg == "scan" && p.want["forest"] {
				o.Forest = projectForest(c.VerifDirectives(), p.base)
			}
			if arg == "paste" && p.want["pastes"] {
				o.Pastes = projectForest(c.VerifDirectivesWithPastes(), p.base)
			}
		default:
			o.FileOps = append(o.FileOps, [2]string{ev, rel(p.base, arg)})
			if ev == "read" {
				// where the path really leads (symbolic links resolved), relative to the real project directory
				if real, err := filepath.EvalSymlinks(arg); err == nil {
					if rb, err := filepath.EvalSymlinks(p.base); err == nil {
						if r := rel(rb, real); !strings.HasPrefix(real, "/proc/") && (strings.HasPrefix(r, "..") || strings.HasPrefix(r, "/")) {
							o.FileOps = append(o.FileOps, [2]string{"read-resolves-to", r})
						}
					}
				}
			}
		}
	}
}

func rel(base, p string) string {
	if base == "" {
		return p
	}
	if r, err := filepath.Rel(base, p); err == nil {
		return r
	}
	return p
}

func projectForest(dd []*directive.Directive, base string) []node {
	res := make([]node, 0, len(dd))
	for _, d := range dd {
		res = append(res, projectNode(d, base, 0))
	}
	return res
}

func projectNode(d *directive.Directive, base string, depth int) node {
	f, b := d.VerifKeywordBegin()
	n := node{
		K:    d.Type().String(),
		Kw:   d.Keyword,
		X:    d.HasExplicitContext,
		F:    rel(base, f),
		B:    b,
		P:    d.VerifNamedParameters(),
		U:    d.UnnamedParameter(),
		A:    d.Annotation,
		Body: d.BodyCoords.IsSet(),
		C:    []node{},
	}
	if depth < 200 {
		for _, c := range d.Children {
			n.C = append(n.C, projectNode(c, base, depth+1))
		}
	}
	return n
}

func bannedOpts(names []string) ([]core.Option, error) {
	var oo []core.Option
	var ee []directive.Enumeration
	for _, n := range names {
		e, err := directive.NewDirectiveType(n)
		if err != nil {
			return nil, fmt.Errorf("unknown directive %q", n)
		}
		ee = append(ee, e)
	}
	if len(ee) > 0 {
		oo = append(oo, core.WithBannedDirectives(ee...))
	}
	oo = append(oo, core.WithFixedSeedForRegex())
	return oo, nil
}

func materialise(c *runCase) (string, error) {
	top, err := os.MkdirTemp("", "vh")
	if err != nil {
		return "", err
	}
	base := filepath.Join(top, "proj")
	if err := os.MkdirAll(base, 0o755); err != nil {
		return top, err
	}
	for _, o := range c.Outside {
		p := filepath.Join(top, o)
		os.MkdirAll(filepath.Dir(p), 0o755)
		os.WriteFile(p, []byte("JSIGHT 0.3\nINFO\n  Title \"OUTSIDE CANARY\"\n"), 0o644)
	}
	for _, d := range c.Dirs {
		if err := os.MkdirAll(filepath.Join(base, d), 0o755); err != nil {
			return top, err
		}
	}
	for name, b64 := range c.Files {
		data, err := base64.StdEncoding.DecodeString(b64)
		if err != nil {
			return top, err
		}
		p := filepath.Join(base, name)
		if err := os.MkdirAll(filepath.Dir(p), 0o755); err != nil {
			return top, err
		}
		if err := os.WriteFile(p, data, 0o644); err != nil {
			return top, err
		}
	}
	for name, target := range c.Symlinks {
		p := filepath.Join(base, name)
		os.MkdirAll(filepath.Dir(p), 0o755)
		os.Symlink(target, p)
	}
	for _, n := range c.NoRead {
		p := filepath.Join(base, n)
		os.Chmod(p, 0)
		if os.Geteuid() == 0 {
			// mode 000 does not stop root: a link to a file that can be stat'ed but not read
			os.Remove(p)
			os.Symlink("/proc/self/mem", p)
		}
	}
	return top, nil
}

func observeErr(je *jerr.JApiError, base string, c *runCase) *errObs {
	e := &errObs{
		Msg:   je.Msg,
		Full:  je.Error(),
		File:  rel(base, je.VerifFileName()),
		Index: uint(je.Index()),
		Line:  uint(je.Line()),
		Quote: je.Quote(),
		FLen:  -1,
	}
	for _, t := range je.VerifTrace() {
		e.Trace = append(e.Trace, [2]string{rel(base, t[0]), t[1]})
	}
	var content []byte
	if data, err := os.ReadFile(je.VerifFileName()); err == nil {
		e.FLen = len(data)
		content = data
	} else if b64, ok := c.Files[e.File]; ok {
		if data, err := base64.StdEncoding.DecodeString(b64); err == nil {
			e.FLen = len(data)
			content = data
		}
	}
	if strings.Contains(e.Msg, "runtime error") && content != nil && int(e.Index) <= len(content) {
		e.DepFault = depFault(content, int(e.Index), e.Msg)
	}
	e.Full2 = je.Error()
	return e
}

// depFault asks the schema library alone, on the bytes of the file at the error position, whether it
// produces the Go runtime fault that the diagnostic shows.
func depFault(content []byte, idx int, msg string) string {
	try := func(f func() error) (hit bool) {
		defer func() {
			if r := recover(); r != nil {
				hit = fmt.Sprint(r) == msg
			}
		}()
		err := f()
		return err != nil && err.Error() == msg
	}
	tail := content[idx:]
	if try(func() error { _, err := jschema.FromFile(sfs.NewFile("", tail)).Len(); return err }) {
		return "Len"
	}
	// the error is at a directive: its body starts on the next line and ends at some later line end
	eol := bytes.IndexAny(tail, "\n\r")
	if eol < 0 {
		return ""
	}
	rest := tail[eol+1:]
	for k := 1; k <= len(rest); k++ {
		if k < len(rest) && rest[k] != '\n' && rest[k] != '\r' {
			continue
		}
		body := rest[:k]
		if try(func() error { _, err := jschema.New("", body).GetAST(); return err }) {
			return "compile"
		}
		// ... or the body is the schema of a user type that another schema refers to
		if try(func() error {
			s := jschema.New("", []byte("{}"))
			if err := s.AddType("@t", jschema.New("@t", body)); err != nil {
				return nil
			}
			_, err := s.GetAST()
			return err
		}) {
			return "compile"
		}
	}
	return ""
}

// once runs the project once and returns the observation.
func once(c *runCase, base string, want map[string]bool) (o *runObs) {
	o = &runObs{ID: c.ID, Stages: []string{}, FileOps: [][2]string{}}
	start := time.Now()
	defer func() {
		o.Ms = float64(time.Since(start).Microseconds()) / 1000
		if r := recover(); r != nil {
			o.Outcome = "panic"
			o.Panic = fmt.Sprint(r)
			o.Frames = frames()
		}
	}()
	oo, err := bannedOpts(c.Banned)
	if err == nil && len(c.Banned2) > 0 {
		var o2 []core.Option
		o2, err = bannedOpts(c.Banned2)
		if err == nil {
			oo = append(o2[:1], oo...) // the second ban set first, each as an option of its own
		}
	}
	if err != nil {
		o.Outcome = "harness"
		o.Panic = err.Error()
		return o
	}
	if c.DefaultOpts {
		oo = oo[:len(oo)-1] // the fixed seed is the last one
	}
	if c.SharedBan && sharedOption != nil {
		oo = append([]core.Option{sharedOption}, oo...)
	}
	rootPath := filepath.Join(base, c.Root)
	if c.RawRoot != "" {
		rootPath = base + string(filepath.Separator) + c.RawRoot // not cleaned on purpose
	}
	for _, w := range c.Warm {
		if wj, werr := kit.NewJapi(filepath.Join(base, w), oo...); werr == nil {
			_ = wj.ValidateJAPI()
		}
	}
	var j kit.JApi
	var rerr error
	if c.Mem {
		regMu.Lock()
		content, ok := memFiles[c.ID]
		regMu.Unlock()
		if !ok {
			content, rerr = os.ReadFile(rootPath)
			regMu.Lock()
			memFiles[c.ID] = content
			regMu.Unlock()
		}
		if rerr == nil {
			j = kit.NewJApiFromFile(sfs.NewFile(rootPath, content), oo...)
		}
	} else {
		j, rerr = kit.NewJapi(rootPath, oo...)
	}
	if rerr != nil {
		o.Outcome = "readerr"
		o.Panic = rerr.Error()
		return o
	}
	regMu.Lock()
	pending[goid()] = pendingReg{o: o, want: want, base: base}
	regMu.Unlock()
	defer func() {
		regMu.Lock()
		delete(pending, goid())
		regMu.Unlock()
	}()
	je := j.ValidateJAPI()
	if je != nil {
		o.Outcome = "error"
		o.Err = observeErr(je, base, c)
		o.Title = j.Title()
		return o
	}
	o.Outcome = "ok"
	b, err := j.ToJson()
	if err != nil {
		o.JSONErr = err.Error()
	} else {
		o.JSON = string(b)
		bi, err2 := j.ToJsonIndent()
		u := utf8.Valid(b) && (err2 != nil || utf8.Valid(bi))
		o.JSONUtf8 = &u
		if err2 != nil {
			o.JSONErr = "indent: " + err2.Error()
		} else {
			var buf bytes.Buffer
			ok := json.Compact(&buf, bi) == nil && bytes.Equal(buf.Bytes(), b)
			o.IndentOK = &ok
		}
	}
	o.Title = j.Title()
	return o
}

func goid() int64 {
	var buf [64]byte
	n := runtime.Stack(buf[:], false)
	// "goroutine 123 [running]:"
	s := string(buf[:n])
	s = strings.TrimPrefix(s, "goroutine ")
	var id int64
	for i := 0; i < len(s) && s[i] >= '0' && s[i] <= '9'; i++ {
		id = id*10 + int64(s[i]-'0')
	}
	return id
}

func frames() []string {
	pc := make([]uintptr, 40)
	n := runtime.Callers(3, pc)
	fr := runtime.CallersFrames(pc[:n])
	var res []string
	for {
		f, more := fr.Next()
		if strings.Contains(f.Function, "jsight") {
			res = append(res, fmt.Sprintf("%s:%d", f.Function, f.Line))
		}
		if !more || len(res) >= 6 {
			break
		}
	}
	return res
}

func obsKey(o *runObs) string {
	e := ""
	if o.Err != nil {
		b, _ := json.Marshal(o.Err)
		e = string(b)
	}
	return o.Outcome + "\x00" + o.Panic + "\x00" + e + "\x00" + o.JSON + "\x00" + o.Title
}

func cmdRun(line []byte, emit func(interface{})) {
	var c runCase
	if err := json.Unmarshal(line, &c); err != nil {
		emit(map[string]string{"harness_error": err.Error()})
		return
	}
	emit(map[string]string{"begin": c.ID})
	top, err := materialise(&c)
	if top != "" {
		defer func() {
			for _, n := range c.NoRead {
				os.Chmod(filepath.Join(top, "proj", n), 0o644)
			}
			os.RemoveAll(top)
		}()
	}
	if err != nil {
		emit(map[string]string{"id": c.ID, "outcome": "harness", "panic": err.Error()})
		return
	}
	base := filepath.Join(top, "proj")
	want := map[string]bool{}
	for _, w := range c.Want {
		want[w] = true
	}
	reps := c.Reps
	if reps < 1 {
		reps = 1
	}
	tmo := time.Duration(c.Timeout) * time.Millisecond
	if tmo == 0 {
		tmo = 10 * time.Second
	}
	done := make(chan *runObs, 1)
	go func() {
		first := once(&c, base, want)
		first.Reps = 1
		for i := 1; i < reps; i++ {
			o := once(&c, base, map[string]bool{})
			first.Reps++
			if obsKey(o) != obsKey(first) && first.RepDiff == "" {
				b, _ := json.Marshal(map[string]interface{}{"rep": i, "outcome": o.Outcome, "err": o.Err, "json": o.JSON, "panic": o.Panic})
				first.RepDiff = string(b)
			}
		}
		done <- first
	}()
	select {
	case o := <-done:
		emit(o)
	case <-time.After(tmo):
		emit(&runObs{ID: c.ID, Outcome: "timeout", Stages: []string{}, FileOps: [][2]string{}, Ms: float64(tmo.Milliseconds())})
		// The runaway goroutine cannot be stopped: leave, the orchestrator restarts us.
		os.Stdout.Sync()
		for _, n := range c.NoRead {
			os.Chmod(filepath.Join(top, "proj", n), 0o644)
		}
		os.RemoveAll(top)
		os.Exit(3)
	}
}
