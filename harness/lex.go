package main

import (
	"encoding/base64"
	"encoding/json"
	"fmt"

	"github.com/jsightapi/jsight-schema-go-library/fs"
	"github.com/jsightapi/jsight-schema-go-library/notations/jschema"
	"github.com/jsightapi/jsight-schema-go-library/notations/regex"
	"github.com/jsightapi/jsight-schema-go-library/rules/enum"

	"github.com/jsightapi/jsight-api-go-library/jerr"
	"github.com/jsightapi/jsight-api-go-library/scanner"
)

type lexCase struct {
	ID    string `json:"id"`
	B64   string `json:"b64"`
	Steps bool   `json:"steps"`
}

type lexObs struct {
	ID     string          `json:"id"`
	Lex    [][3]int        `json:"lex"` // type, begin, end
	Steps  [][]interface{} `json:"steps,omitempty"`
	ErrIdx int             `json:"err_idx"` // -1 when no error
	ErrMsg string          `json:"err_msg,omitempty"`
	Panic  string          `json:"panic,omitempty"`
	Frames []string        `json:"frames,omitempty"`
	Len    int             `json:"len"`
	Orc    [][2]int        `json:"orc"` // schema library's own length for every schema / enum lexeme begin
	Rx     [][2]int        `json:"rx"`  // regex library's own length for every regex text lexeme begin (-1 = error)
	Final  string          `json:"final,omitempty"`
	Stack  []string        `json:"stack,omitempty"`
}

// libLen asks the schema library itself how long the value starting at pos is (-1 = error).
func libLen(data []byte, pos int, isEnum bool) (n int) {
	defer func() {
		if recover() != nil {
			n = -1
		}
	}()
	if pos < 0 || pos > len(data) {
		return -1
	}
	f := fs.NewFile("", data[pos:])
	var l uint
	var err error
	if isEnum {
		l, err = enum.FromFile(f).Len()
	} else {
		l, err = jschema.FromFile(f).Len()
	}
	if err != nil {
		return -1
	}
	return int(l)
}

func regexLen(data []byte, pos int) (n int) {
	defer func() {
		if recover() != nil {
			n = -1
		}
	}()
	l, err := regex.New("", data[pos:]).Len()
	if err != nil {
		return -1
	}
	return int(l)
}

func cmdLex(line []byte, emit func(interface{})) {
	var c lexCase
	if err := json.Unmarshal(line, &c); err != nil {
		emit(map[string]string{"harness_error": err.Error()})
		return
	}
	data, err := base64.StdEncoding.DecodeString(c.B64)
	if err != nil {
		emit(map[string]string{"harness_error": err.Error()})
		return
	}
	emit(map[string]string{"begin": c.ID})
	o := &lexObs{ID: c.ID, ErrIdx: -1, Len: len(data), Lex: [][3]int{}, Orc: [][2]int{}, Rx: [][2]int{}}
	func() {
		defer func() {
			if r := recover(); r != nil {
				o.Panic = fmt.Sprint(r)
				o.Frames = frames()
			}
		}()
		lastKw := ""
		s := scanner.NewJApiScanner(fs.NewFile("in.jst", data))
		for n := 0; n < 4*len(data)+16; n++ {
			var lx *scanner.Lexeme
			var je *jerr.JApiError
			lx, je = s.Next()
			if je != nil {
				o.ErrIdx = int(je.Index())
				o.ErrMsg = je.Msg
				break
			}
			if lx == nil {
				break
			}
			o.Lex = append(o.Lex, [3]int{int(lx.Type()), int(lx.Begin()), int(lx.End())})
			if lx.Type() == scanner.Schema || lx.Type() == scanner.Enum {
				o.Orc = append(o.Orc, [2]int{int(lx.Begin()), libLen(data, int(lx.Begin()), lx.Type() == scanner.Enum)})
			}
			if lx.Type() == scanner.Keyword && int(lx.End()) < len(data) {
				lastKw = string(data[lx.Begin() : lx.End()+1])
			}
			// a text lexeme that is not a description is a regex body: ask the regex library for its extent
			if lx.Type() == scanner.Text && lastKw != "Description" && int(lx.Begin()) < len(data) {
				o.Rx = append(o.Rx, [2]int{int(lx.Begin()), regexLen(data, int(lx.Begin()))})
			}
			if c.Steps {
				o.Steps = append(o.Steps, []interface{}{s.VerifStepName(), len(s.VerifStepStack()), int(s.CurrentIndex())})
			}
		}
		o.Final = s.VerifStepName()
		o.Stack = s.VerifStepStack()
	}()
	emit(o)
}
