package main

import (
	"encoding/base64"
	"encoding/json"
	"fmt"

	"github.com/jsightapi/jsight-schema-go-library/fs"

	"github.com/jsightapi/jsight-api-go-library/catalog"
	"github.com/jsightapi/jsight-api-go-library/core"
	"github.com/jsightapi/jsight-api-go-library/directive"
	"github.com/jsightapi/jsight-api-go-library/jerr"
)

type textCase struct {
	ID  string `json:"id"`
	Fn  string `json:"fn"`
	B64 string `json:"b64"`
	Idx int    `json:"idx"`
}

type textObs struct {
	ID    string `json:"id"`
	Out   string `json:"out"` // base64
	Err   string `json:"err,omitempty"`
	Panic string `json:"panic,omitempty"`
	Line  int    `json:"line,omitempty"`
	Quote string `json:"quote,omitempty"` // base64
}

func cmdText(line []byte, emit func(interface{})) {
	var c textCase
	if err := json.Unmarshal(line, &c); err != nil {
		emit(map[string]string{"harness_error": err.Error()})
		return
	}
	in, err := base64.StdEncoding.DecodeString(c.B64)
	if err != nil {
		emit(map[string]string{"harness_error": err.Error()})
		return
	}
	o := &textObs{ID: c.ID}
	func() {
		defer func() {
			if r := recover(); r != nil {
				o.Panic = fmt.Sprint(r)
			}
		}()
		var out []byte
		switch c.Fn {
		case "description":
			// the function mutates nothing but works on a copy anyway
			cp := append([]byte(nil), in...)
			b, e := core.VerifDescription(cp)
			out = b
			if e != nil {
				o.Err = e.Error()
			}
		case "annotation":
			out = []byte(catalog.Annotation(string(in)))
		case "unescape":
			cp := append([]byte(nil), in...)
			out = directive.VerifUnescapeParameter(cp)
		case "tagname":
			out = []byte(catalog.VerifTagName(string(in)))
		case "pathtagtitle":
			out = []byte(catalog.VerifPathTagTitle(string(in)))
		case "pathtag":
			out = []byte(catalog.VerifTagName(catalog.VerifPathTagTitle(string(in))))
		case "incname":
			if e := core.VerifValidateIncludeFileName(string(in)); e != nil {
				o.Err = e.Error()
			}
		case "location":
			je := jerr.NewJApiError("m", fs.NewFile("f", in), uintIndex(c.Idx))
			o.Line = int(je.Line())
			o.Quote = base64.StdEncoding.EncodeToString([]byte(je.Quote()))
		default:
			o.Err = "unknown fn"
		}
		o.Out = base64.StdEncoding.EncodeToString(out)
	}()
	emit(o)
}
