#!/usr/bin/env python3
"""Applies every seeded mutant to /repo in turn, runs the checks named for it, undoes it, and
records the outcome in seeded/<id>/meta.json (detected_by / history)."""
import json, os, subprocess, sys, time
V = "/verif"
EXTRA = {"C01": ["C01", "C07"], "C17": ["C17", "C05"], "C12": ["C12", "C10"], "C10": ["C10", "C12"], "C11": ["C11", "C07"],
         "C04": ["C04", "C12"], "C09": ["C09", "C19"], "C20": ["C20", "C04"]}
only = sys.argv[1:]
for pid in sorted(os.listdir(V + "/seeded")):
    if only and pid not in only:
        continue
    d = V + "/seeded/" + pid
    meta = json.load(open(d + "/meta.json"))
    if subprocess.run(["git", "-C", "/repo", "diff", "--quiet"]).returncode != 0:
        print("repo dirty"); sys.exit(2)
    if subprocess.run(["git", "-C", "/repo", "apply", d + "/patch.diff"]).returncode != 0:
        print(pid, "patch does not apply to the current tree"); meta["history"].append({"when": time.strftime("%F %T"), "result": "patch does not apply"}); json.dump(meta, open(d + "/meta.json", "w"), indent=1); continue
    try:
        runs = []
        for chk in EXTRA.get(pid, [meta["property"]]) if "-" not in pid else [meta["property"]]:
            p = subprocess.run([V + "/bin/check", chk, "--tier", "quick"], cwd=V, capture_output=True, text=True, env=dict(os.environ, VERIF_SEED=os.environ.get("VERIF_SEED", "1")))
            first = next((l.strip() for l in p.stdout.splitlines() if l.startswith("  violation class")), "")
            runs.append({"check": chk, "exit": p.returncode, "first_class": first[:220]})
            print(pid, chk, "rc=%d" % p.returncode, first[:150]); sys.stdout.flush()
        meta["detected_by"] = [r["check"] for r in runs if r["exit"] == 1]
        meta["history"].append({"when": time.strftime("%F %T"), "runs": runs})
    finally:
        subprocess.run(["git", "-C", "/repo", "checkout", "--", "."])
    json.dump(meta, open(d + "/meta.json", "w"), indent=1)
