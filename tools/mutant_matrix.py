#!/usr/bin/env python3
"""Runs every seeded change against the check of its own property (plus the extra checks named in
EXTRA for round 1) and records the outcome in seeded/<id>/meta.json (detected_by / history).
Each change is applied in a scratch worktree of /repo outside /repo and /verif (removed afterwards),
the check runs with VERIF_REPO pointing there and its evidence goes to a scratch directory, so /repo,
/verif/evidence and concurrent runs are left alone.  usage: mutant_matrix.py [-j N] [ids...]"""
import concurrent.futures
import json
import os
import shutil
import subprocess
import sys
import tempfile
import time

V = "/verif"
EXTRA = {"C01-4": ["C01", "C07"], "C01": ["C01", "C07"], "C17": ["C17", "C05"], "C12": ["C12", "C10"], "C10": ["C10", "C12"], "C11": ["C11", "C07"],
         "C04": ["C04", "C12"], "C09": ["C09", "C19"], "C20": ["C20", "C04"]}
args = sys.argv[1:]
jobs = 3
if args[:1] == ["-j"]:
    jobs = int(args[1])
    args = args[2:]
only = args
base = tempfile.mkdtemp(prefix="vmm")


def one(pid):
    d = V + "/seeded/" + pid
    meta = json.load(open(d + "/meta.json"))
    wt = os.path.join(base, pid)
    out = []
    if meta.get("superseded"):
        return pid, ["%s superseded by %s (no longer a violation on the current tree)" % (pid, meta["superseded"]["by"])]
    p = subprocess.run(["git", "-C", "/repo", "worktree", "add", "--detach", wt, "HEAD"], capture_output=True, text=True)
    if p.returncode != 0:
        return pid, ["worktree failed: " + p.stderr[-200:]]
    try:
        # uncommitted state of /repo is not copied: the matrix is about the committed tree + the seeded change
        if subprocess.run(["git", "-C", wt, "apply", d + "/patch.diff"]).returncode != 0:
            meta["history"].append({"when": time.strftime("%F %T"), "result": "patch does not apply"})
            json.dump(meta, open(d + "/meta.json", "w"), indent=1)
            return pid, ["patch does not apply to the current tree"]
        runs = []
        for chk in EXTRA.get(pid, [meta["property"]]):
            env = dict(os.environ, VERIF_REPO=wt, VERIF_SEED=os.environ.get("VERIF_SEED", "1"),
                       VERIF_EVIDENCE_DIR=os.path.join(base, "evidence-" + pid))
            p = subprocess.run([V + "/bin/check", chk, "--tier", "quick"], cwd=V, capture_output=True, text=True, env=env)
            first = next((l.strip() for l in p.stdout.splitlines() if l.startswith("  violation class")), "")
            runs.append({"check": chk, "exit": p.returncode, "first_class": first[:220]})
            out.append("%s %s rc=%d %s" % (pid, chk, p.returncode, first[:150]))
        meta["detected_by"] = [r["check"] for r in runs if r["exit"] == 1]
        meta["history"].append({"when": time.strftime("%F %T"), "runs": runs})
        json.dump(meta, open(d + "/meta.json", "w"), indent=1)
    finally:
        subprocess.run(["git", "-C", "/repo", "worktree", "remove", "--force", wt], capture_output=True)
    return pid, out


ids = [p for p in sorted(os.listdir(V + "/seeded")) if not only or p in only]
try:
    with concurrent.futures.ThreadPoolExecutor(jobs) as ex:
        for pid, lines in ex.map(one, ids):
            for ln in lines:
                print(ln)
            sys.stdout.flush()
finally:
    shutil.rmtree(base, ignore_errors=True)
    subprocess.run(["git", "-C", "/repo", "worktree", "prune"], capture_output=True)
