#!/bin/sh
# usage: tools/verify_mutant.sh C07   -- confirms a sub-agent's mutant in its scratch worktree /tmp/wt/C07
ID="$1"; WT=${WTROOT:-/tmp/wt}/$ID
export GOFLAGS=-mod=mod GOPROXY=off GOSUMDB=off GOTOOLCHAIN=local
cd $WT || exit 2
[ -s patch.diff ] || { echo "no patch.diff"; exit 2; }
git checkout -q -- . 2>/dev/null
git apply --check patch.diff || { echo "patch does not apply to clean tree"; exit 2; }
git apply patch.diff
go build ./... || { echo "BUILD FAILS"; exit 1; }
pk=$(go list ./... | grep -v verifdemo)
if go test -vet=off -count=1 $pk >${WTROOT:-/tmp/wt}/$ID.suite.log 2>&1; then echo "suite: PASS with change"; else echo "suite: FAIL with change"; tail -5 ${WTROOT:-/tmp/wt}/$ID.suite.log; fi
if go test -vet=off -count=1 ./verifdemo/ >${WTROOT:-/tmp/wt}/$ID.demo_with.log 2>&1; then echo "demo with change: PASS (bad)"; else echo "demo with change: FAIL (good)"; fi
git apply -R patch.diff
if go test -vet=off -count=1 ./verifdemo/ >${WTROOT:-/tmp/wt}/$ID.demo_without.log 2>&1; then echo "demo without change: PASS (good)"; else echo "demo without change: FAIL (bad)"; tail -5 ${WTROOT:-/tmp/wt}/$ID.demo_without.log; fi
