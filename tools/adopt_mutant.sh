#!/bin/sh
# usage: WTROOT=/tmp/wt8 ROUND=8 tools/adopt_mutant.sh C05   -- confirms a sub-agent's change and files it as seeded/C05-8
ID="$1"; WT=${WTROOT:-/tmp/wt}/$ID; R=${ROUND:-8}
out=$(WTROOT=${WTROOT:-/tmp/wt} sh /verif/tools/verify_mutant.sh $ID 2>&1)
echo "$out" | sed "s/^/$ID: /"
echo "$out" | grep -q "suite: PASS with change" || exit 1
echo "$out" | grep -q "demo with change: FAIL (good)" || exit 1
echo "$out" | grep -q "demo without change: PASS (good)" || exit 1
D=/verif/seeded/$ID-$R
mkdir -p $D
cp $WT/patch.diff $D/patch.diff
cp $WT/verifdemo/demo_test.go $D/demo_test.go
cp $WT/NOTES.md $D/NOTES.md 2>/dev/null
python3 - "$ID" "$R" "$WT" <<'P'
import json,sys,re,subprocess
pid,r,wt=sys.argv[1:4]
d="/verif/seeded/%s-%s"%(pid,r)
files=sorted(set(re.findall(r"^\+\+\+ b/(\S+)", open(d+"/patch.diff").read(), re.M)))
notes=open(d+"/NOTES.md").read() if __import__("os").path.exists(d+"/NOTES.md") else ""
m=re.search(r"(?is)need(?:ed)?[^\n]*manifest[^\n]*\n?(.{0,600})", notes)
meta={"property":pid,"round":int(r),"source":"independent sub-agent given only the property text, a scratch worktree and one-line descriptions of the earlier changes (and of the over-used ideas) to avoid",
 "files_changed":files,"needs_to_manifest":"see NOTES.md",
 "confirmed":{"build":"go build ./... ok with the patch","suite":"go test -vet=off -count=1 (all library packages) passes with the patch","demo_with_patch":"FAIL","demo_without_patch":"PASS","how":"tools/verify_mutant.sh in the scratch worktree %s (removed afterwards)"%wt},
 "detected_by":[],"history":[]}
json.dump(meta,open(d+"/meta.json","w"),indent=1)
P
echo "$ID adopted as $D"
