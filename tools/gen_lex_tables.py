"""Prints the keyword byte tables embedded in spec/JSightLex.tla (run once; the check c14 verifies
that the embedded table equals the spellings the real code knows)."""
KW = ["JSIGHT", "INFO", "Title", "Version", "Description", "SERVER", "BaseUrl", "URL", "GET", "POST", "PUT", "PATCH",
      "DELETE", "Body", "Request", "Path", "Headers", "Query", "TYPE", "ENUM", "MACRO", "PASTE", "INCLUDE", "Protocol",
      "Method", "Params", "Result", "TAG", "Tags"]
print("KwTable == <<")
print(",\n".join("  << %s >>  \\* %s" % (", ".join(str(ord(c)) for c in k), k) if False else
                 "  << %s >>" % ", ".join(str(ord(c)) for c in k) for k in KW))
print(">>")
print("KwNames == << %s >>" % ", ".join('"%s"' % k for k in KW))
