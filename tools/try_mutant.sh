#!/bin/sh
# usage: tools/try_mutant.sh <patch.diff> <property id>...   applies the patch to /repo, runs the quick checks, reverts
P="$1"; shift
cd /repo || exit 2
git diff --quiet || { echo "/repo has uncommitted changes"; exit 2; }
git apply "$P" || { echo "patch does not apply"; exit 2; }
for id in "$@"; do
  out=$(cd /verif && VERIF_SEED=${VERIF_SEED:-1} bin/check $id --tier ${TIER:-quick} 2>&1); rc=$?
  echo "== $id rc=$rc $(echo "$out" | grep "^$id " | tail -1)"
  echo "$out" | grep "violation class" | head -4 | cut -c1-260
done
git -C /repo checkout -- . && git -C /repo status --short | head -3
